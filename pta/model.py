"""Program model: sources -> modules, classes, functions, constants, imports.

Nothing under the analysed repository is imported or executed; everything is
derived from ``ast.parse`` of the source text.
"""
import ast
import copy
import hashlib
import os

PKG = "trie"


class AnalysisError(Exception):
    """The analyser cannot decide (parse failure, unresolved call, vanished anchor)."""


class Inconclusive(AnalysisError):
    """A rule met a shape it cannot interpret."""


def repo_root():
    return os.environ.get("VERIF_REPO", "/repo")


def load_sources(root=None):
    """{relative path: source} for every .py file of the package."""
    root = root or repo_root()
    out = {}
    base = os.path.join(root, PKG)
    if not os.path.isdir(base):
        raise AnalysisError("package directory %s not found" % base)
    for dirpath, dirnames, filenames in os.walk(base):
        dirnames[:] = sorted(d for d in dirnames if d != "__pycache__")
        for fn in sorted(filenames):
            if fn.endswith(".py"):
                p = os.path.join(dirpath, fn)
                rel = os.path.relpath(p, root)
                with open(p, encoding="utf-8") as fh:
                    out[rel] = fh.read()
    return out


def modname_of(rel):
    m = rel[:-3].replace(os.sep, ".")
    if m.endswith(".__init__"):
        m = m[: -len(".__init__")]
    return m


class Unknown:
    def __repr__(self):
        return "<?>"


UNKNOWN = Unknown()


class Sentinel:
    """Result of ``object()`` at module level (e.g. db.DELETED)."""

    def __init__(self, name):
        self.name = name

    def __repr__(self):
        return "<sentinel %s>" % self.name


class Module:
    def __init__(self, name, rel, src):
        self.name = name
        self.rel = rel
        self.src = src
        self.lines = src.splitlines()
        try:
            self.tree = ast.parse(src, filename=rel)
        except SyntaxError as e:
            raise AnalysisError("cannot parse %s: %s" % (rel, e))
        self.imports = {}  # local name -> ('pkg', module, symbol|None) | ('ext', dotted)
        self.funcs = {}  # local top-level name -> Func
        self.classes = {}  # local name -> Class
        self.const_nodes = {}  # name -> ast expr (module-level simple assignment)
        self.is_tools = ".tools" in name

    def seg(self, node):
        return ast.get_source_segment(self.src, node) or ""


class Class:
    def __init__(self, module, node):
        self.module = module
        self.node = node
        self.name = node.name
        self.qual = "%s:%s" % (module.name, node.name)
        self.methods = {}  # name -> Func (getter for properties)
        self.setters = {}  # name -> Func
        self.bases = [ast.unparse(b) for b in node.bases]
        self.class_attrs = {}  # name -> ast expr
        self.annotations = {}  # name -> ast annotation

    def __repr__(self):
        return "<Class %s>" % self.qual


class Func:
    def __init__(self, module, node, cls=None, parent=None):
        self.module = module
        self.node = node
        self.cls = cls
        self.parent = parent  # enclosing Func for nested defs
        self.name = node.name
        if parent is not None:
            self.qual = "%s.%s" % (parent.qual, node.name)
        elif cls is not None:
            self.qual = "%s:%s.%s" % (module.name, cls.name, node.name)
        else:
            self.qual = "%s:%s" % (module.name, node.name)
        self.decos = []
        self.params = [a.arg for a in node.args.posonlyargs + node.args.args]
        self.kwonly = [a.arg for a in node.args.kwonlyargs]
        self.vararg = node.args.vararg.arg if node.args.vararg else None
        self.kwarg = node.args.kwarg.arg if node.args.kwarg else None
        self.is_generator = _has_yield(node)
        self.nested = {}
        self.node_orig = node
        self.wrapped_by = None
        self.wrapper_with = None
        self.is_template = False

    # decorator-derived flags ------------------------------------------------
    @property
    def is_static(self):
        return "staticmethod" in self.decos

    @property
    def is_classmethod(self):
        return "classmethod" in self.decos

    @property
    def is_property(self):
        return "property" in self.decos

    @property
    def is_setter(self):
        return any(d.endswith(".setter") for d in self.decos)

    @property
    def is_ctxmgr(self):
        return "contextlib.contextmanager" in self.decos

    @property
    def self_name(self):
        if self.cls is not None and not self.is_static and self.params:
            return self.params[0]
        return None

    @property
    def short(self):
        return self.qual.split(":", 1)[1]

    @property
    def rel(self):
        return self.module.rel

    def loc(self, node=None):
        n = node if node is not None else self.node
        return "%s:%d" % (self.module.rel, getattr(n, "lineno", 0))

    def all_params(self):
        ps = list(self.params) + list(self.kwonly)
        if self.vararg:
            ps.append(self.vararg)
        if self.kwarg:
            ps.append(self.kwarg)
        return ps

    def defaults(self):
        """param name -> default expr"""
        a = self.node.args
        pos = a.posonlyargs + a.args
        out = {}
        for p, d in zip(pos[len(pos) - len(a.defaults):], a.defaults):
            out[p.arg] = d
        for p, d in zip(a.kwonlyargs, a.kw_defaults):
            if d is not None:
                out[p.arg] = d
        return out

    def annotation(self, pname):
        a = self.node.args
        for p in a.posonlyargs + a.args + a.kwonlyargs:
            if p.arg == pname:
                return p.annotation
        return None

    def __repr__(self):
        return "<Func %s>" % self.qual


def _has_yield(fnode):
    for n in walk_shallow(fnode):
        if isinstance(n, (ast.Yield, ast.YieldFrom)):
            return True
    return False


def walk_shallow(fnode):
    """Walk a function body without entering nested defs/lambdas/classes."""
    stack = list(ast.iter_child_nodes(fnode))
    # skip decorators/args of fnode itself
    stack = list(fnode.body)
    while stack:
        n = stack.pop()
        yield n
        for c in ast.iter_child_nodes(n):
            if isinstance(c, (ast.FunctionDef, ast.AsyncFunctionDef, ast.Lambda, ast.ClassDef)):
                continue
            stack.append(c)


def deco_name(module, d):
    """Dotted name of a decorator expression, resolved through imports."""
    if isinstance(d, ast.Call):
        d = d.func
    s = ast.unparse(d)
    head = s.split(".", 1)[0]
    imp = module.imports.get(head)
    if imp and imp[0] == "ext":
        rest = s.split(".", 1)[1] if "." in s else ""
        return imp[1] + ("." + rest if rest else "")
    return s


class Program:
    def __init__(self, sources):
        self.sources = dict(sources)
        self.modules = {}
        self.funcs = {}
        self.classes = {}
        self._const_cache = {}
        for rel in sorted(sources):
            m = Module(modname_of(rel), rel, sources[rel])
            self.modules[m.name] = m
        for m in self.modules.values():
            self._index_imports(m)
        for m in self.modules.values():
            self._unqualify_module_access(m)
        for m in self.modules.values():
            self._index_defs(m)
        self.hygiene = self._module_hygiene()
        # decorators: only those whose effect on the call is tabled (spec.TRANSPARENT_DECOS), property accessors and
        # the package's own wrapper decorators (checked in _apply_wrappers) - anything else may change what the
        # function receives or returns
        from . import spec as _spec
        for f_ in self.funcs.values():
            if f_.module.is_tools:
                continue
            for d_, dn in zip(f_.decos, f_.node.decorator_list):
                base_ = d_.split("(")[0]
                if base_ in _spec.TRANSPARENT_DECOS or base_.split(".")[-1] in ("setter", "getter", "deleter", "cache", "lru_cache", "cached_property"):
                    continue
                if base_ in f_.module.funcs or (f_.module.imports.get(base_, ("",))[0] == "pkg"):
                    continue  # a decorator defined in the package: _apply_wrappers accepts or refuses it
                if base_.split(".")[-1] in ("to_tuple", "to_list", "to_dict", "to_set", "to_ordered_dict", "apply_to_return_value", "contextmanager", "wraps"):
                    continue
                self.hygiene.append((f_.module.rel, dn.lineno, "decorator `@%s` on %s is not in the table of decorators whose effect is known" % (ast.unparse(dn)[:50], f_.qual.split(":")[1])))
        from .consts import inline_new_constants
        self.consts_inlined = inline_new_constants(self)
        from .renames import undo_renames
        self.renamed_back = undo_renames(self)
        from .params import canonical_params, specialise_new_defaults, restore_self
        self.restored_self = restore_self(self)
        self.params_specialised = specialise_new_defaults(self)
        self.params_renamed = canonical_params(self)
        self.wrapper_decorators = {}
        self._apply_wrappers()
        from .loops import loops_to_recursion
        self.unlooped = loops_to_recursion(self)
        from .dispatch import desugar_dispatch
        self.desugared = desugar_dispatch(self)
        from .inline import inline_new_helpers
        self.inlined = inline_new_helpers(self)

    # ------------------------------------------------------------------
    def _module_hygiene(self):
        """Statements the program model does not interpret: anything at module level that is not an import, a def,
        a class, a docstring or the binding of a plain name (a monkeypatch `Class.m = f`, `exec(..)`,
        `globals().update(..)`, a loop that fills a table, `del name`); a module-level function defined twice or
        rebinding an imported name; in a class body, a name bound both by a `def` and by an assignment, or a
        subclass of an analysed class that overrides one of its methods (assumption A4).  -> [(rel, line, text)]"""
        out = []
        for m in self.modules.values():
            if m.is_tools:
                continue

            def scan(body, where):
                seen_defs = {}
                for n in body:
                    if isinstance(n, (ast.Import, ast.ImportFrom, ast.ClassDef, ast.Pass)):
                        continue
                    if isinstance(n, ast.FunctionDef):
                        if n.name in seen_defs:
                            out.append((m.rel, n.lineno, "%s `%s` is defined twice (the second definition replaces the first)" % (where, n.name)))
                        imp = m.imports.get(n.name) if where == "module-level function" else None
                        if imp is not None:
                            out.append((m.rel, n.lineno, "`def %s` rebinds a name this module imports: calls in this module no longer reach the imported function" % n.name))
                        seen_defs[n.name] = n
                        continue
                    if isinstance(n, ast.Expr) and isinstance(n.value, ast.Constant):
                        continue
                    if isinstance(n, (ast.Assign, ast.AnnAssign)):
                        tg = n.targets if isinstance(n, ast.Assign) else [n.target]
                        flat = []
                        for t in tg:
                            flat += list(t.elts) if isinstance(t, (ast.Tuple, ast.List)) else [t]
                        if all(isinstance(t, ast.Name) for t in flat):
                            for t in flat:
                                if t.id in seen_defs:
                                    out.append((m.rel, n.lineno, "`%s` is rebound after its definition" % t.id))
                            val = getattr(n, "value", None)
                            if val is not None and any(isinstance(x, ast.Call) and isinstance(x.func, ast.Name) and x.func.id in ("exec", "eval", "globals", "locals", "vars", "setattr", "__import__")
                                                       for x in ast.walk(val)):
                                out.append((m.rel, n.lineno, "module-level `%s` uses a dynamic builtin" % ast.unparse(n)[:60]))
                            continue
                    if isinstance(n, (ast.If, ast.Try)) and where == "module-level function":
                        # conditional imports / constants (TYPE_CHECKING, version checks, `try: import x except ImportError`):
                        # fine as long as the arms only import or bind plain names - no conditional defs
                        blocks = [n.body, n.orelse] + ([h.body for h in n.handlers] + [n.finalbody] if isinstance(n, ast.Try) else [])
                        inner = [x for b in blocks for x in b]
                        if all(isinstance(x, (ast.Import, ast.ImportFrom, ast.Pass)) or
                               (isinstance(x, (ast.Assign, ast.AnnAssign)) and all(isinstance(t_, ast.Name) for t_ in (x.targets if isinstance(x, ast.Assign) else [x.target]))
                                and not any(isinstance(y, ast.Call) and isinstance(y.func, ast.Name) and y.func.id in ("exec", "eval", "globals", "locals", "vars", "setattr", "__import__") for y in ast.walk(x)))
                               for x in inner):
                            continue
                    out.append((m.rel, n.lineno, "module-level statement `%s` is not part of the program model (only imports, defs, classes and bindings of plain names are)"
                                % ast.unparse(n).splitlines()[0][:70]))
            scan(m.tree.body, "module-level function")
            for c in [x for x in ast.walk(m.tree) if isinstance(x, ast.ClassDef)]:
                defs, asg = {}, {}
                for n in c.body:
                    if isinstance(n, ast.FunctionDef):
                        is_acc = any(isinstance(d, ast.Attribute) and d.attr in ("setter", "getter", "deleter") for d in n.decorator_list)
                        if n.name in defs and not is_acc:
                            out.append((m.rel, n.lineno, "method `%s.%s` is defined twice" % (c.name, n.name)))
                        defs[n.name] = n
                    elif isinstance(n, (ast.Assign, ast.AnnAssign)):
                        for t in (n.targets if isinstance(n, ast.Assign) else [n.target]):
                            if isinstance(t, ast.Name) and getattr(n, "value", None) is not None:
                                asg[t.id] = n
                for k in set(defs) & set(asg):
                    out.append((m.rel, asg[k].lineno, "`%s.%s` is bound by a def and by an assignment in the class body" % (c.name, k)))
        # rebinding of module-level / enclosing names from inside a function is state the effect layer does not track
        for m in self.modules.values():
            if m.is_tools:
                continue
            for n in ast.walk(m.tree):
                if isinstance(n, (ast.Global, ast.Nonlocal)):
                    out.append((m.rel, n.lineno, "`%s %s`: a function rebinds a %s name (hidden state between calls)"
                                % ("global" if isinstance(n, ast.Global) else "nonlocal", ", ".join(n.names), "module-level" if isinstance(n, ast.Global) else "enclosing")))
        # A4: the analysed data-structure classes are not subclassed with overrides inside the package
        analysed = {"HexaryTrie", "BinaryTrie", "SparseMerkleTree", "SparseMerkleProof", "HexaryTrieFog", "TrieFrontierCache", "NodeIterator", "ScratchDB"}
        base_methods = {}
        for m in self.modules.values():
            for c in [x for x in ast.walk(m.tree) if isinstance(x, ast.ClassDef)]:
                if c.name in analysed:
                    base_methods[c.name] = {n.name for n in c.body if isinstance(n, ast.FunctionDef)}
        for m in self.modules.values():
            if m.is_tools:
                continue
            for c in [x for x in ast.walk(m.tree) if isinstance(x, ast.ClassDef)]:
                for b in c.bases:
                    bn = b.id if isinstance(b, ast.Name) else (b.attr if isinstance(b, ast.Attribute) else None)
                    imp = m.imports.get(bn) if isinstance(b, ast.Name) else None
                    if imp is not None and imp[0] == "pkg" and imp[2]:
                        bn = imp[2]  # `from trie.hexary import HexaryTrie as _HT`
                    if bn in base_methods and c.name != bn:
                        over = sorted({n.name for n in c.body if isinstance(n, ast.FunctionDef)} & base_methods[bn])
                        if over:
                            out.append((m.rel, c.lineno, "class `%s` subclasses the analysed class `%s` and overrides %s: which body runs depends on the receiver's class (assumption A4)"
                                        % (c.name, bn, ", ".join(over[:4]))))
        return out

    @classmethod
    def from_repo(cls, root=None):
        return cls(load_sources(root))

    def digest(self, rels=None):
        h = hashlib.sha256()
        for rel in sorted(self.sources):
            if rels is None or rel in rels:
                h.update(rel.encode())
                h.update(b"\0")
                h.update(self.sources[rel].encode())
                h.update(b"\0")
        return h.hexdigest()

    # ------------------------------------------------------------------
    def _index_imports(self, m):
        for node in ast.walk(m.tree):
            if isinstance(node, ast.ImportFrom):
                if node.level:
                    parts = m.name.split(".")
                    # module 'trie.utils.nodes', level 1 -> 'trie.utils'
                    is_pkg = m.rel.endswith("__init__.py")
                    base = parts if is_pkg else parts[:-1]
                    base = base[: len(base) - (node.level - 1)]
                    src = ".".join(base + ([node.module] if node.module else []))
                else:
                    src = node.module or ""
                for a in node.names:
                    local = a.asname or a.name
                    if src == PKG or src.startswith(PKG + "."):
                        m.imports[local] = ("pkg", src, a.name)
                    else:
                        m.imports[local] = ("ext", src + "." + a.name)
            elif isinstance(node, ast.Import):
                for a in node.names:
                    local = a.asname or a.name.split(".")[0]
                    if a.name == PKG or a.name.startswith(PKG + "."):
                        m.imports[local] = ("pkg", a.name, None)
                    else:
                        m.imports[local] = ("ext", a.name if a.asname else a.name.split(".")[0])

    def _unqualify_module_access(self, m):
        """`from trie.utils import nodes as n; n.get_node_type(x)` is `from trie.utils.nodes import get_node_type;
        get_node_type(x)`: attribute access through an alias of a package module becomes the bare name, which is
        entered in the module's import table (unless the bare name already means something else there)."""
        aliases = {}
        for local, imp in m.imports.items():
            if imp[0] != "pkg":
                continue
            _, src, sym = imp
            target = src if sym is None else "%s.%s" % (src, sym)
            if target in self.modules and target != m.name:
                aliases[local] = target
        if not aliases and not any(i[0] == "pkg" and i[2] is None for i in m.imports.values()):
            return
        taken = set(m.imports) | {n.name for n in m.tree.body if isinstance(n, (ast.FunctionDef, ast.ClassDef))}
        for n in m.tree.body:
            if isinstance(n, ast.Assign):
                taken |= {t.id for t in n.targets if isinstance(t, ast.Name)}
        prog = self
        added = {}

        class T(ast.NodeTransformer):
            def visit_Attribute(self, n):
                self.generic_visit(n)
                tgt = None
                if isinstance(n.value, ast.Name) and n.value.id in aliases:
                    tgt = aliases[n.value.id]
                elif isinstance(n.value, ast.Attribute):
                    # `import trie.constants` ... `trie.constants.BLANK_NODE`
                    parts, v = [], n.value
                    while isinstance(v, ast.Attribute):
                        parts.append(v.attr)
                        v = v.value
                    if isinstance(v, ast.Name):
                        base = aliases.get(v.id)
                        imp_ = m.imports.get(v.id)
                        if imp_ is not None and imp_[0] == "pkg" and imp_[2] is None and (imp_[1] == v.id or imp_[1].startswith(v.id + ".")):
                            base = v.id  # `import trie.constants` binds the top-level package name
                        if base:
                            cand = ".".join([base] + list(reversed(parts)))
                            if cand in prog.modules:
                                tgt = cand
                if tgt is not None and isinstance(n.ctx, ast.Load):
                    name = n.attr
                    if (name in taken and added.get(name) != tgt) or name in aliases:
                        return n
                    # only names the target module really defines / imports
                    tm = prog.modules[tgt]
                    defined = {x.name for x in tm.tree.body if isinstance(x, (ast.FunctionDef, ast.ClassDef))} | set(tm.imports)
                    for x in tm.tree.body:
                        if isinstance(x, ast.Assign):
                            defined |= {t.id for t in x.targets if isinstance(t, ast.Name)}
                        elif isinstance(x, ast.AnnAssign) and isinstance(x.target, ast.Name):
                            defined.add(x.target.id)
                    if name not in defined:
                        return n
                    added[name] = tgt
                    return ast.copy_location(ast.Name(id=name, ctx=ast.Load()), n)
                return n
        T().visit(m.tree)
        for name, tgt in added.items():
            m.imports[name] = ("pkg", tgt, name)

    def _index_defs(self, m):
        for node in m.tree.body:
            if isinstance(node, ast.FunctionDef):
                f = self._mk_func(m, node)
                m.funcs[node.name] = f
            elif isinstance(node, ast.ClassDef):
                c = Class(m, node)
                m.classes[c.name] = c
                self.classes[c.qual] = c
                for sub in node.body:
                    if isinstance(sub, ast.FunctionDef):
                        f = self._mk_func(m, sub, cls=c)
                        if f.is_setter:
                            c.setters[f.name] = f
                        else:
                            c.methods[f.name] = f
                    elif isinstance(sub, ast.Assign) and len(sub.targets) == 1 and isinstance(sub.targets[0], ast.Name):
                        c.class_attrs[sub.targets[0].id] = sub.value
                    elif isinstance(sub, ast.AnnAssign) and isinstance(sub.target, ast.Name):
                        c.annotations[sub.target.id] = sub.annotation
                        if sub.value is not None:
                            c.class_attrs[sub.target.id] = sub.value
            elif isinstance(node, ast.Assign) and len(node.targets) == 1 and isinstance(node.targets[0], ast.Name):
                m.const_nodes[node.targets[0].id] = node.value
            elif isinstance(node, ast.AnnAssign) and isinstance(node.target, ast.Name) and node.value is not None:
                m.const_nodes[node.target.id] = node.value

    def _mk_func(self, m, node, cls=None, parent=None):
        f = Func(m, node, cls=cls, parent=parent)
        f.decos = [deco_name(m, d) for d in node.decorator_list]
        if f.is_setter:
            f.qual = f.qual + ".setter"  # distinguish the setter from the getter
        self.funcs[f.qual] = f
        for n in walk_shallow_defs(node):
            g = self._mk_func(m, n, cls=None, parent=f)
            f.nested[n.name] = g
        return f

    # ------------------------------------------------------------------
    def _wrapper_shape(self, D):
        """Recognise ``def D(fn): def W(s, *a): with s.M(): fn(s, *a)  return W``.

        -> name M of the context-manager method, or None."""
        if len(D.params) != 1 or len(D.nested) != 1:
            return None
        fn = D.params[0]
        W = next(iter(D.nested.values()))
        if len(W.params) != 1 or W.vararg is None or W.kwonly or W.kwarg:
            return None
        s, a = W.params[0], W.vararg
        body = [n for n in W.node.body if not (isinstance(n, ast.Expr) and isinstance(n.value, ast.Constant))]
        if len(body) != 1 or not isinstance(body[0], ast.With) or len(body[0].items) != 1:
            return None
        item = body[0].items[0]
        ce = item.context_expr
        if not (isinstance(ce, ast.Call) and not ce.args and not ce.keywords and isinstance(ce.func, ast.Attribute)
                and isinstance(ce.func.value, ast.Name) and ce.func.value.id == s and item.optional_vars is None):
            return None
        inner = body[0].body
        if len(inner) != 1 or not isinstance(inner[0], ast.Expr) or not isinstance(inner[0].value, ast.Call):
            return None
        c = inner[0].value
        if not (isinstance(c.func, ast.Name) and c.func.id == fn and len(c.args) == 2 and not c.keywords
                and isinstance(c.args[0], ast.Name) and c.args[0].id == s
                and isinstance(c.args[1], ast.Starred) and isinstance(c.args[1].value, ast.Name)
                and c.args[1].value.id == a):
            return None
        # the decorator must return W (possibly through typing.cast)
        rets = [n for n in D.node.body if isinstance(n, ast.Return)]
        if len(rets) != 1:
            return None
        rv = rets[0].value
        if isinstance(rv, ast.Call) and ast.unparse(rv.func) == "cast" and len(rv.args) == 2:
            rv = rv.args[1]
        if not (isinstance(rv, ast.Name) and rv.id == W.name):
            return None
        return ce.func.attr

    def _apply_wrappers(self):
        """Inline package-defined wrapper decorators: a method decorated with
        ``prune_pending`` *is* ``with self._prune_on_success(): <body>``."""
        for f in list(self.funcs.values()):
            for d in f.decos:
                r = self.lookup(f.module, d) if "." not in d else None
                if not r or r[0] != "func":
                    continue
                D = r[1]
                M = self._wrapper_shape(D)
                if M is None:
                    raise Inconclusive(
                        "%s: decorator %s is defined in the package but is not a recognised "
                        "`with self.<cm>(): fn(self, *args)` wrapper" % (f.loc(), d))
                self.wrapper_decorators[D.qual] = M
                if f.self_name is None:
                    raise Inconclusive("%s: wrapper decorator on a non-method" % f.loc())
                orig = f.node
                call = ast.Call(func=ast.Attribute(value=ast.Name(id=f.self_name, ctx=ast.Load()), attr=M, ctx=ast.Load()),
                                args=[], keywords=[])
                w = ast.With(items=[ast.withitem(context_expr=call, optional_vars=None)], body=list(orig.body))
                for n in (call, call.func, call.func.value, w):
                    ast.copy_location(n, orig)
                    n.end_lineno = orig.lineno
                new = ast.FunctionDef(name=orig.name, args=orig.args, body=[w], decorator_list=orig.decorator_list,
                                      returns=orig.returns, type_comment=None, type_params=[])
                ast.copy_location(new, orig)
                f.node_orig = orig
                f.node = new
                f.wrapped_by = (D, M)
                f.wrapper_with = w
        # the wrapper decorators themselves (and their nested function) are templates
        for q in self.wrapper_decorators:
            D = self.funcs[q]
            D.is_template = True
            for g in D.nested.values():
                g.is_template = True

    # ------------------------------------------------------------------
    def lookup(self, module, name, _depth=0):
        """Resolve a bare name in a module's namespace.

        -> ('func', Func) | ('class', Class) | ('constnode', Module, expr)
           | ('ext', dotted) | ('module', modname) | None
        """
        if _depth > 8:
            return None
        if name in module.funcs:
            return ("func", module.funcs[name])
        if name in module.classes:
            return ("class", module.classes[name])
        if name in module.const_nodes:
            return ("constnode", module, module.const_nodes[name])
        imp = module.imports.get(name)
        if imp is None:
            return None
        if imp[0] == "ext":
            return ("ext", imp[1])
        _, src, sym = imp
        if sym is None:
            return ("module", src)
        # symbol may itself be a submodule
        if src + "." + sym in self.modules:
            return ("module", src + "." + sym)
        tm = self.modules.get(src)
        if tm is None:
            return None
        return self.lookup(tm, sym, _depth + 1)

    def const(self, module, name):
        """Folded value of a module-level constant (UNKNOWN if not foldable)."""
        key = (module.name, name)
        if key in self._const_cache:
            return self._const_cache[key]
        self._const_cache[key] = UNKNOWN  # cycle guard
        r = self.lookup(module, name)
        val = UNKNOWN
        if r and r[0] == "constnode":
            val = self.fold(r[1], r[2], hint="%s.%s" % (r[1].name, name))
        self._const_cache[key] = val
        return val

    def fold(self, module, expr, hint="?"):
        """Constant folder for the forms constants.py and friends use."""
        try:
            return self._fold(module, expr, hint)
        except _NoFold:
            return UNKNOWN

    def _fold(self, module, e, hint):
        if isinstance(e, ast.Constant):
            return e.value
        if isinstance(e, ast.Name):
            if e.id in ("True", "False", "None"):
                return {"True": True, "False": False, "None": None}[e.id]
            v = self.const(module, e.id)
            if v is UNKNOWN:
                raise _NoFold()
            return v
        if isinstance(e, ast.Tuple):
            return tuple(self._fold(module, x, hint) for x in e.elts)
        if isinstance(e, ast.List):
            return [self._fold(module, x, hint) for x in e.elts]
        if isinstance(e, ast.Set):
            return frozenset(self._fold(module, x, hint) for x in e.elts)
        if isinstance(e, ast.UnaryOp) and isinstance(e.op, ast.USub):
            return -self._fold(module, e.operand, hint)
        if isinstance(e, ast.BinOp):
            l = self._fold(module, e.left, hint)
            r = self._fold(module, e.right, hint)
            try:
                if isinstance(e.op, ast.Add):
                    return l + r
                if isinstance(e.op, ast.Sub):
                    return l - r
                if isinstance(e.op, ast.Mult):
                    if isinstance(l, int) and isinstance(r, int) or (
                        isinstance(l, (int, list, tuple, bytes)) and isinstance(r, (int, list, tuple, bytes))
                    ):
                        res = l * r
                        if hasattr(res, "__len__") and len(res) > 4096:
                            raise _NoFold()
                        return res
                if isinstance(e.op, ast.Pow) and isinstance(l, int) and isinstance(r, int) and 0 <= r < 64:
                    return l ** r
                if isinstance(e.op, ast.LShift) and isinstance(r, int) and 0 <= r < 512:
                    return l << r
            except TypeError:
                raise _NoFold()
            raise _NoFold()
        if isinstance(e, (ast.GeneratorExp, ast.ListComp)) and len(e.generators) == 1 and not e.generators[0].ifs \
                and isinstance(e.generators[0].target, ast.Name) and not e.generators[0].is_async:
            it = self._fold(module, e.generators[0].iter, hint)
            if not isinstance(it, (tuple, list)) or len(it) > 4096:
                raise _NoFold()
            var = e.generators[0].target.id
            out = []
            for x in it:
                if not isinstance(x, (int, bytes, str)):
                    raise _NoFold()
                sub = _SubstName(var, x).visit(copy.deepcopy(e.elt))
                out.append(self._fold(module, sub, hint))
            return tuple(out) if isinstance(e, ast.GeneratorExp) else out
        if isinstance(e, ast.Call):
            fn = ast.unparse(e.func)
            if fn == "bytes" and len(e.args) == 1 and not e.keywords:
                a = self._fold(module, e.args[0], hint)
                if isinstance(a, (list, tuple)) and all(isinstance(x, int) and 0 <= x < 256 for x in a):
                    return bytes(a)
                if isinstance(a, int) and 0 <= a < 4096:
                    return bytes(a)
                raise _NoFold()
            if fn == "object" and not e.args:
                return Sentinel(hint)
            if fn in ("set", "frozenset") and len(e.args) == 1:
                a = self._fold(module, e.args[0], hint)
                return frozenset(a)
            if fn == "tuple" and len(e.args) == 1:
                return tuple(self._fold(module, e.args[0], hint))
            if fn in ("reversed", "list") and len(e.args) == 1 and not e.keywords:
                a = self._fold(module, e.args[0], hint)
                if isinstance(a, (tuple, list)):
                    return tuple(reversed(a)) if fn == "reversed" else list(a)
                raise _NoFold()
            if fn == "range" and 1 <= len(e.args) <= 3:
                args = [self._fold(module, a, hint) for a in e.args]
                if all(isinstance(a, int) for a in args) and abs(args[-1]) <= 4096:
                    return tuple(range(*args))
            raise _NoFold()
        raise _NoFold()

    # ------------------------------------------------------------------
    def func(self, qual):
        f = self.funcs.get(qual)
        if f is None:
            raise AnalysisError("anchor vanished: function %s not found" % qual)
        return f

    def maybe_func(self, qual):
        return self.funcs.get(qual)

    def cls(self, qual):
        c = self.classes.get(qual)
        if c is None:
            raise AnalysisError("anchor vanished: class %s not found" % qual)
        return c

    def method(self, cls, name):
        """Method lookup (no inheritance among analysed classes)."""
        return cls.methods.get(name)


class _SubstName(ast.NodeTransformer):
    """replace loads of one comprehension variable by a constant (constant folder only)"""

    def __init__(self, var, value):
        self.var, self.value = var, value

    def visit_Name(self, n):
        if n.id == self.var:
            return ast.copy_location(ast.Constant(value=self.value), n)
        return n


class _NoFold(Exception):
    pass


def walk_shallow_defs(fnode):
    """Nested FunctionDefs directly inside a function (not inside further defs)."""
    stack = list(fnode.body)
    while stack:
        n = stack.pop()
        if isinstance(n, (ast.FunctionDef, ast.AsyncFunctionDef)):
            yield n
            continue
        if isinstance(n, (ast.Lambda, ast.ClassDef)):
            continue
        for c in ast.iter_child_nodes(n):
            stack.append(c)
