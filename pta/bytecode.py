"""Thorough tier: cross-extraction of store / delete sites from bytecode.

The sources are compiled (never executed); for every function the number of
STORE_SUBSCR / DELETE_SUBSCR / STORE_ATTR / DELETE_ATTR instructions must equal
the number of such sites the AST-based effect extractor knows about.  A difference
is an analyser blind spot (ANALYSIS-ERROR), not a verdict about py-trie."""
import ast
import dis
import types

from .model import walk_shallow

OPS = {"STORE_SUBSCR": "subscr-store", "DELETE_SUBSCR": "subscr-del", "STORE_ATTR": "attr-store", "DELETE_ATTR": "attr-del"}


def _ast_counts(fnode):
    c = set()

    def tgt(t):
        if isinstance(t, ast.Subscript):
            c.add(("subscr-store", t.lineno))
        elif isinstance(t, ast.Attribute):
            c.add(("attr-store", t.lineno))
        elif isinstance(t, (ast.Tuple, ast.List)):
            for x in t.elts:
                tgt(x)
        elif isinstance(t, ast.Starred):
            tgt(t.value)
    for n in walk_shallow(fnode):
        if isinstance(n, ast.Assign):
            for t in n.targets:
                tgt(t)
        elif isinstance(n, (ast.AnnAssign, ast.AugAssign)):
            if not (isinstance(n, ast.AnnAssign) and n.value is None):
                tgt(n.target)
        elif isinstance(n, (ast.For, ast.comprehension)):
            tgt(n.target)
        elif isinstance(n, ast.With):
            for it in n.items:
                if it.optional_vars is not None:
                    tgt(it.optional_vars)
        elif isinstance(n, ast.NamedExpr):
            tgt(n.target)
        elif isinstance(n, ast.Delete):
            for t in n.targets:
                if isinstance(t, ast.Subscript):
                    c.add(("subscr-del", t.lineno))
                elif isinstance(t, ast.Attribute):
                    c.add(("attr-del", t.lineno))
    return c


def _code_counts(code, top=True):
    # (kind, source line) pairs: the compiler duplicates small blocks (finally bodies,
    # shared exits), so sites are compared as a set, not counted
    c = set()
    for ins in dis.get_instructions(code):
        k = OPS.get(ins.opname)
        if k:
            c.add((k, ins.positions.lineno if ins.positions else None))
    for const in code.co_consts:
        if isinstance(const, types.CodeType) and const.co_name in ("<listcomp>", "<setcomp>", "<dictcomp>", "<genexpr>", "<lambda>"):
            c |= _code_counts(const, False)
    return c


def _find_code(code, name, lineno):
    for const in code.co_consts:
        if isinstance(const, types.CodeType):
            if const.co_name == name and const.co_firstlineno == lineno:
                return const
            r = _find_code(const, name, lineno)
            if r is not None:
                return r
    return None


def cross_check(ctx):
    """-> (functions compared, list of mismatch descriptions)"""
    n = 0
    bad = []
    for m in ctx.P.modules.values():
        try:
            mod_code = compile(m.src, m.rel, "exec", dont_inherit=True)
        except SyntaxError as e:
            bad.append("%s: cannot compile: %s" % (m.rel, e))
            continue
        for f in ctx.P.funcs.values():
            if f.module is not m or f.is_template:
                continue
            node = f.node_orig
            first = node.decorator_list[0].lineno if node.decorator_list else node.lineno
            code = _find_code(mod_code, node.name, first)
            if code is None:
                bad.append("%s: no code object for %s" % (m.rel, f.qual))
                continue
            n += 1
            a = _ast_counts(node)
            b = _code_counts(code)
            if a != b:
                bad.append("%s: store/delete sites differ: AST-only %s, bytecode-only %s" % (f.qual, sorted(a - b), sorted(b - a)))
    return n, bad
