"""Self-validation of the checker, both directions, from the *current* tree.

Variants are in-memory edits of the current sources (nothing is written to
disk): must-fire variants break exactly one instance of a rule and must be
reported by the right property with the right rule; must-stay-silent variants
are behaviour-preserving edits on which every affected property must exit 0.
A failure here means the checker is broken (exit 2), never a verdict on py-trie.
"""
import multiprocessing
import sys
import time

from .model import load_sources


def _apply(sources, v):
    src = dict(sources)
    edits = v.get("edits") or [(v["file"], v["old"], v["new"])]
    for file, old, new in edits:
        if file not in src:
            return None, "file %s missing" % file
        cnt = src[file].count(old)
        if cnt != 1:
            return None, "anchor text occurs %d times in %s" % (cnt, file)
        src[file] = src[file].replace(old, new, 1)
    return src, None


def _run_one(args):
    v, sources = args
    from . import core
    src, err = _apply(sources, v)
    if src is None:
        return (v["id"], "skipped", err)
    props = v["props"] if "props" in v else [v["prop"]]
    results = []
    for pid in props:
        try:
            code, ctx = core.run_property(pid, "quick", sources=src, write=False, quiet=True)
        except Exception as e:  # pragma: no cover
            return (v["id"], "error", "exception %r" % e)
        viol = [(o.rule, o.construct) for o in (ctx.obs if ctx else []) if o.verdict == "violation"]
        other = [(o.rule, o.verdict, o.reason[:100]) for o in (ctx.obs if ctx else []) if o.verdict in ("error", "inconclusive")]
        results.append((pid, code, viol, other))
    exp = v["expect"]
    if exp == "fire":
        pid, code, viol, other = results[0]
        rules = {r for r, _ in viol}
        want = v.get("rule")
        if code == 1 and (want is None or want in rules):
            return (v["id"], "ok", "%s fired %s" % (pid, sorted(rules)))
        return (v["id"], "FAIL", "expected %s to fire %s; exit=%d violations=%s other=%s" % (pid, want, code, viol, other[:3]))
    if exp == "silent":
        badp = [(pid, code, viol, other) for pid, code, viol, other in results if code != 0]
        if not badp:
            return (v["id"], "ok", "silent on %s" % ",".join(props))
        return (v["id"], "FAIL", "expected silence; %s" % [(p, c, vv, o[:2]) for p, c, vv, o in badp])
    if exp == "inconclusive":
        pid, code, viol, other = results[0]
        if code == 2:
            return (v["id"], "ok", "inconclusive as expected")
        return (v["id"], "FAIL", "expected exit 2, got %d %s" % (code, viol))
    return (v["id"], "error", "bad expect")


def run(variants, jobs=16, verbose=True):
    sources = load_sources()
    t0 = time.time()
    work = [(v, sources) for v in variants]
    if jobs > 1 and len(work) > 1:
        with multiprocessing.Pool(min(jobs, len(work))) as pool:
            res = pool.map(_run_one, work, chunksize=1)
    else:
        res = [_run_one(w) for w in work]
    n_ok = sum(1 for r in res if r[1] == "ok")
    n_skip = sum(1 for r in res if r[1] == "skipped")
    fails = [r for r in res if r[1] in ("FAIL", "error")]
    if verbose:
        for r in res:
            if r[1] != "ok":
                print("selftest %-8s %s: %s" % (r[1], r[0], r[2]))
        print("selftest: %d variants, %d ok, %d skipped (anchor gone), %d failed, %.1fs" % (len(res), n_ok, n_skip, len(fails), time.time() - t0))
    return res, fails


def variants_for(props=None):
    from .variants import VARIANTS
    out = []
    for v in VARIANTS:
        ps = v["props"] if "props" in v else [v["prop"]]
        if not props or any(p in props for p in ps):
            out.append(v)
    return out


def thorough_variants(pid):
    vs = variants_for([pid])
    # every behaviour-preserving variant, whatever property it was written for, must leave this check silent
    from .variants import VARIANTS
    have = {v["id"] for v in vs}
    for v in VARIANTS:
        if v["expect"] == "silent" and v["id"] not in have and not v.get("only"):
            w = dict(v)
            w["props"] = [pid]
            w["id"] = v["id"] + "@" + pid
            vs.append(w)
    return vs


def run_for_property(pid, jobs=16):
    vs = thorough_variants(pid)
    if not vs:
        print("selftest: no variants for %s" % pid)
        return 0
    res, fails = run(vs, jobs)
    if fails:
        print("ANALYSIS-ERROR property=%s checker self-validation failed on %d variant(s)" % (pid, len(fails)))
        return 2
    return 0


def main(props, jobs):
    vs = variants_for(props)
    res, fails = run(vs, jobs)
    return 2 if fails else 0
