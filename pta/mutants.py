"""Single-token mutants of the analysed package (in memory): operator swaps, and/or, dropped `not`, negated `if`,
integer constants +-1, True/False, b''/b'\\x00', swapped adjacent call arguments, flipped slice bounds, deleted call
statements, break/continue.  tools/mutant_survey.py uses this for the triage of blind spots; the thorough tier of
a property check records, as information, how many mutants of the property's anchor files the check reports."""
import ast
import copy
import multiprocessing

from .model import load_sources
from .refactor import splice

CMP = {ast.Lt: [ast.LtE, ast.Gt], ast.LtE: [ast.Lt, ast.GtE], ast.Gt: [ast.GtE, ast.Lt], ast.GtE: [ast.Gt, ast.LtE], ast.Eq: [ast.NotEq], ast.NotEq: [ast.Eq],
       ast.In: [ast.NotIn], ast.NotIn: [ast.In], ast.Is: [ast.IsNot], ast.IsNot: [ast.Is]}
BIN = {ast.Add: [ast.Sub], ast.Sub: [ast.Add], ast.LShift: [ast.RShift], ast.RShift: [ast.LShift], ast.BitAnd: [ast.BitOr], ast.BitOr: [ast.BitAnd],
       ast.FloorDiv: [ast.Mod], ast.Mod: [ast.FloorDiv], ast.Mult: [ast.Add]}


def sites(fn):
    """yield (description, mutate(node_copy_root) -> None) closures addressed by node index in ast.walk order"""
    nodes = list(ast.walk(fn))
    for i, n in enumerate(nodes):
        if isinstance(n, ast.Compare):
            for j, op in enumerate(n.ops):
                for alt in CMP.get(type(op), []):
                    yield ("cmp %s->%s @%d" % (type(op).__name__, alt.__name__, n.lineno), i, ("cmp", j, alt))
        elif isinstance(n, ast.BinOp):
            if isinstance(n.op, ast.Mod) and isinstance(n.left, ast.Constant) and isinstance(n.left.value, str):
                continue  # string formatting
            for alt in BIN.get(type(n.op), []):
                yield ("bin %s->%s @%d" % (type(n.op).__name__, alt.__name__, n.lineno), i, ("bin", alt))
        elif isinstance(n, ast.BoolOp):
            alt = ast.Or if isinstance(n.op, ast.And) else ast.And
            yield ("bool %s->%s @%d" % (type(n.op).__name__, alt.__name__, n.lineno), i, ("bool", alt))
        elif isinstance(n, ast.UnaryOp) and isinstance(n.op, ast.Not):
            yield ("drop not @%d" % n.lineno, i, ("dropnot",))
        elif isinstance(n, ast.Constant) and not isinstance(n.value, str):
            v = n.value
            if isinstance(v, bool):
                yield ("const %r->%r @%d" % (v, not v, n.lineno), i, ("const", not v))
            elif isinstance(v, int):
                for w in (v + 1, v - 1):
                    yield ("const %r->%r @%d" % (v, w, n.lineno), i, ("const", w))
            elif isinstance(v, bytes):
                w = b"\x00" if v == b"" else b""
                yield ("const %r->%r @%d" % (v, w, n.lineno), i, ("const", w))
            elif v is None:
                pass
        elif isinstance(n, ast.If) and not (isinstance(n.test, ast.UnaryOp) and isinstance(n.test.op, ast.Not)):
            yield ("negate if @%d" % n.lineno, i, ("negif",))
        elif isinstance(n, ast.Call) and len(n.args) >= 2 and not any(isinstance(a, ast.Starred) for a in n.args):
            for j in range(len(n.args) - 1):
                if ast.dump(n.args[j]) != ast.dump(n.args[j + 1]):
                    yield ("swap args %d,%d of %s @%d" % (j, j + 1, ast.unparse(n.func)[:30], n.lineno), i, ("swapargs", j))
        elif isinstance(n, ast.Subscript) and isinstance(n.slice, ast.Slice) and n.slice.step is None:
            if (n.slice.lower is None) != (n.slice.upper is None):
                yield ("slice flip @%d" % n.lineno, i, ("sliceflip",))
        elif isinstance(n, ast.Expr) and isinstance(n.value, ast.Call):
            yield ("delete stmt `%s` @%d" % (ast.unparse(n)[:40], n.lineno), i, ("delstmt",))
        elif isinstance(n, ast.Return) and n.value is not None and not isinstance(n.value, ast.Constant):
            pass
        elif isinstance(n, (ast.Break, ast.Continue)):
            yield ("%s->%s @%d" % (type(n).__name__, "Continue" if isinstance(n, ast.Break) else "Break", n.lineno), i, ("brk",))
        if isinstance(n, ast.Name) and isinstance(n.ctx, ast.Load):
            pass


def apply(fn, idx, m):
    new = copy.deepcopy(fn)
    nodes = list(ast.walk(new))
    n = nodes[idx]
    k = m[0]
    if k == "cmp":
        n.ops[m[1]] = m[2]()
    elif k == "bin":
        n.op = m[1]()
    elif k == "bool":
        n.op = m[1]()
    elif k == "dropnot":
        _replace(new, n, n.operand)
    elif k == "const":
        n.value = m[1]
    elif k == "negif":
        n.test = ast.UnaryOp(op=ast.Not(), operand=n.test)
    elif k == "swapargs":
        j = m[1]
        n.args[j], n.args[j + 1] = n.args[j + 1], n.args[j]
    elif k == "sliceflip":
        n.slice.lower, n.slice.upper = n.slice.upper, n.slice.lower
    elif k == "delstmt":
        _replace(new, n, ast.Pass())
    elif k == "brk":
        _replace(new, n, ast.Continue() if isinstance(n, ast.Break) else ast.Break())
    return new


def _replace(root, old, new):
    for p in ast.walk(root):
        for fld, val in ast.iter_fields(p):
            if val is old:
                setattr(p, fld, new)
                return
            if isinstance(val, list):
                for i, x in enumerate(val):
                    if x is old:
                        val[i] = new
                        return




def mutants_of(src):
    """yield (function label, description, mutated source) for every mutant of every outermost function"""
    tree = ast.parse(src)
    inner = set()
    for n in ast.walk(tree):
        if isinstance(n, ast.FunctionDef):
            for m in ast.walk(n):
                if isinstance(m, ast.FunctionDef) and m is not n:
                    inner.add(m)
    for n in ast.walk(tree):
        if isinstance(n, ast.FunctionDef) and n not in inner:
            for desc, idx, m in sites(n):
                try:
                    new = apply(n, idx, m)
                    newsrc = splice(src, n, new)
                    ast.parse(newsrc)
                except Exception:
                    continue
                yield "%s@%d" % (n.name, n.lineno), desc, newsrc


_BASE = None


def _job(args):
    pid, rel, newsrc = args
    from . import core
    s = dict(_BASE)
    s[rel] = newsrc
    try:
        code, ctx = core.run_property(pid, "quick", sources=s, write=False, quiet=True)
    except Exception:
        return 2
    return code


def score_property(pid, files, jobs=16):
    """-> (mutants, reported as violation, exit 2 only, silent) for the mutants of `files` under the check of pid"""
    global _BASE
    _BASE = load_sources()
    work = []
    for rel in sorted(files):
        if rel in _BASE:
            for fn, desc, newsrc in mutants_of(_BASE[rel]):
                work.append((pid, rel, newsrc))
    if not work:
        return 0, 0, 0, 0
    with multiprocessing.Pool(min(jobs, len(work))) as pool:
        res = pool.map(_job, work, chunksize=4)
    return len(res), sum(1 for c in res if c == 1), sum(1 for c in res if c == 2), sum(1 for c in res if c == 0)
