"""Repository-specific tables (the 'slots' of the rule templates).

Everything here names *roles*; every run re-derives the instances from the
current source and fails closed (ANALYSIS-ERROR) when a named anchor is gone.
"""

# (class qual, attribute) -> (state kind, container type)
STATE = {
    ("trie.hexary:HexaryTrie", "db"): ("DB", "mapping"),
    ("trie.hexary:HexaryTrie", "root_hash"): ("ROOT", "bytes"),
    ("trie.hexary:HexaryTrie", "is_pruning"): ("CFG", "bool"),
    ("trie.hexary:HexaryTrie", "_ref_count"): ("RC", "dict"),
    ("trie.hexary:HexaryTrie", "_pending_prune_keys"): ("PEND", "dict"),
    ("trie.binary:BinaryTrie", "db"): ("DB", "mapping"),
    ("trie.binary:BinaryTrie", "root_hash"): ("ROOT", "bytes"),
    ("trie.smt:SparseMerkleTree", "db"): ("DB", "mapping"),
    ("trie.smt:SparseMerkleTree", "root_hash"): ("ROOT", "bytes"),
    ("trie.smt:SparseMerkleTree", "_default"): ("CFG", None),
    ("trie.smt:SparseMerkleTree", "_key_size"): ("CFG", "int"),
    ("trie.smt:SparseMerkleTree", "depth"): ("CFG", "int"),
    ("trie.smt:SparseMerkleProof", "_branch"): ("PRF", "list"),
    ("trie.smt:SparseMerkleProof", "_value"): ("PRF", None),
    ("trie.smt:SparseMerkleProof", "_key"): ("CFG", None),
    ("trie.smt:SparseMerkleProof", "_key_size"): ("CFG", "int"),
    ("trie.smt:SparseMerkleProof", "_branch_size"): ("CFG", "int"),
    ("trie.utils.db:ScratchDB", "wrapped_db"): ("WDB", "mapping"),
    ("trie.utils.db:ScratchDB", "cache"): ("CACHE", "dict"),
    ("trie.fog:HexaryTrieFog", "_unexplored_prefixes"): ("FOG", "sortedset"),
    ("trie.fog:TrieFrontierCache", "_cache"): ("FCACHE", "dict"),
}

# state kinds whose container is a key/value store we track reads/writes on
STORE_KINDS = {"DB", "WDB", "CACHE", "RC", "PEND", "FCACHE"}

TRANSPARENT_DECOS = {
    "eth_utils.to_tuple", "eth_utils.to_list", "eth_utils.to_dict", "eth_utils.apply_to_return_value",
    "functools.lru_cache", "functools.wraps", "staticmethod", "classmethod", "property",
    "contextlib.contextmanager",
}

BUILTIN_NAMES = {
    "len", "tuple", "list", "dict", "set", "frozenset", "bytes", "str", "int", "bool", "isinstance", "type",
    "iter", "next", "any", "all", "enumerate", "zip", "range", "reversed", "sorted", "min", "max", "sum",
    "map", "filter", "repr", "hex", "super", "object", "Exception", "ValueError", "TypeError", "KeyError",
    "IndexError", "NotImplementedError", "StopIteration", "print", "bytearray", "abs", "id", "hash",
    "getattr", "hasattr", "divmod", "ord", "chr", "format", "callable", "slice", "memoryview", "round",
    "AssertionError", "RuntimeError", "LookupError", "ArithmeticError", "OverflowError",
}

# External callees: name -> (effect, raises) ; effect 'pure' or 'recv' (mutates
# its receiver only).  One line of justification each.
EXT = {
    # builtins: pure functions of their arguments
    **{n: ("pure", ()) for n in (
        "len", "tuple", "list", "dict", "set", "frozenset", "bytes", "str", "int", "bool", "isinstance",
        "type", "iter", "any", "all", "enumerate", "zip", "range", "reversed", "sorted", "min", "max",
        "sum", "map", "filter", "repr", "hex", "object", "bytearray", "abs", "id", "hash", "divmod", "ord",
        "chr", "format", "callable", "slice", "round", "getattr", "hasattr", "print", "memoryview",
    )},
    "next": ("pure", ("StopIteration",)),  # advances an iterator; generators here are local
    # exception constructors
    **{n: ("pure", ()) for n in (
        "Exception", "ValueError", "TypeError", "KeyError", "IndexError", "NotImplementedError",
        "StopIteration", "AssertionError", "RuntimeError", "LookupError",
    )},
    # diagnostics
    **{n: ("pure", ()) for n in (
        "logging.getLogger", "logging.debug", "logging.info", "logging.warning", "logging.error", "logging.exception",
        "logging.critical", "logging.log", "warnings.warn", "time.time", "time.monotonic", "time.perf_counter",
    )},
    "object.__new__": ("pure", ()),  # a bare instance: no constructor body runs (VAL3 reports the bypass)
    # idiom vocabulary: tabled so that calls resolve (no effects on the arguments beyond iterating them); the rule
    # tables do not interpret them - core demotes table verdicts inside functions that use them (known_funcs.KNOWN_EXT)
    "itertools.islice": ("pure", ()), "itertools.repeat": ("pure", ()), "itertools.chain.from_iterable": ("pure", ()),
    "itertools.takewhile": ("pure", ()), "itertools.dropwhile": ("pure", ()), "itertools.accumulate": ("pure", ()),
    "itertools.groupby": ("pure", ()), "itertools.starmap": ("pure", ()), "itertools.product": ("pure", ()),
    "operator.itemgetter": ("pure", ()), "operator.attrgetter": ("pure", ()), "operator.mul": ("pure", ()), "operator.add": ("pure", ()),
    "operator.eq": ("pure", ()), "operator.ne": ("pure", ()), "operator.and_": ("pure", ()), "operator.or_": ("pure", ()), "operator.xor": ("pure", ()),
    "operator.lshift": ("pure", ()), "operator.rshift": ("pure", ()), "operator.sub": ("pure", ()), "operator.not_": ("pure", ()),
    "functools.reduce": ("pure", ()), "collections.deque": ("pure", ()), "collections.Counter": ("pure", ()), "collections.OrderedDict": ("pure", ()),
    "math.log2": ("pure", ("ValueError",)), "bisect.bisect_left": ("pure", ()), "bisect.bisect_right": ("pure", ()), "bisect.bisect": ("pure", ()),
    "copy.copy": ("pure", ()),  # a new object of the same class whose attributes are the *same* objects (effects.loc aliases them)
    "super": ("pure", ()),
    "super.__init__": ("pure", ()),  # Exception.__init__: stores args on the new object
    "super.__add__": ("pure", ()),  # tuple.__add__
    "super.__repr__": ("pure", ()),  # tuple.__repr__
    "super.__call__": ("pure", ()),
    "tuple.__new__": ("pure", ("ValueError",)),  # consumes the Nibble(..) generator: enum lookup may raise ValueError
    # eth-hash / eth-utils / rlp / hexbytes: pure conversions
    "eth_hash.auto.keccak": ("pure", ()),
    "eth_utils.keccak": ("pure", ()),
    "eth_utils.to_int": ("pure", ()),
    "eth_utils.is_list_like": ("pure", ()),
    "eth_utils.ValidationError": ("pure", ()),
    "eth_utils.toolz.merge": ("pure", ()),  # builds a new dict
    "eth_utils.toolz.valfilter": ("pure", ()),  # builds a new dict
    "eth_utils.toolz.partition": ("pure", ()),
    "eth_utils.toolz.partition_all": ("pure", ()),
    "rlp.codec.encode_raw": ("pure", ()),
    "rlp.decode": ("pure", ("rlp.DecodingError",)),
    "hexbytes.HexBytes": ("pure", ()),
    "typing.cast": ("pure", ()),
    "typing.TypeVar": ("pure", ()),
    # stdlib
    "collections.defaultdict": ("pure", ()),
    "itertools.chain": ("pure", ()),
    "itertools.zip_longest": ("pure", ()),
    "functools.wraps": ("pure", ()),
    "functools.lru_cache": ("pure", ()),
    "ast.literal_eval": ("pure", ("ValueError", "SyntaxError")),
    "sortedcontainers.SortedSet": ("pure", ()),
    "importlib.metadata.version": ("pure", ()),
    "enum.IntEnum": ("pure", ()),
}

# methods that never mutate their receiver (on any builtin type the package uses)
PURE_METHODS = {
    "startswith", "endswith", "decode", "encode", "ljust", "rjust", "index", "count", "hex", "join",
    "format", "items", "keys", "values", "get", "copy", "bisect", "bisect_left", "bisect_right",
    "text",  # IPython pretty-printer callback in Nibbles._repr_pretty_: writes to the printer, not to trie state
    "split", "strip", "lower", "upper", "replace", "to_bytes", "from_bytes", "bit_length", "union",
    "intersection", "difference", "issubset", "issuperset", "isdisjoint", "find", "rfind", "zfill",
    "__contains__", "__getitem__", "__len__", "__iter__", "most_common", "fromkeys", "irange", "islice",
    # logging.Logger methods (diagnostics: they read their arguments and touch no trie state)
    "debug", "info", "warning", "error", "exception", "critical", "log", "isEnabledFor", "getChild",
}

# methods that mutate their receiver
MUTATING_METHODS = {
    "append", "extend", "pop", "remove", "update", "add", "discard", "clear", "setdefault", "popitem",
    "insert", "sort", "reverse", "__setitem__", "__delitem__", "difference_update", "intersection_update",
    "symmetric_difference_update", "appendleft", "popleft",
}
# which of those delete entries
DELETING_METHODS = {"pop", "remove", "discard", "clear", "popitem", "__delitem__", "difference_update",
                    "intersection_update", "symmetric_difference_update", "popleft"}

# dynamic attribute access that would hide an effect from the analysis
FORBIDDEN_DYNAMIC = {"setattr", "delattr", "vars", "exec", "eval", "globals", "locals", "__import__"}


def is_decorator_param_call(f, pname):
    """A call of a parameter is accepted only inside a recognised wrapper
    decorator (model.decorators): `fn(...)` inside `prune_pending.wrapped`."""
    g = f.parent
    return g is not None and pname in g.all_params()


# Exception hierarchy of builtins the package catches or raises (child -> parent).
EXC_PARENT = {
    "KeyError": "LookupError",
    "IndexError": "LookupError",
    "LookupError": "Exception",
    "ValueError": "Exception",
    "TypeError": "Exception",
    "StopIteration": "Exception",
    "AssertionError": "Exception",
    "NotImplementedError": "RuntimeError",
    "RuntimeError": "Exception",
    "SyntaxError": "Exception",
    "rlp.DecodingError": "Exception",
    "Exception": "BaseException",
    "eth_utils.ValidationError": "Exception",
}

# parameters with these names are caller-supplied hash->bytes mappings
MAPPING_PARAM_NAMES = {"db", "wrapped_db"}
