"""Rule registry, obligations, verdicts, evidence, known findings."""
import json
import os
import time
import traceback

from .model import Program, AnalysisError, Inconclusive
from .resolve import Resolver
from .norm import normalize_calls, normalize_membership, normalize_ifexp, normalize_next_genexp, normalize_counting_while, unroll_display_loops, normalize_suppress, normalize_yield_from_genexp
from .excflow import ExcFlow
from .effects import Effects

VERIF = os.path.dirname(os.path.dirname(os.path.abspath(__file__)))
KNOWN = os.path.join(VERIF, "known_findings.json")

DISCHARGED = "discharged"
VIOLATION = "violation"
INCONCLUSIVE = "inconclusive"
INFO = "info"
ERROR = "error"


class Ob:
    __slots__ = ("rule", "construct", "loc", "verdict", "reason", "nontrivial", "witness")

    def __init__(self, rule, construct, loc, verdict, reason, nontrivial=False, witness=None):
        self.rule = rule
        self.construct = construct
        self.loc = loc
        self.verdict = verdict
        self.reason = reason
        self.nontrivial = nontrivial
        self.witness = witness

    def line(self):
        return "%s | %s | %s | %s | %s" % (self.rule, self.construct, self.loc, self.verdict, self.reason)

    def as_dict(self):
        d = {"rule": self.rule, "construct": self.construct, "loc": self.loc, "verdict": self.verdict,
             "reason": self.reason}
        if self.witness:
            d["witness"] = self.witness
        return d


class Ctx:
    """Everything a rule needs; built once per run from the current sources."""

    def __init__(self, sources=None, tier="quick"):
        self.P = Program(sources) if sources is not None else Program.from_repo()
        normalize_suppress(self.P)
        normalize_yield_from_genexp(self.P)
        self.R = Resolver(self.P)
        self.calls_normalised = normalize_calls(self.P, self.R)
        normalize_membership(self.P)
        normalize_ifexp(self.P)
        normalize_next_genexp(self.P)
        normalize_counting_while(self.P)
        unroll_display_loops(self.P)
        self._X = None
        self.E = Effects(self.P, self.R)
        self.tier = tier
        self.unroll = 2 if tier == "thorough" else 1  # loop unrolling of the path queries
        self.obs = []
        self.counts = {}
        self.cur_rule = None
        self.paths_enumerated = 0
        self.cache = {}

    @property
    def X(self):
        if self._X is None:
            self._X = ExcFlow(self.P, self.R).compute()
        return self._X

    @property
    def X0(self):
        """Exception flow under the 'complete database' assumption (db reads never raise)."""
        if "X0" not in self.cache:
            self.cache["X0"] = ExcFlow(self.P, self.R, complete_db=True).compute()
        return self.cache["X0"]

    # obligations ------------------------------------------------------
    def ob(self, construct, loc, verdict, reason, nontrivial=False, witness=None, rule=None):
        o = Ob(rule or self.cur_rule, construct, loc, verdict, reason, nontrivial, witness)
        self.obs.append(o)
        return o

    def ok(self, construct, loc, reason, nontrivial=True, rule=None):
        return self.ob(construct, loc, DISCHARGED, reason, nontrivial, rule=rule)

    def bad(self, construct, loc, reason, witness=None, rule=None):
        return self.ob(construct, loc, VIOLATION, reason, True, witness, rule=rule)

    def unsure(self, construct, loc, reason, rule=None):
        return self.ob(construct, loc, INCONCLUSIVE, reason, True, rule=rule)

    def info(self, construct, loc, reason, rule=None):
        return self.ob(construct, loc, INFO, reason, False, rule=rule)

    def expect_min(self, what, found, minimum, why):
        """Fail closed when a rule matches fewer instances than were confirmed by hand."""
        self.counts["%s:%s" % (self.cur_rule, what)] = {"found": found, "min": minimum}
        if found < minimum:
            self.ob("anchor:" + what, "-", ERROR,
                    "anchor vanished: %s: found %d, confirmed minimum %d (%s)" % (what, found, minimum, why))
            return False
        return True


RULES = {}  # rule id -> (fn, doc)
PROP_RULES = {}  # property id -> [(rule id, kwargs)]


def rule(rid, props):
    """Register rule function for properties. props: list of ids or {id: kwargs}."""

    def deco(fn):
        RULES[rid] = fn
        if isinstance(props, dict):
            for p, kw in props.items():
                PROP_RULES.setdefault(p, []).append((rid, kw))
        else:
            for p in props:
                PROP_RULES.setdefault(p, []).append((rid, {}))
        return fn

    return deco


_SCOPE = {}


def prop_scope(pid):
    """Files the property is anchored in (properties.jsonl) plus the shared helpers."""
    if not _SCOPE:
        try:
            with open(os.path.join(VERIF, "properties.jsonl")) as fh:
                for line in fh:
                    p = json.loads(line)
                    _SCOPE[p["id"]] = set(p["anchors"]["files"]) | {
                        "trie/validation.py", "trie/constants.py", "trie/exceptions.py", "trie/typing.py",
                        "trie/utils/nibbles.py", "trie/utils/nodes.py", "trie/utils/binaries.py", "trie/utils/db.py"}
        except OSError:
            return None
    return _SCOPE.get(pid)


def load_known():
    if not os.path.exists(KNOWN):
        return []
    with open(KNOWN) as fh:
        return json.load(fh).get("findings", [])


def _novel_functions(ctx):
    """[(rel, first line, last line, function name, what)] for functions whose vocabulary is outside the tables'"""
    import ast as _ast
    from .known_funcs import KNOWN_EXT
    key = "novel-functions"
    if key in ctx.cache:
        return ctx.cache[key]
    out_ = []
    for f in ctx.P.funcs.values():
        if f.module.is_tools or f.parent is not None:
            continue
        what = None
        marks = set()
        for n in _ast.walk(f.node):
            if isinstance(n, _ast.Call):
                try:
                    tgs = ctx.R.resolve_call(n, f, count=False)
                except Exception:
                    tgs = []
                for tg in tgs:
                    if tg.kind == "ext" and tg.name not in KNOWN_EXT:
                        what = what or "`%s`" % tg.name
                        marks.add(tg.name.split(".")[-1] + "(")
                        marks.add(tg.name)
                    elif tg.kind == "cmeth" and "m:" + tg.meth not in KNOWN_EXT:
                        what = what or "the method `.%s()`" % tg.meth
                        marks.add(tg.meth + "(")
            elif isinstance(n, (_ast.Tuple, _ast.List)) and isinstance(n.ctx, _ast.Store) and any(isinstance(x, _ast.Starred) for x in n.elts[:-1]):
                what = what or "star-unpacking in the middle of a target"  # (a trailing *rest is read as the tail slice)
                marks.add("?star")
            elif isinstance(n, _ast.Slice) and n.step is not None and not (n.lower is None and n.upper is None and isinstance(n.step, _ast.UnaryOp)):
                what = what or "a stepped slice"
                marks.add("?step-slice")
        if what:
            src = getattr(f, "node_orig", None) or f.node
            out_.append((f.module.rel, getattr(src, "lineno", 0), getattr(src, "end_lineno", 0) or 0, f.qual.split(":")[1], what, tuple(sorted(marks))))
    ctx.cache[key] = out_
    return out_


def _novel_at(nov, loc):
    parts = loc.split(":")
    if len(parts) < 2 or not parts[1].isdigit():
        return None
    rel, line = parts[0], int(parts[1])
    for r, a, b, name, what, marks in nov:
        if r == rel and a <= line <= b:
            return name, what, marks
    return None


def run_property(pid, tier="quick", sources=None, rules_only=None, write=True, quiet=False):
    """Run every rule of a property.  -> (exit code, ctx)"""
    from . import rules  # noqa: F401  (registers)
    t0 = time.time()
    lines = []

    def out(s):
        lines.append(s)
        if not quiet:
            print(s)

    try:
        ctx = Ctx(sources, tier)
    except AnalysisError as e:
        out("ANALYSIS-ERROR property=%s %s" % (pid, e))
        if write:
            write_evidence(pid, tier, None, [], t0, error=str(e))
        return 2, None
    ctx.out_lines = lines
    todo = PROP_RULES.get(pid, [])
    if not todo:
        out("ANALYSIS-ERROR property=%s no rules registered" % pid)
        return 2, ctx
    # fail closed on unresolved calls (once per run)
    try:
        probs = ctx.R.check_closed()
    except AnalysisError as e:
        probs = [str(e)]
    ctx.cur_rule = "RESOLVE"
    scope = prop_scope(pid)
    for p in probs:
        pf = p.split(":", 1)[0]
        if scope is None or pf in scope:
            ctx.ob("call-resolution", pf, ERROR, p)
        else:
            ctx.ob("call-resolution", pf, INFO, "outside this property's files: " + p)
    ctx.cur_rule = "MODEL"
    for rel, line, text in getattr(ctx.P, "hygiene", []):
        # what such a statement does to the classes and functions cannot be read off the definitions the rules
        # look at: no verdict for any property (a statement in a file outside the property's scope may still
        # patch a class inside it)
        ctx.ob("program-model", "%s:%d" % (rel, line), ERROR, text)
    for rid, kw in todo:
        if rules_only and rid not in rules_only:
            continue
        ctx.cur_rule = rid
        n0 = len(ctx.obs)
        try:
            RULES[rid](ctx, pid, **kw)
        except Inconclusive as e:
            ctx.ob("rule:" + rid, "-", INCONCLUSIVE, str(e))
        except AnalysisError as e:
            ctx.ob("rule:" + rid, "-", ERROR, str(e))
        except Exception as e:  # checker bug: never a verdict about py-trie
            tb = traceback.format_exc().strip().splitlines()
            ctx.ob("rule:" + rid, "-", ERROR, "internal error in rule: %r (%s)" % (e, tb[-3].strip() if len(tb) >= 3 else ""))
        if len(ctx.obs) == n0:
            ctx.ob("rule:" + rid, "-", ERROR, "rule produced no obligation (vacuous)")
    # thorough tier: engine cross-checks ----------------------------------------
    if tier == "thorough" and not rules_only:
        run_engine_checks(ctx, pid)
        if sources is None:
            run_selfvalidation(ctx, pid)
    # positive controls for zero-expected rules ---------------------------------
    if not rules_only:
        run_controls(ctx, pid, [rid for rid, _ in todo])
    # verdict ----------------------------------------------------------
    known = [k for k in load_known() if k.get("property") == pid]
    open_keys = {(k["rule"], k["construct"]) for k in known if k.get("status") == "open"}
    viol = [o for o in ctx.obs if o.verdict == VIOLATION]
    new_viol = [o for o in viol if (o.rule, o.construct) not in open_keys]
    known_hit = [o for o in viol if (o.rule, o.construct) in open_keys]
    errs = [o for o in ctx.obs if o.verdict == ERROR]
    incs = [o for o in ctx.obs if o.verdict == INCONCLUSIVE]
    for o in known_hit:
        out("KNOWN-FINDING: property=%s %s %s at %s: %s" % (pid, o.rule, o.construct, o.loc, o.reason))
    code = 0
    replay_paths = []
    anchor_lost = [o for o in errs if "anchor vanished: function" in o.reason and o.reason.rstrip().endswith("not found")]
    if new_viol and anchor_lost:
        # a function the rules are anchored in is gone (inlined away, turned into another kind of definition):
        # what other rules report about the *same file* on such a tree is not reliable enough to be called a
        # violation; reports about other files stand
        lost_files = set()
        for o in anchor_lost:
            mod = o.reason.split("function ", 1)[1].split(":", 1)[0]
            lost_files.add(mod.replace(".", "/") + ".py")
        demoted = [o for o in new_viol if str(o.loc).split(":")[0] in lost_files]
        for o in demoted:
            out("ANALYSIS-INCONCLUSIVE property=%s rule=%s %s at %s: suspected, but the analysis of this file is incomplete (%s): %s"
                % (pid, o.rule, o.construct, o.loc, anchor_lost[0].reason[:80], o.reason))
        new_viol = [o for o in new_viol if o not in demoted]
        if demoted and not new_viol:
            code = 2
    if new_viol:
        # vocabulary: a report located in a function that uses constructs the tables were never confirmed against
        # (an external callee / container method outside known_funcs.KNOWN_EXT, star-unpacking, stepped slices,
        # loop-else) is a suspicion, not a verdict
        nov = _novel_functions(ctx)
        demoted2 = []
        for o in new_viol:
            hit = _novel_at(nov, str(o.loc))
            # ... and only when the report itself is about such a construct: its text shows the uninterpreted callee
            # (`islice(..)`, `deque(..)`) or the marker of an uninterpreted value (`?star`, `?step-slice`)
            if hit is not None and isinstance(o.witness, dict) and o.witness.get("firm"):
                hit = None  # the rule objects to the construct itself (post-processing of the serialized bytes)
            if hit is not None and o.rule.rstrip("0123456789ab") in ("ORD", "EFF", "AL", "EXC", "IDENT", "MUTDEF", "VALMSG", "EXCORIGIN", "ARGX", "FWD",
                                                                     "DEFAULTS", "VAL", "EXCH", "EXCACC", "COPY", "RSRC", "LIVE") and o.rule != "EFF5":
                # rules on effects, ordering, exception outcomes, validation dominance and aliasing read events, not
                # the shape of values: their verdicts stand whatever the vocabulary (EFF5 compares index terms)
                hit = None
            if hit is not None:
                demoted2.append(o)
                out("ANALYSIS-INCONCLUSIVE property=%s rule=%s %s at %s: suspected, but %s uses %s, which the rule tables were not written for: %s"
                    % (pid, o.rule, o.construct, o.loc, hit[0], hit[1], o.reason))
        if demoted2:
            new_viol = [o for o in new_viol if o not in demoted2]
            if not new_viol:
                code = 2
    if new_viol:
        code = 1
        rdir = os.path.join(VERIF, "evidence", "replay", pid)
        if write:
            os.makedirs(rdir, exist_ok=True)
        for i, o in enumerate(new_viol):
            rp = os.path.join(rdir, "%d.json" % i)
            if write:
                with open(rp, "w") as fh:
                    json.dump({"property": pid, "tier": tier, **o.as_dict()}, fh, indent=1, default=str)
            replay_paths.append(rp)
            out("VIOLATION property=%s replay=%s" % (pid, rp))
            out("  rule=%s construct=%s at %s: %s" % (o.rule, o.construct, o.loc, o.reason))
    elif errs or incs:
        code = 2
    if code == 0 and anchor_lost:
        code = 2
    for o in errs:
        out("ANALYSIS-ERROR property=%s rule=%s %s: %s" % (pid, o.rule, o.construct, o.reason))
    for o in incs:
        out("ANALYSIS-INCONCLUSIVE property=%s rule=%s %s at %s: %s" % (pid, o.rule, o.construct, o.loc, o.reason))
    if write:
        write_evidence(pid, tier, ctx, new_viol, t0)
    if not quiet:
        nd = sum(1 for o in ctx.obs if o.verdict == DISCHARGED)
        print("property=%s tier=%s obligations=%d discharged=%d violations=%d known=%d inconclusive=%d errors=%d info=%d wall=%.2fs exit=%d"
              % (pid, tier, sum(1 for o in ctx.obs if o.verdict != INFO), nd, len(new_viol), len(known_hit),
                 len(incs), len(errs), sum(1 for o in ctx.obs if o.verdict == INFO), time.time() - t0, code))
    return code, ctx


def run_engine_checks(ctx, pid):
    """Thorough tier: (a) store/delete sites seen by the AST extractor == sites in the compiled
    bytecode; (b) who-may-write closed over the whole package including trie/tools."""
    from .bytecode import cross_check
    ctx.cur_rule = "ENGINE"
    try:
        n, bad = cross_check(ctx)
        if bad:
            for b in bad[:5]:
                ctx.ob("bytecode-cross-extraction", b.split(":")[0], ERROR, "analyser blind spot: " + b)
        else:
            ctx.ob("bytecode-cross-extraction", "trie/", DISCHARGED,
                   "store / delete sites of all %d functions agree between the AST extractor and the compiled bytecode" % n, True)
    except Exception as e:
        ctx.ob("bytecode-cross-extraction", "-", ERROR, "cross-extraction failed: %r" % (e,))
    try:
        from .controls import walkcheck
        n, probs = walkcheck.run()
        if probs:
            ctx.ob("walker-vs-cpython", "pta/controls/walkcheck.py", ERROR, "path walker misses a real execution of a synthetic control: " + probs[0][:300])
        else:
            ctx.ob("walker-vs-cpython", "pta/controls/walkcheck.py", DISCHARGED,
                   "every one of %d concrete executions of the synthetic control functions (all fault scenarios of their probe calls) is among the paths the walker enumerates (assumption A3)" % n, True)
    except Exception as e:
        ctx.ob("walker-vs-cpython", "-", ERROR, "engine self-test crashed: %r" % (e,))
    tools = [f for f in ctx.P.funcs.values() if f.module.is_tools]
    offenders = []
    for f in tools:
        for e in ctx.E.primitives(f):
            if e.state in ("DB", "WDB", "ROOT", "RC", "PEND", "CACHE") and e.op in ("W", "D", "SET", "M"):
                offenders.append("%s: %s %s at %s" % (f.qual, e.op, e.state, e.where()))
    if offenders:
        ctx.ob("tools-closure", "trie/tools", VIOLATION, "trie/tools touches trie state directly: " + offenders[0], True)
    else:
        ctx.ob("tools-closure", "trie/tools", DISCHARGED,
               "the %d functions of trie/tools modify trie state only through the public API (no primitive db / root / count effect)" % len(tools), True)


def run_selfvalidation(ctx, pid):
    """Thorough tier: the rules of this property on in-memory variants of the current tree
    (must-fire and must-stay-silent).  A failure means the checker is broken: exit 2."""
    from . import selftest
    ctx.cur_rule = "SELFTEST"
    vs = selftest.thorough_variants(pid)
    res, fails = selftest.run(vs, jobs=16, verbose=False)
    for vid, status, msg in res:
        if status == "ok":
            ctx.ob("variant:" + vid, "pta/variants.py", DISCHARGED, msg, True)
        elif status == "skipped":
            ctx.ob("variant:" + vid, "pta/variants.py", INFO, "skipped, anchor text no longer present: " + msg)
        else:
            ctx.ob("variant:" + vid, "pta/variants.py", ERROR, "checker self-validation failed: " + msg)
    # behaviour-preserving refactorings of every function in the property's scope must leave the check silent
    from . import refactor
    n_ref, alarms = refactor.sweep_property(pid)
    ctx.cur_rule = "REFACTOR"
    if alarms:
        for qual, mode, code, what in alarms[:10]:
            ctx.ob("refactoring:%s:%s" % (mode, qual), "pta/refactor.py", ERROR, "the check alarms (exit %d) on a behaviour-preserving `%s` of %s: %s" % (code, mode, qual, what))
    else:
        ctx.ob("refactorings", "pta/refactor.py", DISCHARGED, "%d behaviour-preserving variants (%s; one function at a time, every function in scope): the check stays silent on all" % (n_ref, ", ".join(sorted(refactor.MODES))), True)
    # the corpus of behaviour-preserving patches (benign/): this check must stay silent on each
    from . import seeds as _seeds
    bres, bfails = _seeds.run_benign([pid], jobs=16, verbose=False)
    ctx.cur_rule = "BENIGN"
    for bid, _pid, status, msg in bres:
        if status == "ok":
            ctx.ob("benign:" + bid, "benign/%s/patch.diff" % bid, DISCHARGED, "silent on this behaviour-preserving patch", True)
        elif status == "skipped":
            ctx.ob("benign:" + bid, "benign/%s/patch.diff" % bid, INFO, msg)
        else:
            ctx.ob("benign:" + bid, "benign/%s/patch.diff" % bid, ERROR, "the check alarms on a behaviour-preserving patch: " + msg)
    # detection power, as information: single-token mutants of the property's anchor files under this check
    from . import mutants
    try:
        with open(os.path.join(VERIF, "properties.jsonl")) as fh:
            anchors = [json.loads(l) for l in fh]
        files = next((p_["anchors"]["files"] for p_ in anchors if p_["id"] == pid), [])
    except OSError:
        files = []
    m_all, m_viol, m_inc, m_silent = mutants.score_property(pid, files)
    ctx.cache["mutation_score"] = {"files": sorted(files), "mutants": m_all, "reported_violation": m_viol, "reported_inconclusive": m_inc, "silent": m_silent,
                                   "note": "single-token mutants of the anchor files run against this property's check alone; silent ones are equivalent mutants, "
                                           "code outside this property, or blind spots (triage in seeded/MUTANTS.md); informational, never a verdict"}
    ctx.ob("mutation-score", "pta/mutants.py", INFO, "%d single-token mutants of %s: %d reported as violation, %d as inconclusive, %d silent" % (m_all, ", ".join(sorted(files)), m_viol, m_inc, m_silent))
    ctx.cur_rule = "SELFTEST"
    # the confirmed seeded changes written against this property must still be reported
    from . import seeds
    sres, sfails = seeds.run(pid, jobs=16, verbose=False)
    for sid, status, msg, fired in sres:
        if status == "ok":
            ctx.ob("seed:" + sid, "seeded/%s/patch.diff" % sid, DISCHARGED, "%s: %s" % (msg, "; ".join(fired)[:200]), True)
        elif status == "skipped":
            ctx.ob("seed:" + sid, "seeded/%s/patch.diff" % sid, INFO, msg)
        else:
            ctx.ob("seed:" + sid, "seeded/%s/patch.diff" % sid, ERROR, "a confirmed seeded change is no longer detected: " + msg)


def run_controls(ctx, pid, rule_ids):
    """A rule that expects zero findings on py-trie must fire on its synthetic control."""
    from .controls import CONTROLS
    for rid in rule_ids:
        ent = CONTROLS.get(rid)
        if ent is None or (ent[0] is not None and ent[0] != pid):
            continue
        _, sources, want = ent
        try:
            ctl = Ctx(sources, ctx.tier)
            ctl.cur_rule = rid
            kw = dict(next(k for r, k in PROP_RULES[pid] if r == rid))
            try:
                RULES[rid](ctl, pid, **kw)
            except AnalysisError:
                pass  # anchors of the real package are absent in the control: expected
            fired = any(o.verdict == VIOLATION and want in o.construct for o in ctl.obs)
        except Exception as e:  # control must never break the check silently
            fired = False
            want = "%s (control crashed: %r)" % (want, e)
        ctx.cur_rule = rid
        if fired:
            ctx.ob("control:" + rid, "pta/controls", DISCHARGED, "positive control fired: the rule reports `%s` on the synthetic violating package" % want, False)
        else:
            ctx.ob("control:" + rid, "pta/controls", ERROR, "positive control did NOT fire (`%s`): the rule may be blind" % want)


def write_evidence(pid, tier, ctx, new_viol, t0, error=None):
    from . import propdoc
    path = os.path.join(VERIF, "evidence", "%s.json" % pid)
    os.makedirs(os.path.dirname(path), exist_ok=True)
    seed = int(os.environ.get("VERIF_SEED", "0") or 0)
    if ctx is None:
        ev = {"property_id": pid, "tier": tier, "seed": seed, "level": "other",
              "coverage": {"explanation": "analysis could not start: %s" % error, "obligations": 0, "discharged": 0},
              "assumptions": [], "wall_s": round(time.time() - t0, 3), "violations": 0}
    else:
        obs = [o for o in ctx.obs if o.verdict != INFO]
        nd = sum(1 for o in obs if o.verdict == DISCHARGED)
        rules = {}
        for o in ctx.obs:
            r = rules.setdefault(o.rule, {"obligations": 0, "discharged": 0, "info": 0})
            if o.verdict == INFO:
                r["info"] += 1
            else:
                r["obligations"] += 1
                if o.verdict == DISCHARGED:
                    r["discharged"] += 1
        distinct_nt = len({(o.rule, o.construct) for o in obs if o.nontrivial})
        ev = {
            "property_id": pid,
            "tier": tier,
            "seed": seed,
            "level": "other",
            "coverage": {
                "explanation": propdoc.EXPLANATION.get(pid, "static obligations over the current source of /repo/trie"),
                "obligations": len(obs),
                "discharged": nd,
                "evaluations": len(obs),
                "distinct_nontrivial": distinct_nt,
                "rule": "obligations are enumerated by the rules listed in rule_instances from the current source "
                        "(every call site / store site / path that the rule template matches); an obligation is "
                        "non-trivial when its discharge needed a path, dataflow, alias or agreement argument rather "
                        "than a table lookup; distinct = distinct (rule, construct) keys",
                "samples": [o.line() for o in ctx.obs][:400],
                "exhaustive": True,
                "checker_cmd": "/venv/bin/python -m pta check %s --tier %s" % (pid, tier),
                "trusted_base": ["CPython 3.12 ast module", "pta engine (/verif/pta)", "assumptions A1-A4 of DESIGN.md section 9"],
                "modules": len(ctx.P.modules),
                "functions": len(ctx.P.funcs),
                "call_sites": ctx.R.stats["sites"],
                "resolved": {k: v for k, v in ctx.R.stats.items() if k != "sites"},
                "external_table_hits": len(ctx.R.ext_hits),
                "paths_enumerated": ctx.paths_enumerated,
                "rule_instances": rules,
                "frozen_minimums": ctx.counts,
                "source_digest": ctx.P.digest(),
                "repo": os.environ.get("VERIF_REPO", "/repo"),
                **({"mutation_score": ctx.cache["mutation_score"]} if "mutation_score" in ctx.cache else {}),
            },
            "assumptions": propdoc.ASSUMPTIONS,
            "wall_s": round(time.time() - t0, 3),
            "violations": len(new_viol),
        }
    tmp = path + ".tmp"
    with open(tmp, "w") as fh:
        json.dump(ev, fh, indent=1, default=str)
    os.replace(tmp, path)
