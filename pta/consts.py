"""New named constants are replaced by the literals they stand for (on the analyser's copy).

`HASH_LENGTH = 32 ... validate_length(x, HASH_LENGTH)`: a module-level name that did not exist when the rules
were written (known_funcs.KNOWN_CONSTS) and whose value folds to a plain literal (int, bytes, str, bool, None or
a tuple of those) is substituted at every use in the package, in function bodies and in other module-level
expressions.  The rules then see the magic number they were written against; if the literal is wrong, they say so."""
import ast

from .known_funcs import KNOWN_CONSTS
from .model import UNKNOWN


def _literal_ok(v, depth=0):
    if v is None or isinstance(v, (bool, int, bytes, str)):
        return True
    if isinstance(v, tuple) and depth < 2 and len(v) <= 32:
        return all(_literal_ok(x, depth + 1) for x in v)
    return False


def _to_node(v):
    if isinstance(v, tuple):
        return ast.Tuple(elts=[_to_node(x) for x in v], ctx=ast.Load())
    return ast.Constant(value=v)


def inline_new_constants(P):
    sites = 0
    cache = {}

    def value_of(m, name):
        key = (m.name, name)
        if key in cache:
            return cache[key]
        cache[key] = None
        r = P.lookup(m, name)
        if r and r[0] == "constnode":
            dm = r[1]
            dname = name
            # the defining name in the defining module (an import may rename it)
            for k_, e_ in dm.const_nodes.items():
                if e_ is r[2]:
                    dname = k_
            if (dm.name, dname) not in KNOWN_CONSTS and not dm.is_tools:
                v = P.fold(dm, r[2])
                if v is not UNKNOWN and _literal_ok(v) and not isinstance(v, bool):
                    cache[key] = (v,)
        return cache[key]

    class T(ast.NodeTransformer):
        def __init__(self, m, shadow):
            self.m, self.shadow = m, shadow

        def visit_Name(self, n):
            nonlocal sites
            if isinstance(n.ctx, ast.Load) and n.id not in self.shadow:
                v = value_of(self.m, n.id)
                if v is not None:
                    sites += 1
                    return ast.copy_location(_to_node(v[0]), n)
            return n

    for m in P.modules.values():
        if m.is_tools:
            continue
        for f in [f_ for f_ in P.funcs.values() if f_.module is m and f_.parent is None]:
            local = {x.id for x in ast.walk(f.node) if isinstance(x, ast.Name) and isinstance(x.ctx, (ast.Store, ast.Del))} | set(f.all_params())
            f.node = ast.fix_missing_locations(T(m, local).visit(f.node))
        for name in list(m.const_nodes):
            if (m.name, name) in KNOWN_CONSTS:
                m.const_nodes[name] = ast.fix_missing_locations(T(m, set()).visit(m.const_nodes[name]))
    P._const_cache.clear()
    return sites
