"""Seeded-change corpus as a regression for the checker (thorough tier, and `python -m pta seeds`).

Every confirmed seeded change under /verif/seeded/<id>/patch.diff is applied to a scratch copy of the
affected files (outside /repo and /verif, removed at once) to obtain the patched sources in memory; the
check of the seed's property is then run on those sources and must report a violation (or, for seeds
listed with expected "exit2" in meta.json, at least refuse to pass)."""
import glob
import json
import multiprocessing
import os
import re
import shutil
import subprocess
import tempfile

from .model import load_sources, repo_root

VERIF = os.path.dirname(os.path.dirname(os.path.abspath(__file__)))


def seed_ids(prop=None):
    out = []
    for d in sorted(glob.glob(os.path.join(VERIF, "seeded", "C*-*"))):
        sid = os.path.basename(d)
        if os.path.exists(os.path.join(d, "patch.diff")) and (prop is None or sid.split("-")[0] == prop):
            out.append(sid)
    return out


def patched_sources(sid, base=None):
    """-> ({rel: source}, error)"""
    base = dict(base) if base is not None else load_sources()
    patch = sid if os.path.isabs(sid) else os.path.join(VERIF, "seeded", sid, "patch.diff")
    files = set(re.findall(r"^\+\+\+ b/(\S+)", open(patch).read(), re.M))
    tmp = tempfile.mkdtemp(prefix="pta-seed-")
    try:
        for rel in files:
            dst = os.path.join(tmp, rel)
            os.makedirs(os.path.dirname(dst), exist_ok=True)
            if rel in base:
                with open(dst, "w") as fh:
                    fh.write(base[rel])
            elif os.path.exists(os.path.join(repo_root(), rel)):
                shutil.copy(os.path.join(repo_root(), rel), dst)  # a test file the patch also touches
        r = subprocess.run(["git", "apply", "--whitespace=nowarn", patch], cwd=tmp, capture_output=True, text=True)
        if r.returncode != 0:
            return None, "patch does not apply to the current tree: " + r.stderr.strip()[:200]
        for rel in files:
            if rel.startswith("trie/") and rel.endswith(".py"):
                with open(os.path.join(tmp, rel)) as fh:
                    base[rel] = fh.read()
        return base, None
    finally:
        shutil.rmtree(tmp, ignore_errors=True)


def _run(args):
    sid, base = args
    from . import core
    prop = sid.split("-")[0]
    src, err = patched_sources(sid, base)
    if src is None:
        return sid, "skipped", err, []
    code, ctx = core.run_property(prop, "quick", sources=src, write=False, quiet=True)
    fired = sorted({"%s %s" % (o.rule, o.construct) for o in (ctx.obs if ctx else []) if o.verdict == "violation"})
    meta = {}
    mp = os.path.join(VERIF, "seeded", sid, "meta.json")
    if os.path.exists(mp):
        meta = json.load(open(mp))
    want2 = isinstance(meta.get("detected_by_own_property"), str)
    if code == 1:
        return sid, "ok", "violation reported", fired
    if code == 2 and want2:
        return sid, "ok", "refused to pass (exit 2), as recorded", fired
    return sid, "FAIL", "exit %d, violations %s" % (code, fired), fired


def run(prop=None, jobs=16, verbose=True):
    ids = seed_ids(prop)
    base = load_sources()
    work = [(s, base) for s in ids]
    if not work:
        return [], []
    if jobs > 1 and len(work) > 1:
        with multiprocessing.Pool(min(jobs, len(work))) as pool:
            res = pool.map(_run, work, chunksize=1)
    else:
        res = [_run(w) for w in work]
    fails = [r for r in res if r[1] == "FAIL"]
    if verbose:
        for r in res:
            print("seed %-8s %-12s %s %s" % (r[1], r[0], r[2], "; ".join(r[3])[:160]))
        print("seeds: %d, detected %d, skipped %d, missed %d" % (len(res), sum(1 for r in res if r[1] == "ok"), sum(1 for r in res if r[1] == "skipped"), len(fails)))
    return res, fails


# ---------------------------------------------------------------------------
# behaviour-preserving patches (benign corpus): every claimed check must stay silent on each of them
def benign_ids():
    return sorted(os.path.basename(d) for d in glob.glob(os.path.join(VERIF, "benign", "*")) if os.path.exists(os.path.join(d, "patch.diff")))


def _expected_inconclusive():
    p = os.path.join(VERIF, "benign", "EXPECTED_INCONCLUSIVE.json")
    try:
        with open(p) as fh:
            return json.load(fh)
    except OSError:
        return {}


def _run_benign(args):
    bid, pid, base = args
    from . import core
    src, err = patched_sources(os.path.join(VERIF, "benign", bid, "patch.diff"), base)
    if src is None:
        return bid, pid, "skipped", err
    try:
        code, ctx = core.run_property(pid, "quick", sources=src, write=False, quiet=True)
    except Exception as e:  # pragma: no cover
        return bid, pid, "FAIL", "exception %r" % e
    if code == 0:
        return bid, pid, "ok", ""
    if code == 2 and pid in _expected_inconclusive().get(bid, {}).get("props", []):
        return bid, pid, "ok", "inconclusive, as recorded in benign/EXPECTED_INCONCLUSIVE.json"
    bad = ["%s %s (%s) %s" % (o.rule, o.construct, o.verdict, o.reason[:120]) for o in (ctx.obs if ctx else []) if o.verdict in ("violation", "inconclusive", "error")]
    return bid, pid, "FAIL", "exit %d: %s" % (code, "; ".join(bad[:2]))


def run_benign(props=None, jobs=16, verbose=True):
    from . import core
    from . import rules  # noqa: F401
    base = load_sources()
    pids = props or sorted(core.PROP_RULES)
    work = [(b, pid, base) for b in benign_ids() for pid in pids]
    if not work:
        return [], []
    with multiprocessing.Pool(min(jobs, len(work))) as pool:
        res = pool.map(_run_benign, work, chunksize=2)
    fails = [r for r in res if r[2] == "FAIL"]
    if verbose:
        for r in res:
            if r[2] != "ok":
                print("benign %-8s %-14s %s %s" % (r[2], r[0], r[1], r[3]))
        print("benign: %d patches x %d checks, %d failed, %d skipped" % (len(benign_ids()), len(pids), len(fails), sum(1 for r in res if r[2] == "skipped")))
    return res, fails
