"""`while True:` state machines back into the tail recursion they came from.

A function whose body is `while True: B` (possibly after `v = p` aliases of parameters), where the only names that
carry a value from one round to the next are parameters (or those aliases), B has no `break`, and nothing follows
the loop, is the tail-recursive function that ends every round with `return f(<the parameters' current values>)`.
The rules were written against the recursive spelling; this pass gives them that spelling back.  It runs on the
analyser's copy of the syntax tree."""
import ast
import copy


def _assigned(block):
    out = set()
    for s in block:
        for n in ast.walk(s):
            if isinstance(n, ast.Name) and isinstance(n.ctx, (ast.Store, ast.Del)):
                out.add(n.id)
            elif isinstance(n, ast.ExceptHandler) and n.name:
                out.add(n.name)
    return out


def _first_use_is_store(block, name):
    """in source order, is the first occurrence of `name` in the block a store?"""
    occ = []
    for s in block:
        for n in ast.walk(s):
            if isinstance(n, ast.Name) and n.id == name:
                # within one statement the value is evaluated before the targets are stored
                occ.append((n.lineno, 0 if isinstance(n.ctx, ast.Load) else 1, n.col_offset, isinstance(n.ctx, ast.Store)))
    if not occ:
        return True
    # order: by statement line; a load on the same line as a store comes first (x = x + 1)
    occ.sort()
    return occ[0][3]


def _has_loop_break(block):
    for s in block:
        if isinstance(s, ast.Break):
            return True
        if isinstance(s, (ast.For, ast.While, ast.FunctionDef, ast.Lambda)):
            continue
        for fld in ("body", "orelse", "finalbody"):
            sub = getattr(s, fld, None)
            if isinstance(sub, list) and sub and isinstance(sub[0], ast.stmt) and _has_loop_break(sub):
                return True
        if isinstance(s, ast.Try) and any(_has_loop_break(h.body) for h in s.handlers):
            return True
    return False


def _replace_jumps(block, mk_continue, mk_break):
    """`continue` / `break` of *this* loop (not of nested loops) replaced by statement lists"""
    out = []
    for s in block:
        if isinstance(s, ast.Continue):
            out.extend(mk_continue(s))
            continue
        if isinstance(s, ast.Break):
            out.extend(mk_break(s))
            continue
        if not isinstance(s, (ast.For, ast.While, ast.FunctionDef)):
            for fld in ("body", "orelse", "finalbody"):
                sub = getattr(s, fld, None)
                if isinstance(sub, list) and sub and isinstance(sub[0], ast.stmt):
                    setattr(s, fld, _replace_jumps(sub, mk_continue, mk_break))
            if isinstance(s, ast.Try):
                for h in s.handlers:
                    h.body = _replace_jumps(h.body, mk_continue, mk_break)
        out.append(s)
    return out


def _ends(block):
    if not block:
        return False
    s = block[-1]
    if isinstance(s, (ast.Return, ast.Raise)):
        return True
    if isinstance(s, ast.If):
        return bool(s.orelse) and _ends(s.body) and _ends(s.orelse)
    return False


class _Ren(ast.NodeTransformer):
    def __init__(self, m):
        self.m = m

    def visit_Name(self, n):
        if n.id in self.m:
            return ast.copy_location(ast.Name(id=self.m[n.id], ctx=n.ctx), n)
        return n


def loop_to_recursion(f):
    """-> new FunctionDef or None

    forms:  [aliases]; while True: B                       (no break: nothing may follow)
            [aliases]; while C: B; T...                    == if C: B; <recurse>  else: T
            `break` stands for "run T and leave"; in a generator the recursion is `yield from f(..); return`"""
    fn = f.node
    if f.is_static or f.is_property or f.vararg or f.kwarg:
        return None
    body = list(fn.body)
    doc = []
    if body and isinstance(body[0], ast.Expr) and isinstance(body[0].value, ast.Constant) and isinstance(body[0].value.value, str):
        doc, body = body[:1], body[1:]
    idx = [i for i, s_ in enumerate(body) if isinstance(s_, ast.While)]
    if not idx:
        return None
    li = idx[0]
    loop = body[li]
    tail = body[li + 1:]
    if loop.orelse:
        return None
    always = isinstance(loop.test, ast.Constant) and loop.test.value is True
    gen = f.is_generator
    if gen and any(isinstance(n, ast.Return) and n.value is not None for n in ast.walk(fn)):
        return None
    params = list(f.params) + list(f.kwonly)
    recv = None
    if f.cls is not None:
        recv, params = params[0], params[1:]
    alias = {}
    for s in body[:li]:
        if isinstance(s, ast.Assign) and len(s.targets) == 1 and isinstance(s.targets[0], ast.Name) and isinstance(s.value, ast.Name) \
                and s.value.id in params and s.targets[0].id not in params and s.value.id not in alias.values():
            alias[s.targets[0].id] = s.value.id
        else:
            return None
    B = copy.deepcopy(loop.body)
    T = copy.deepcopy(tail)
    has_break = _has_loop_break(B)
    if always and tail and not has_break:
        return None  # unreachable code after an endless loop: not a form a refactoring produces
    if any(isinstance(n, (ast.While, ast.For)) for s in T for n in ast.walk(s)):
        return None
    # an aliased parameter must not be used under its own name inside the loop / after it
    used = {n.id for s in B + T + ([] if always else [ast.Expr(value=loop.test)]) for n in ast.walk(s) if isinstance(n, ast.Name)}
    if any(p in used for p in alias.values()):
        return None
    B = [_Ren(alias).visit(s) for s in B]
    T = [_Ren(alias).visit(s) for s in T]
    test = None if always else _Ren(alias).visit(copy.deepcopy(loop.test))
    assigned = _assigned(B)
    state = assigned & set(params)
    if not state:
        return None
    for nme in assigned - set(params):
        if not _first_use_is_store(B, nme):
            return None  # a local that carries a value into the next round
        # ... or out of the loop into what follows it
        if any(isinstance(n, ast.Name) and n.id == nme and isinstance(n.ctx, ast.Load) for s in T for n in ast.walk(s)) and not _first_use_is_store(T, nme):
            return None
    if any(isinstance(n, (ast.Global, ast.Nonlocal)) for s in B + T for n in ast.walk(s)):
        return None
    if not gen and any(isinstance(n, (ast.Yield, ast.YieldFrom)) for s in B + T for n in ast.walk(s)):
        return None
    n_break = sum(1 for s in B for n in ast.walk(s) if isinstance(n, ast.Break))
    if n_break > 1 and len(T) > 4:
        return None

    def call(at):
        callee = ast.Attribute(value=ast.Name(id=recv, ctx=ast.Load()), attr=fn.name, ctx=ast.Load()) if recv else ast.Name(id=fn.name, ctx=ast.Load())
        c = ast.Call(func=callee, args=[ast.Name(id=p, ctx=ast.Load()) for p in params], keywords=[])
        if gen:
            return [ast.copy_location(ast.Expr(value=ast.YieldFrom(value=c)), at), ast.copy_location(ast.Return(value=None), at)]
        return [ast.copy_location(ast.Return(value=c), at)]

    def leave(at):
        out = copy.deepcopy(T)
        if not _ends(out):
            out.append(ast.copy_location(ast.Return(value=None), at))
        return out
    B = _replace_jumps(B, call, leave)
    if not _ends(B):
        B.extend(call(loop))
    new = copy.copy(fn)
    if always:
        new.body = doc + B
    else:
        new.body = doc + [ast.copy_location(ast.If(test=test, body=B, orelse=[]), loop)] + T
        if not new.body:
            return None
    ast.fix_missing_locations(new)
    return new


def loops_to_recursion(P):
    sites = []
    for f in list(P.funcs.values()):
        if f.module.is_tools or f.is_template or f.parent is not None:
            continue
        try:
            new = loop_to_recursion(f)
        except Exception:
            new = None
        if new is not None:
            if getattr(f, "node_orig", None) is None:
                f.node_orig = f.node
            f.node = new
            sites.append(f.qual)
    return sites
