"""Behaviour-preserving refactorings and single-token mutants of the analysed package, applied in memory.

Used two ways: tools/refactor_sweep.py and tools/mutant_survey.py (development), and the thorough tier of every
property check: every refactoring of every function in the property's scope must leave the check silent
(a failure is a defect of the checker: exit 2), and the share of single-token mutants the check reports is
recorded in the evidence as information."""
import ast
import copy
import multiprocessing
import textwrap

from .model import load_sources


def has_nested(fn):
    for n in ast.walk(fn):
        if isinstance(n, (ast.FunctionDef, ast.Lambda, ast.ClassDef)) and n is not fn:
            return True
    return False


def locals_of(fn):
    params = {a.arg for a in fn.args.posonlyargs + fn.args.args + fn.args.kwonlyargs}
    if fn.args.vararg: params.add(fn.args.vararg.arg)
    if fn.args.kwarg: params.add(fn.args.kwarg.arg)
    names = set()
    for n in ast.walk(fn):
        if isinstance(n, ast.Name) and isinstance(n.ctx, (ast.Store, ast.Del)):
            names.add(n.id)
        elif isinstance(n, ast.ExceptHandler) and n.name:
            names.add(n.name)
        elif isinstance(n, (ast.Global, ast.Nonlocal, ast.Import, ast.ImportFrom)):
            return None
    return names - params


def t_rename(fn):
    if has_nested(fn):
        return None
    loc = locals_of(fn)
    if not loc:
        return None

    class R(ast.NodeTransformer):
        def visit_Name(self, n):
            if n.id in loc:
                return ast.copy_location(ast.Name(id=n.id + "_rn", ctx=n.ctx), n)
            return n

        def visit_ExceptHandler(self, n):
            self.generic_visit(n)
            if n.name in loc:
                n.name = n.name + "_rn"
            return n
    return R().visit(copy.deepcopy(fn))


def t_ifswap(fn):
    hit = [0]

    class R(ast.NodeTransformer):
        def visit_If(self, n):
            self.generic_visit(n)
            if n.orelse:
                hit[0] += 1
                test = n.test.operand if isinstance(n.test, ast.UnaryOp) and isinstance(n.test.op, ast.Not) else ast.UnaryOp(op=ast.Not(), operand=n.test)
                return ast.copy_location(ast.If(test=test, body=n.orelse, orelse=n.body), n)
            return n

        def visit_IfExp(self, n):
            self.generic_visit(n)
            hit[0] += 1
            test = n.test.operand if isinstance(n.test, ast.UnaryOp) and isinstance(n.test.op, ast.Not) else ast.UnaryOp(op=ast.Not(), operand=n.test)
            return ast.copy_location(ast.IfExp(test=test, body=n.orelse, orelse=n.body), n)
    new = R().visit(copy.deepcopy(fn))
    return new if hit[0] else None


def pure(e):
    if isinstance(e, (ast.Name, ast.Constant)):
        return True
    if isinstance(e, ast.Attribute):
        return pure(e.value)
    if isinstance(e, ast.Call) and isinstance(e.func, ast.Name) and e.func.id == "len" and len(e.args) == 1:
        return pure(e.args[0])
    if isinstance(e, ast.BinOp):
        return pure(e.left) and pure(e.right)
    return False


FLIP = {ast.Lt: ast.Gt, ast.Gt: ast.Lt, ast.LtE: ast.GtE, ast.GtE: ast.LtE, ast.Eq: ast.Eq, ast.NotEq: ast.NotEq}


def t_cmpflip(fn):
    hit = [0]

    class R(ast.NodeTransformer):
        def visit_Compare(self, n):
            self.generic_visit(n)
            if len(n.ops) == 1 and type(n.ops[0]) in FLIP and pure(n.left) and pure(n.comparators[0]):
                hit[0] += 1
                return ast.copy_location(ast.Compare(left=n.comparators[0], ops=[FLIP[type(n.ops[0])]()], comparators=[n.left]), n)
            return n
    new = R().visit(copy.deepcopy(fn))
    return new if hit[0] else None


def t_rettemp(fn):
    if has_nested(fn):
        return None
    hit = [0]

    class R(ast.NodeTransformer):
        def visit_Return(self, n):
            if n.value is None or isinstance(n.value, (ast.Name, ast.Constant)):
                return n
            hit[0] += 1
            a = ast.Assign(targets=[ast.Name(id="rv_", ctx=ast.Store())], value=n.value)
            r = ast.Return(value=ast.Name(id="rv_", ctx=ast.Load()))
            return [ast.copy_location(a, n), ast.copy_location(r, n)]
    new = R().visit(copy.deepcopy(fn))
    return new if hit[0] else None


def t_augexpand(fn):
    """`x <<= 1` -> `x = x << 1` for integer-looking updates (shift, or +/- an int constant)"""
    hit = [0]

    class R(ast.NodeTransformer):
        def visit_AugAssign(self, n):
            if isinstance(n.target, ast.Name) and (isinstance(n.op, (ast.LShift, ast.RShift)) or
                                                   (isinstance(n.op, (ast.Add, ast.Sub)) and isinstance(n.value, ast.Constant) and isinstance(n.value.value, int))):
                hit[0] += 1
                return ast.copy_location(ast.Assign(targets=[ast.Name(id=n.target.id, ctx=ast.Store())],
                                                    value=ast.BinOp(left=ast.Name(id=n.target.id, ctx=ast.Load()), op=n.op, right=n.value)), n)
            return n
    new = R().visit(copy.deepcopy(fn))
    return new if hit[0] else None


def _ends_abrupt(body):
    return bool(body) and isinstance(body[-1], (ast.Return, ast.Raise, ast.Continue, ast.Break))


def t_elsify(fn):
    """`if c: return x` followed by more statements -> `if c: return x else: <the rest>`"""
    hit = [0]

    def fix(block):
        out = []
        i = 0
        while i < len(block):
            s = block[i]
            if isinstance(s, ast.If) and not s.orelse and _ends_abrupt(s.body) and i + 1 < len(block):
                hit[0] += 1
                s.orelse = fix(block[i + 1:])
                out.append(s)
                return out
            out.append(s)
            i += 1
        return out

    new = copy.deepcopy(fn)
    for n in ast.walk(new):
        for fld in ("body", "orelse", "finalbody"):
            blk = getattr(n, fld, None)
            if isinstance(blk, list) and blk and isinstance(blk[0], ast.stmt):
                setattr(n, fld, fix(blk))
    return new if hit[0] else None


SIGS = {}


def index_signatures(tree):
    """signatures of the functions / methods defined once in this file (for kwargify)"""
    SIGS.clear()
    counts = {}
    for n in ast.walk(tree):
        if isinstance(n, ast.FunctionDef):
            counts[n.name] = counts.get(n.name, 0) + 1
    for top in tree.body:
        if isinstance(top, ast.FunctionDef) and counts[top.name] == 1 and not top.args.vararg and not top.args.posonlyargs:
            SIGS[top.name] = ([a.arg for a in top.args.args], False)
        if isinstance(top, ast.ClassDef):
            for m in top.body:
                if isinstance(m, ast.FunctionDef) and counts[m.name] == 1 and not m.args.vararg and not m.args.posonlyargs \
                        and not any(ast.unparse(d) in ("staticmethod", "property") for d in m.decorator_list):
                    SIGS[m.name] = ([a.arg for a in m.args.args], True)


def t_kwargify(fn):
    """positional arguments of calls to functions / methods defined in the same file -> keyword arguments"""
    hit = [0]

    class R(ast.NodeTransformer):
        def visit_Call(self, n):
            self.generic_visit(n)
            name = None
            skip = 0
            if isinstance(n.func, ast.Attribute) and isinstance(n.func.value, ast.Name) and n.func.value.id in ("self", "cls"):
                name, skip = n.func.attr, 1
            elif isinstance(n.func, ast.Name):
                name = n.func.id
            sig = SIGS.get(name)
            if sig is None or any(isinstance(a, ast.Starred) for a in n.args) or not n.args:
                return n
            params, is_method = sig
            if is_method != bool(skip):
                return n
            params = params[skip:]
            if len(n.args) > len(params):
                return n
            hit[0] += 1
            kws = [ast.keyword(arg=params[i], value=a) for i, a in enumerate(n.args)]
            return ast.copy_location(ast.Call(func=n.func, args=[], keywords=kws + n.keywords), n)
    new = R().visit(copy.deepcopy(fn))
    return new if hit[0] else None


def t_inlinetmp(fn):
    """`x = e` immediately followed by the only statement that reads x (once) -> e inlined there"""
    if has_nested(fn):
        return None
    hit = [0]
    new = copy.deepcopy(fn)
    loads, stores = {}, {}
    for n in ast.walk(new):
        if isinstance(n, ast.Name):
            d = loads if isinstance(n.ctx, ast.Load) else stores
            d[n.id] = d.get(n.id, 0) + 1

    def simple(stmt):
        return isinstance(stmt, (ast.Assign, ast.Expr, ast.Return, ast.AugAssign))

    def fix(block):
        out = []
        i = 0
        while i < len(block):
            s_ = block[i]
            if isinstance(s_, ast.Assign) and len(s_.targets) == 1 and isinstance(s_.targets[0], ast.Name) and i + 1 < len(block) and simple(block[i + 1]):
                nm = s_.targets[0].id
                nxt = block[i + 1]
                uses = [x for x in ast.walk(nxt) if isinstance(x, ast.Name) and x.id == nm and isinstance(x.ctx, ast.Load)]
                inside_scope = any(isinstance(x, (ast.Lambda, ast.ListComp, ast.GeneratorExp, ast.SetComp, ast.DictComp)) for x in ast.walk(nxt))
                if loads.get(nm, 0) == 1 and stores.get(nm, 0) == 1 and len(uses) == 1 and not inside_scope and not isinstance(s_.value, (ast.Yield, ast.YieldFrom, ast.Await)):
                    # the use must be the first thing evaluated that could have an effect: keep it simple - only when
                    # the next statement evaluates nothing with effects before the use (names / constants / attributes)
                    first_effect = None
                    for x in ast.walk(nxt):
                        if isinstance(x, (ast.Call, ast.Subscript)):
                            first_effect = x
                            break
                    ok = first_effect is None or any(y is uses[0] for y in ast.walk(first_effect)) and not any(
                        isinstance(y, (ast.Call, ast.Subscript)) and y is not first_effect and not any(z is uses[0] for z in ast.walk(y)) for y in ast.walk(first_effect))
                    if ok:
                        class R(ast.NodeTransformer):
                            def visit_Name(self, n):
                                return s_.value if n is uses[0] else n
                        out.append(R().visit(nxt))
                        hit[0] += 1
                        i += 2
                        continue
            out.append(s_)
            i += 1
        return out

    for n in ast.walk(new):
        for fld in ("body", "orelse", "finalbody"):
            blk = getattr(n, fld, None)
            if isinstance(blk, list) and blk and isinstance(blk[0], ast.stmt):
                setattr(n, fld, fix(blk))
    return new if hit[0] else None


def t_retbool(fn):
    """`return a == b` -> `if a == b: return True` / `return False`"""
    hit = [0]

    class R(ast.NodeTransformer):
        def visit_Return(self, n):
            v = n.value
            if isinstance(v, ast.Compare) or (isinstance(v, ast.UnaryOp) and isinstance(v.op, ast.Not) and isinstance(v.operand, ast.Compare)):
                hit[0] += 1
                i = ast.If(test=v, body=[ast.Return(value=ast.Constant(value=True))], orelse=[])
                return [ast.copy_location(i, n), ast.copy_location(ast.Return(value=ast.Constant(value=False)), n)]
            return n

        def visit_FunctionDef(self, n):
            if n is fn_copy:
                self.generic_visit(n)
            return n
    fn_copy = copy.deepcopy(fn)
    new = R().visit(fn_copy)
    return new if hit[0] else None


def t_extracttail(fn):
    """the second half of the function body becomes a new private helper that is called in tail position;
    returns [new function, helper] (the helper is placed right after the function)"""
    if has_nested(fn) or len(fn.body) < 3:
        return None
    if any(isinstance(n, (ast.Yield, ast.YieldFrom, ast.Global, ast.Nonlocal)) for n in ast.walk(fn)):
        return None
    if any(ast.unparse(d).split("(")[0].split(".")[-1] not in ("staticmethod", "classmethod") for d in fn.decorator_list):
        return None
    body = fn.body
    start = 1 if (isinstance(body[0], ast.Expr) and isinstance(body[0].value, ast.Constant) and isinstance(body[0].value.value, str)) else 0
    cut = start + max(1, (len(body) - start) // 2)
    head, tail = body[:cut], body[cut:]
    if not tail or not head[start:]:
        return None
    params = [a.arg for a in fn.args.posonlyargs + fn.args.args + fn.args.kwonlyargs]
    if fn.args.vararg or fn.args.kwarg:
        return None
    is_static = any(ast.unparse(d) == "staticmethod" for d in fn.decorator_list)
    is_cls = any(ast.unparse(d) == "classmethod" for d in fn.decorator_list)
    defined = set(params)
    for s_ in head:
        for n in ast.walk(s_):
            if isinstance(n, ast.Name) and isinstance(n.ctx, ast.Store):
                defined.add(n.id)
            elif isinstance(n, ast.ExceptHandler) and n.name:
                defined.add(n.name)
    used = []
    for s_ in tail:
        for n in ast.walk(s_):
            if isinstance(n, ast.Name) and n.id in defined and n.id not in used:
                used.append(n.id)
    method = bool(params) and params[0] in ("self", "cls") and not is_static
    recv = params[0] if method else None
    args = [u for u in used if u != recv]
    hname = "_xt_%s" % fn.name.strip("_")
    hargs = ([recv] if method else []) + args
    helper = ast.FunctionDef(name=hname, args=ast.arguments(posonlyargs=[], args=[ast.arg(arg=a) for a in hargs], kwonlyargs=[], kw_defaults=[], defaults=[]),
                             body=copy.deepcopy(tail), decorator_list=[ast.Name(id="classmethod", ctx=ast.Load())] if is_cls else ([ast.Name(id="staticmethod", ctx=ast.Load())] if is_static else []),
                             returns=None, type_comment=None, type_params=[])
    callee = ast.Attribute(value=ast.Name(id=recv, ctx=ast.Load()), attr=hname, ctx=ast.Load()) if method else ast.Name(id=hname, ctx=ast.Load())
    if is_static:
        return None  # a static method cannot name its class here
    call = ast.Call(func=callee, args=[ast.Name(id=a, ctx=ast.Load()) for a in args], keywords=[])
    new = copy.deepcopy(fn)
    new.body = copy.deepcopy(head) + [ast.Return(value=call)]
    return [new, helper]


def t_unternary(fn):
    """`x = a if c else b` -> if/else statement; `return a if c else b` -> if c: return a / return b"""
    hit = [0]

    class R(ast.NodeTransformer):
        def visit_Assign(self, n):
            if isinstance(n.value, ast.IfExp) and len(n.targets) == 1 and isinstance(n.targets[0], ast.Name):
                hit[0] += 1
                v = n.value
                return ast.copy_location(ast.If(test=v.test, body=[ast.Assign(targets=[copy.deepcopy(n.targets[0])], value=v.body)],
                                                orelse=[ast.Assign(targets=[copy.deepcopy(n.targets[0])], value=v.orelse)]), n)
            return n

        def visit_Return(self, n):
            if isinstance(n.value, ast.IfExp):
                hit[0] += 1
                v = n.value
                return [ast.copy_location(ast.If(test=v.test, body=[ast.Return(value=v.body)], orelse=[]), n), ast.copy_location(ast.Return(value=v.orelse), n)]
            return n
    new = R().visit(copy.deepcopy(fn))
    return new if hit[0] else None


def t_inset(fn):
    """`x in (A, B)` / `x in {A, B}` -> `x == A or x == B` (x a plain name, members names or constants); `not in` likewise"""
    hit = [0]

    class R(ast.NodeTransformer):
        def visit_Compare(self, n):
            self.generic_visit(n)
            if len(n.ops) == 1 and isinstance(n.ops[0], (ast.In, ast.NotIn)) and isinstance(n.left, ast.Name) \
                    and isinstance(n.comparators[0], (ast.Tuple, ast.Set)) and 1 < len(n.comparators[0].elts) <= 3 \
                    and all(isinstance(e, (ast.Name, ast.Constant)) for e in n.comparators[0].elts):
                hit[0] += 1
                neg = isinstance(n.ops[0], ast.NotIn)
                parts = [ast.Compare(left=copy.deepcopy(n.left), ops=[ast.NotEq() if neg else ast.Eq()], comparators=[e]) for e in n.comparators[0].elts]
                return ast.copy_location(ast.BoolOp(op=ast.And() if neg else ast.Or(), values=parts), n)
            return n
    new = R().visit(copy.deepcopy(fn))
    return new if hit[0] else None


def t_chaincmp(fn):
    """`a <= b <= c` -> `a <= b and b <= c` (b a plain name or constant)"""
    hit = [0]

    class R(ast.NodeTransformer):
        def visit_Compare(self, n):
            self.generic_visit(n)
            if len(n.ops) == 2 and isinstance(n.comparators[0], (ast.Name, ast.Constant)):
                hit[0] += 1
                a = ast.Compare(left=n.left, ops=[n.ops[0]], comparators=[n.comparators[0]])
                b = ast.Compare(left=copy.deepcopy(n.comparators[0]), ops=[n.ops[1]], comparators=[n.comparators[1]])
                return ast.copy_location(ast.BoolOp(op=ast.And(), values=[a, b]), n)
            return n
    new = R().visit(copy.deepcopy(fn))
    return new if hit[0] else None


def t_renameparams(fn):
    """every parameter except self / cls gets a new name (signature and body)"""
    if has_nested(fn):
        return None
    params = [a.arg for a in fn.args.posonlyargs + fn.args.args + fn.args.kwonlyargs]
    params = [p for p in params if p not in ("self", "cls")]
    if not params or fn.args.vararg or fn.args.kwarg:
        return None
    new = copy.deepcopy(fn)
    m = {p: p + "_pr" for p in params}
    for a in ast.walk(new.args):
        if isinstance(a, ast.arg) and a.arg in m:
            a.arg = m[a.arg]
    for n in ast.walk(new):
        if isinstance(n, ast.Name) and n.id in m:
            n.id = m[n.id]
    return new


def t_rec2loop(fn):
    """tail self-recursion -> `while True:` with the parameters reassigned and `continue`
    (`return f(a, b)` in a plain function / method, `yield from f(a, b)` in tail position of a generator)"""
    if has_nested(fn) or fn.args.vararg or fn.args.kwarg or fn.args.kwonlyargs or fn.args.posonlyargs:
        return None
    if any(ast.unparse(d) in ("staticmethod", "classmethod", "property") for d in fn.decorator_list):
        return None
    if any(isinstance(n, (ast.Global, ast.Nonlocal, ast.Try, ast.With)) for n in ast.walk(fn)):
        return None
    params = [a.arg for a in fn.args.args]
    method = bool(params) and params[0] == "self"
    recv = params[0] if method else None
    ps = params[1:] if method else params
    defaults = dict(zip(reversed(params), reversed(fn.args.defaults)))
    gen = any(isinstance(n, (ast.Yield, ast.YieldFrom)) for n in ast.walk(fn))
    if gen and any(isinstance(n, ast.Return) and n.value is not None for n in ast.walk(fn)):
        return None
    hit = [0]

    def selfcall(c):
        if not isinstance(c, ast.Call):
            return False
        if method:
            return isinstance(c.func, ast.Attribute) and isinstance(c.func.value, ast.Name) and c.func.value.id == recv and c.func.attr == fn.name
        return isinstance(c.func, ast.Name) and c.func.id == fn.name

    def rebinding(c, at):
        if any(isinstance(a, ast.Starred) for a in c.args) or any(k.arg is None for k in c.keywords) or len(c.args) > len(ps):
            return None
        amap = dict(zip(ps, c.args))
        for k in c.keywords:
            if k.arg not in ps or k.arg in amap:
                return None
            amap[k.arg] = k.value
        for p_ in ps:
            if p_ not in amap:
                if p_ not in defaults:
                    return None
                amap[p_] = copy.deepcopy(defaults[p_])
        ch = [(p_, a) for p_, a in amap.items() if not (isinstance(a, ast.Name) and a.id == p_)]
        out = []
        if len(ch) == 1:
            out.append(ast.Assign(targets=[ast.Name(id=ch[0][0], ctx=ast.Store())], value=ch[0][1]))
        elif ch:
            out.append(ast.Assign(targets=[ast.Tuple(elts=[ast.Name(id=p_, ctx=ast.Store()) for p_, _ in ch], ctx=ast.Store())],
                                  value=ast.Tuple(elts=[a for _, a in ch], ctx=ast.Load())))
        out.append(ast.Continue())
        return [ast.copy_location(x, at) for x in out]

    def block(stmts, tail):
        out = []
        for i, s_ in enumerate(stmts):
            last = tail and (i == len(stmts) - 1 or (i == len(stmts) - 2 and isinstance(stmts[-1], ast.Return) and stmts[-1].value is None))
            if isinstance(s_, (ast.For, ast.While)):
                out.append(s_)  # a `continue` in there would mean the inner loop
                continue
            if not gen and isinstance(s_, ast.Return) and selfcall(s_.value):
                rb = rebinding(s_.value, s_)
                if rb is not None:
                    hit[0] += 1
                    out.extend(rb)
                    continue
            if gen and last and isinstance(s_, ast.Expr) and isinstance(s_.value, ast.YieldFrom) and selfcall(s_.value.value):
                rb = rebinding(s_.value.value, s_)
                if rb is not None:
                    hit[0] += 1
                    out.extend(rb)
                    break
            if isinstance(s_, ast.If):
                s_ = copy.copy(s_)
                s_.body = block(s_.body, last)
                s_.orelse = block(s_.orelse, last) if s_.orelse else []
            out.append(s_)
        return out
    new = copy.deepcopy(fn)
    body = new.body
    start = 1 if (body and isinstance(body[0], ast.Expr) and isinstance(body[0].value, ast.Constant) and isinstance(body[0].value.value, str)) else 0
    # the guard `if not gen` for returns inside nested loops: a return-call inside a for loop is left alone by block()
    inner = block(body[start:], True)
    if not hit[0]:
        return None
    if not _ends_abrupt(inner):
        inner.append(ast.Return(value=None))
    new.body = body[:start] + [ast.While(test=ast.Constant(value=True), body=inner, orelse=[])]
    return new


def t_unelse(fn):
    """guard clauses: `if c: A (ends with return / raise) else: B` -> `if c: A` followed by B; elif ladders whose
    arms all leave the function become a sequence of plain ifs"""
    hit = [0]

    def leaves(body):
        if not body:
            return False
        last = body[-1]
        if isinstance(last, (ast.Return, ast.Raise, ast.Continue, ast.Break)):
            return True
        if isinstance(last, ast.If) and last.orelse:
            return leaves(last.body) and leaves(last.orelse)
        return False

    class R(ast.NodeTransformer):
        def visit_If(self, n):
            self.generic_visit(n)
            if n.orelse and leaves(n.body):
                hit[0] += 1
                rest = n.orelse
                n.orelse = []
                return [n] + rest
            return n

        def visit_FunctionDef(self, n):
            if n is fn_copy:
                self.generic_visit(n)
            return n

        def visit_Lambda(self, n):
            return n
    fn_copy = copy.deepcopy(fn)
    new = R().visit(fn_copy)
    return new if hit[0] else None


MODES = {"unelse": t_unelse, "rec2loop": t_rec2loop, "renameparams": t_renameparams, "unternary": t_unternary, "inset": t_inset, "chaincmp": t_chaincmp, "retbool": t_retbool, "extracttail": t_extracttail, "inlinetmp": t_inlinetmp, "augexpand": t_augexpand, "elsify": t_elsify, "kwargify": t_kwargify, "rename": t_rename, "ifswap": t_ifswap, "cmpflip": t_cmpflip, "rettemp": t_rettemp}


def splice(src, fn, new):
    lines = src.splitlines(keepends=True)
    start = (fn.decorator_list[0].lineno if fn.decorator_list else fn.lineno) - 1
    end = fn.end_lineno
    indent = len(lines[fn.lineno - 1]) - len(lines[fn.lineno - 1].lstrip())
    nodes = new if isinstance(new, list) else [new]
    for n_ in nodes:
        ast.fix_missing_locations(n_)
    text = ("\n\n").join(textwrap.indent(ast.unparse(n_), " " * indent) for n_ in nodes) + "\n"
    return "".join(lines[:start]) + text + "".join(lines[end:])




def _scope_work(pid, base, mode, scope):
    work = []
    for rel, src in sorted(base.items()):
        if "/tools/" in rel or (scope is not None and rel not in scope):
            continue
        tree = ast.parse(src)
        index_signatures(tree)
        for n in ast.walk(tree):
            if isinstance(n, ast.FunctionDef):
                try:
                    new = MODES[mode](n)
                    if new is None:
                        continue
                    newsrc = splice(src, n, new)
                    ast.parse(newsrc)
                except (SyntaxError, ValueError):
                    continue
                work.append((pid, rel, "%s:%s@%d" % (rel, n.name, n.lineno), mode, newsrc))
    return work


_BASE = None


def _job(args):
    pid, rel, qual, mode, newsrc = args
    from . import core
    src = dict(_BASE)
    src[rel] = newsrc
    try:
        code, ctx = core.run_property(pid, "quick", sources=src, write=False, quiet=True)
    except Exception as e:  # pragma: no cover
        return (qual, mode, 2, "exception %r" % e)
    if code == 0:
        return (qual, mode, 0, "")
    bad = [(o.rule, o.construct, o.verdict) for o in ctx.obs if o.verdict in ("violation", "inconclusive", "error")] if ctx else []
    return (qual, mode, code, "; ".join("%s %s (%s)" % b for b in bad[:2]))


def sweep_property(pid, modes=None, jobs=16):
    """-> (number of refactored variants run, list of (function, mode, exit code, what fired))"""
    global _BASE
    from . import core
    _BASE = load_sources()
    scope = core.prop_scope(pid)
    work = []
    for mode in (modes or sorted(MODES)):
        work += _scope_work(pid, _BASE, mode, scope)
    if not work:
        return 0, []
    with multiprocessing.Pool(min(jobs, len(work))) as pool:
        res = pool.map(_job, work, chunksize=4)
    return len(res), [r for r in res if r[2] != 0]
