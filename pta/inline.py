"""Inline helpers that did not exist when the rules were written (the inverse of `extract method`).

Every rule names the functions it was written against (known_funcs.KNOWN_FUNCS).  A function outside that set
is a helper somebody extracted later (or a new convenience method the old ones now route through).  Where such a
helper is called from the same module in statement position - `return h(..)`, `x = h(..)`, `h(..)` - the call is
replaced by the helper's body with its parameters bound to fresh locals, so that the caller is analysed as the
function it was before the extraction (and a new function through which old ones route is analysed as part of
them).  Nothing else changes: the helper itself stays in the program and is analysed on its own as well.

Restrictions (a call that does not meet them simply stays a call): same module; not a generator, not decorated
(staticmethod / classmethod apart), no *args / **kwargs, not recursive; for `x = h(..)` / `h(..)` every `return`
of the helper is in tail position."""
import ast
import copy

from .known_funcs import KNOWN_FUNCS


def _tail_ok(block):
    """every Return inside `block` is in tail position of the block"""
    for i, s in enumerate(block):
        last = i == len(block) - 1
        if isinstance(s, ast.Return):
            if not last:
                return False
        elif isinstance(s, ast.If):
            if last:
                if not (_tail_ok(s.body) and _tail_ok(s.orelse)):
                    return False
            elif _has_return(s):
                return False
        elif isinstance(s, ast.Try):
            if last and not s.finalbody:
                if not (_tail_ok(s.body) and all(_tail_ok(h.body) for h in s.handlers) and _tail_ok(s.orelse)):
                    return False
                # a return in the try body skips the else block: only allowed when there is no else block
                if s.orelse and _has_return_list(s.body):
                    return False
            elif _has_return(s):
                return False
        elif isinstance(s, ast.With):
            if last:
                if not _tail_ok(s.body):
                    return False
            elif _has_return(s):
                return False
        elif _has_return(s):
            return False
    return True


def _has_return_list(block):
    return any(_has_return(s) for s in block)


def _has_return(s):
    for n in ast.walk(s):
        if isinstance(n, ast.Return):
            return True
        if isinstance(n, (ast.FunctionDef, ast.Lambda, ast.ClassDef)) and n is not s:
            pass
    return False


def _replace_returns(block, mk):
    """tail returns -> mk(value) statements (in place on a copied block)"""
    out = []
    for s in block:
        if isinstance(s, ast.Return):
            out.extend(mk(s))
        elif isinstance(s, ast.If):
            s.body = _replace_returns(s.body, mk)
            s.orelse = _replace_returns(s.orelse, mk)
            out.append(s)
        elif isinstance(s, ast.Try):
            s.body = _replace_returns(s.body, mk)
            for h in s.handlers:
                h.body = _replace_returns(h.body, mk)
            s.orelse = _replace_returns(s.orelse, mk)
            out.append(s)
        elif isinstance(s, ast.With):
            s.body = _replace_returns(s.body, mk)
            out.append(s)
        else:
            out.append(s)
    return out or [ast.Pass()]


def _abrupt(block):
    return bool(block) and isinstance(block[-1], (ast.Return, ast.Raise))


def _to_tail_form(block):
    """`if c: return x` + rest  ->  `if c: return x else: rest` (recursively): early returns become tail returns"""
    out = []
    for i, s in enumerate(block):
        rest = block[i + 1:]
        if isinstance(s, ast.If):
            s.body = _to_tail_form(s.body)
            s.orelse = _to_tail_form(s.orelse)
            if rest and _abrupt(s.body) and not s.orelse:
                s.orelse = _to_tail_form(rest)
                out.append(s)
                return out
            if rest and s.orelse and _abrupt(s.orelse) and not _abrupt(s.body):
                s.body = s.body + _to_tail_form(rest)
                out.append(s)
                return out
        out.append(s)
    return out


class _Rename(ast.NodeTransformer):
    def __init__(self, mapping, self_name, self_expr):
        self.mapping, self.self_name, self.self_expr = mapping, self_name, self_expr

    def visit_Name(self, n):
        if self.self_name is not None and n.id == self.self_name and self.self_expr is not None:
            return ast.copy_location(copy.deepcopy(self.self_expr), n)
        if n.id in self.mapping:
            return ast.copy_location(ast.Name(id=self.mapping[n.id], ctx=n.ctx), n)
        return n

    def visit_ExceptHandler(self, n):
        self.generic_visit(n)
        if n.name in self.mapping:
            n.name = self.mapping[n.name]
        return n

    def visit_FunctionDef(self, n):
        return n  # nested scopes are left alone (helpers with nested defs are not inlined)

    visit_Lambda = visit_FunctionDef


def _locals(fn):
    names = set()
    for n in ast.walk(fn):
        if isinstance(n, ast.Name) and isinstance(n.ctx, (ast.Store, ast.Del)):
            names.add(n.id)
        elif isinstance(n, ast.ExceptHandler) and n.name:
            names.add(n.name)
    return names


class Inliner:
    def __init__(self, P):
        self.P = P
        self.count = 0
        self.sites = []

    def helper_for(self, call, f):
        """-> (helper Func, receiver expr or None) if `call` targets an inlinable new helper of f's module"""
        fn = call.func
        g = None
        recv = None
        if isinstance(fn, ast.Name):
            g = f.module.funcs.get(fn.id)
            if g is None:
                # a new helper that lives in another module of the package and is imported by name: inlined when
                # its body mentions nothing but its own parameters / locals, builtins and names that mean the same
                # thing in the caller's module
                imp = f.module.imports.get(fn.id)
                if imp is not None and imp[0] == "pkg" and imp[2] is not None:
                    src = self.P.modules.get(imp[1])
                    g2 = src.funcs.get(imp[2]) if src is not None else None
                    if g2 is not None and g2.qual not in KNOWN_FUNCS and self._portable(g2, f.module):
                        return self._check(g2, f, call, None, cross=True)
        elif isinstance(fn, ast.Attribute) and isinstance(fn.value, ast.Name) and f.cls is not None:
            if fn.value.id == (f.params[0] if f.params and not f.is_static else None) or fn.value.id == f.cls.name:
                g = f.cls.methods.get(fn.attr)
                if g is not None and not g.is_static and fn.value.id != f.cls.name:
                    recv = fn.value
                if g is not None and fn.value.id == f.cls.name and not g.is_static and not g.is_classmethod:
                    g = None  # Class.method(obj, ..) form: leave alone
        if g is None or g is f or g.qual in KNOWN_FUNCS or g.module is not f.module or g.module.is_tools:
            return None
        return self._check(g, f, call, recv)

    def _portable(self, g, module):
        import builtins
        bound = set(g.all_params()) | _locals(g.node)
        for n in ast.walk(g.node):
            if isinstance(n, ast.Name) and isinstance(n.ctx, ast.Load) and n.id not in bound:
                if hasattr(builtins, n.id):
                    continue
                a, b = g.module.imports.get(n.id), module.imports.get(n.id)
                if a is not None and a == b:
                    continue
                return False
        return True

    def _check(self, g, f, call, recv, cross=False):
        if g.is_generator or g.vararg or g.kwarg or g.nested or g.is_template or g.is_property or g.is_setter:
            return None
        if any(d not in ("staticmethod", "classmethod") for d in g.decos):
            return None
        if any(isinstance(a, ast.Starred) for a in call.args) or any(k.arg is None for k in call.keywords):
            return None
        for n in ast.walk(g.node):
            if isinstance(n, (ast.Global, ast.Nonlocal, ast.Yield, ast.YieldFrom, ast.Lambda, ast.ListComp, ast.SetComp, ast.DictComp, ast.GeneratorExp)) \
                    and isinstance(n, (ast.Global, ast.Nonlocal, ast.Yield, ast.YieldFrom)):
                return None
            if isinstance(n, ast.Call) and isinstance(n.func, ast.Attribute) and n.func.attr == g.name:
                return None  # recursive
            if isinstance(n, ast.Call) and isinstance(n.func, ast.Name) and n.func.id == g.name:
                return None
        return g, recv

    def expand(self, call, f, g, recv, mode, targets=None):
        """statements replacing a statement-position call; None when the helper does not fit"""
        body = copy.deepcopy(g.node_orig.body if getattr(g, "node_orig", None) is not None and False else g.node.body)
        if body and isinstance(body[0], ast.Expr) and isinstance(body[0].value, ast.Constant) and isinstance(body[0].value.value, str):
            body = body[1:]  # docstring
        if mode != "return":
            body = _to_tail_form(body)
            if not _tail_ok(body):
                return None
        self.count += 1
        pre = "_i%d_" % self.count
        params = list(g.params)
        self_name = None
        self_expr = None
        if g.cls is not None and not g.is_static:
            self_name = params[0] if params else None
            params = params[1:]
            if g.is_classmethod:
                self_expr = ast.Name(id=f.cls.name, ctx=ast.Load()) if recv is None else recv
            else:
                self_expr = recv
                if self_expr is None:
                    return None
        if len(call.args) > len(params):
            return None
        bound = {}
        for pn, a in zip(params, call.args):
            bound[pn] = a
        for k in call.keywords:
            if k.arg not in params + g.kwonly or k.arg in bound:
                return None
            bound[k.arg] = k.value
        defaults = g.defaults()
        for pn in params + g.kwonly:
            if pn not in bound:
                if pn not in defaults:
                    return None
                d_ = defaults[pn]
                if isinstance(d_, (ast.Dict, ast.List, ast.Set, ast.ListComp, ast.DictComp, ast.SetComp)) or \
                        (isinstance(d_, ast.Call) and not (isinstance(d_.func, ast.Name) and d_.func.id in ("tuple", "frozenset", "bytes", "int", "str"))):
                    return None  # a default is evaluated once: a mutable one is not a fresh object per call
                bound[pn] = copy.deepcopy(d_)
        assigned = _locals(g.node)
        mapping = {n: pre + n for n in (set(params) | set(g.kwonly) | assigned) if n != self_name}
        stmts = []
        for pn in params + g.kwonly:  # arguments are evaluated left to right, as at the call
            a_ = bound[pn]
            if isinstance(a_, ast.Name) and pn not in assigned and a_.id not in assigned:
                # the argument is a plain variable the helper never rebinds: the parameter *is* that variable
                mapping[pn] = a_.id
                continue
            a = ast.Assign(targets=[ast.Name(id=mapping[pn], ctx=ast.Store())], value=a_)
            stmts.append(ast.copy_location(a, call))
        rn = _Rename(mapping, self_name, self_expr)
        body = [rn.visit(s) for s in body]
        ends = bool(body) and isinstance(body[-1], (ast.Return, ast.Raise))

        if mode == "return":
            if not ends and not _all_paths_end(body):
                body.append(ast.copy_location(ast.Return(value=ast.Constant(value=None)), call))
        elif mode == "assign":
            def mk(r):
                v = r.value if r.value is not None else ast.Constant(value=None)
                return [ast.copy_location(ast.Assign(targets=copy.deepcopy(targets), value=v), r)]
            falls = not _all_paths_end(body)
            body = _replace_returns(body, mk)
            if falls and not ends:
                # a path that falls off the end of the helper yields None
                pass
            if not _assigns_on_all_paths(body, targets):
                body = [ast.copy_location(ast.Assign(targets=copy.deepcopy(targets), value=ast.Constant(value=None)), call)] + body
        else:  # expression statement: the result is discarded
            def mk(r):
                if r.value is None or isinstance(r.value, (ast.Constant, ast.Name)):
                    return [ast.copy_location(ast.Pass(), r)]
                return [ast.copy_location(ast.Expr(value=r.value), r)]
            body = _replace_returns(body, mk)
        out = stmts + body
        for s in out:
            ast.fix_missing_locations(s)
        self.sites.append((f.qual, g.qual, mode))
        return out

    def remaining_calls(self, g):
        """call sites of helper g that were not inlined (anywhere in the program)"""
        n = 0
        for f in self.P.funcs.values():
            if f is g or f.is_template:
                continue
            for c in ast.walk(f.node):
                if isinstance(c, ast.Call):
                    fn = c.func
                    if (isinstance(fn, ast.Name) and fn.id == g.name and g.cls is None and (f.module is g.module or f.module.imports.get(fn.id, (None, None, None))[1] == g.module.name)) or \
                            (isinstance(fn, ast.Attribute) and fn.attr == g.name and g.cls is not None):
                        n += 1
        return n

    def rewrite_block(self, block, f):
        out = []
        changed = False
        for s in block:
            rep = None
            if isinstance(s, ast.Return) and isinstance(s.value, ast.Call):
                h = self.helper_for(s.value, f)
                if h:
                    rep = self.expand(s.value, f, h[0], h[1], "return")
            elif isinstance(s, ast.Assign) and isinstance(s.value, ast.Call) and len(s.targets) == 1 and isinstance(s.targets[0], (ast.Name, ast.Tuple)):
                h = self.helper_for(s.value, f)
                if h:
                    rep = self.expand(s.value, f, h[0], h[1], "assign", targets=s.targets)
            elif isinstance(s, ast.Assign) and isinstance(s.value, ast.Call) and len(s.targets) == 1 and isinstance(s.targets[0], (ast.Subscript, ast.Attribute)):
                # `obj[k] = h(..)`: Python evaluates the right-hand side first, so  tmp = h(..); obj[k] = tmp  is the same
                h = self.helper_for(s.value, f)
                if h:
                    tmp = ast.Name(id="_i%d_result" % (self.count + 1), ctx=ast.Store())
                    rep = self.expand(s.value, f, h[0], h[1], "assign", targets=[tmp])
                    if rep is not None:
                        fin = ast.Assign(targets=s.targets, value=ast.Name(id=tmp.id, ctx=ast.Load()))
                        rep = rep + [ast.fix_missing_locations(ast.copy_location(fin, s))]
            elif isinstance(s, ast.Expr) and isinstance(s.value, ast.Call):
                h = self.helper_for(s.value, f)
                if h:
                    rep = self.expand(s.value, f, h[0], h[1], "expr")
            if rep is not None:
                out.extend(rep)
                changed = True
                continue
            for fld in ("body", "orelse", "finalbody"):
                sub = getattr(s, fld, None)
                if isinstance(sub, list) and sub and isinstance(sub[0], ast.stmt):
                    new, ch = self.rewrite_block(sub, f)
                    if ch:
                        setattr(s, fld, new)
                        changed = True
            if isinstance(s, ast.Try):
                for hd in s.handlers:
                    new, ch = self.rewrite_block(hd.body, f)
                    if ch:
                        hd.body = new
                        changed = True
            out.append(s)
        return out, changed


def _all_paths_end(block):
    if not block:
        return False
    s = block[-1]
    if isinstance(s, (ast.Return, ast.Raise)):
        return True
    if isinstance(s, ast.If):
        return bool(s.orelse) and _all_paths_end(s.body) and _all_paths_end(s.orelse)
    if isinstance(s, ast.Try):
        return (_all_paths_end(s.orelse) if s.orelse else _all_paths_end(s.body)) and all(_all_paths_end(h.body) for h in s.handlers)
    if isinstance(s, ast.With):
        return _all_paths_end(s.body)
    return False


def _assigns_on_all_paths(block, targets):
    """after _replace_returns: does every path through `block` end in an assignment to the targets (or raise)?"""
    if not block:
        return False
    s = block[-1]
    if isinstance(s, ast.Raise):
        return True
    if isinstance(s, ast.Assign) and ast.dump(s.targets[0]) == ast.dump(targets[0]):
        return True
    if isinstance(s, ast.If):
        return bool(s.orelse) and _assigns_on_all_paths(s.body, targets) and _assigns_on_all_paths(s.orelse, targets)
    if isinstance(s, ast.Try):
        return (_assigns_on_all_paths(s.orelse, targets) if s.orelse else _assigns_on_all_paths(s.body, targets)) and all(_assigns_on_all_paths(h.body, targets) for h in s.handlers)
    if isinstance(s, ast.With):
        return _assigns_on_all_paths(s.body, targets)
    return False


def inline_new_helpers(P, rounds=3):
    """-> list of (caller, helper, mode) inlining sites"""
    if not any(q not in KNOWN_FUNCS and not f.module.is_tools for q, f in P.funcs.items()):
        return []
    inl = Inliner(P)
    for _ in range(rounds):
        any_change = False
        for f in list(P.funcs.values()):
            if f.module.is_tools or f.is_template or f.parent is not None:
                continue
            node = copy.deepcopy(f.node) if not getattr(f, "_inlined", False) else f.node
            new_body, ch = inl.rewrite_block(node.body, f)
            if ch:
                node.body = new_body
                ast.fix_missing_locations(node)
                if getattr(f, "node_orig", None) is f.node or getattr(f, "node_orig", None) is None:
                    f.node_orig = f.node
                f.node = node
                if getattr(f, "wrapper_with", None) is not None and node.body and isinstance(node.body[0], ast.With):
                    f.wrapper_with = node.body[0]
                f._inlined = True
                any_change = True
        if not any_change:
            break
    # a private helper all of whose call sites were inlined is analysed as part of its callers only
    for q in {h for _f, h, _m in inl.sites}:
        g = P.funcs[q]
        if g.name.startswith("_") and not g.name.startswith("__") and inl.remaining_calls(g) == 0:
            # (removed from the program model: nothing refers to it any more)
            P.funcs.pop(q, None)
            if g.cls is not None:
                g.cls.methods.pop(g.name, None)
            else:
                g.module.funcs.pop(g.name, None)
            P.inlined_away = getattr(P, "inlined_away", []) + [q]
    return inl.sites
