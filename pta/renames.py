"""Renamed functions get their old names back (on the analyser's copy).

The rules are anchored in function names (known_funcs.KNOWN_FUNCS).  When a known function is gone and exactly
one function that is new in the same class / module has the same structural fingerprint (parameter count, the
multiset of names it calls - its own name apart -, the numbers of if / return / raise / loop statements), the new
function *is* the old one under a new name: definition and every reference are renamed back.  Anything less
clear-cut is left alone, and the rules report the vanished anchor (exit 2)."""
import ast

from .known_funcs import KNOWN_FUNCS, KNOWN_FP


def fingerprint(fn_node, own_name):
    calls = []
    counts = {"If": 0, "Return": 0, "Raise": 0, "For": 0, "While": 0, "Try": 0, "With": 0, "Assign": 0, "Yield": 0}
    for n in ast.walk(fn_node):
        if isinstance(n, ast.Call):
            nm = n.func.attr if isinstance(n.func, ast.Attribute) else (n.func.id if isinstance(n.func, ast.Name) else "?")
            if nm != own_name:
                calls.append(nm)
        t = type(n).__name__
        if t in counts:
            counts[t] += 1
    a = fn_node.args
    nparams = len(a.posonlyargs) + len(a.args) + len(a.kwonlyargs)
    return [nparams, sorted(calls), sorted(counts.items())]


def undo_renames(P):
    done = []
    for m in P.modules.values():
        if m.is_tools:
            continue
        present = {f.qual: f for f in P.funcs.values() if f.module is m and f.parent is None}
        missing = [q for q in KNOWN_FUNCS if q.startswith(m.name + ":") and q not in present and q in KNOWN_FP]
        new = [f for q, f in present.items() if q not in KNOWN_FUNCS]
        if not missing or not new:
            continue
        fps = {f.qual: fingerprint(f.node, f.name) for f in new}
        # functions renamed together call each other under their new names: such callees count as one wildcard
        wild = {q_.split(":")[1].split(".")[-1] for q_ in missing} | {f.name for f in new}

        def norm_fp(fp):
            return [fp[0], sorted("?" if c in wild else c for c in fp[1]), fp[2]]
        fps = {k_: norm_fp(v) for k_, v in fps.items()}
        known_fp = {q_: norm_fp(KNOWN_FP[q_]) for q_ in missing}

        def container_of(q_):
            return q_.rsplit(".", 1)[0] if "." in q_.split(":")[1] else q_.split(":")[0]

        def similarity(fp_a, fp_b):
            """same parameter count required; Jaccard similarity of the multisets of called names"""
            if fp_a[0] != fp_b[0]:
                return 0.0
            a, b = list(fp_a[1]), list(fp_b[1])
            inter = 0
            rest = list(b)
            for x in a:
                if x in rest:
                    rest.remove(x)
                    inter += 1
            union = len(a) + len(b) - inter
            return 1.0 if union == 0 else inter / union
        pairs = []
        for q in missing:
            container = container_of(q)
            here = [f for f in new if (f.qual.rsplit(".", 1)[0] if f.cls is not None else f.qual.split(":")[0]) == container]
            cands = [f for f in here if fps[f.qual] == known_fp[q]]
            if len(cands) != 1:
                # renamed and touched up in the same change (docstring, a temporary, renamed locals): the calls it
                # makes still identify it - a unique best match that shares most of its callees
                scored = sorted(((similarity(known_fp[q], fps[f.qual]), f) for f in here), key=lambda x: -x[0])
                cands = []
                if scored and scored[0][0] >= 0.7 and (len(scored) == 1 or scored[1][0] < scored[0][0] - 0.15) and len(known_fp[q][1]) >= 2:
                    cands = [scored[0][1]]
            if len(cands) == 1:
                pairs.append((q, cands[0]))
        # a new function may stand for one old function only
        targets = [f.qual for _, f in pairs]
        pairs = [(q, f) for q, f in pairs if targets.count(f.qual) == 1]
        for q, f in pairs:
            old = q.split(":")[1].split(".")[-1]
            newname = f.name
            # references everywhere in the package
            for g in P.funcs.values():
                for n in ast.walk(g.node):
                    if f.cls is not None and isinstance(n, ast.Attribute) and n.attr == newname:
                        n.attr = old
                    elif f.cls is None and isinstance(n, ast.Name) and n.id == newname:
                        n.id = old
            if f.cls is None:
                for m2 in P.modules.values():
                    imp = m2.imports.pop(newname, None)
                    if imp is not None and imp[0] == "pkg" and imp[1] == m.name:
                        m2.imports[old] = ("pkg", imp[1], old)
                    elif imp is not None:
                        m2.imports[newname] = imp
                m.funcs.pop(newname, None)
                m.funcs[old] = f
            else:
                f.cls.methods.pop(newname, None)
                f.cls.methods[old] = f
            P.funcs.pop(f.qual, None)
            f.node.name = old
            f.name = old
            f.qual = q
            P.funcs[q] = f
            done.append((newname, q))
    # a module-level function that moved to another module of the package and is imported back under its name:
    # it keeps its old qualified name in the model (its body is still resolved in the module it now lives in)
    for m in P.modules.values():
        if m.is_tools:
            continue
        for q in [q_ for q_ in KNOWN_FUNCS if q_.startswith(m.name + ":") and "." not in q_.split(":")[1] and q_ not in P.funcs]:
            name = q.split(":")[1]
            imp = m.imports.get(name)
            if imp is None or imp[0] != "pkg" or imp[2] != name:
                continue
            src = P.modules.get(imp[1])
            f = src.funcs.get(name) if src is not None else None
            if f is None or f.qual in KNOWN_FUNCS:
                continue
            P.funcs.pop(f.qual, None)
            f.qual = q
            P.funcs[q] = f
            m.funcs[name] = f
            m.imports.pop(name, None)
            done.append((name + " (moved to %s)" % src.name, q))
    done += _rehome_methods(P)
    return done


def _rehome_methods(P):
    """A known method that is gone while a new module-level function of the same name (the method without its
    `self`, or with the same parameters for a static method) is called from the class: the function body is the
    method body - it is put back into the class on the analyser's copy and the calls from the class's methods go
    through `self.` again.  Only when every free name of the body means the same thing in the class's module as
    in the function's."""
    import builtins
    import copy
    from .known_funcs import KNOWN_PARAMS
    done = []
    for q in sorted(KNOWN_FUNCS):
        if q in P.funcs or ":" not in q or q.split(":")[1].count(".") != 1:
            continue
        modname, rest = q.split(":")
        cname, name = rest.split(".")
        m = P.modules.get(modname)
        cls = P.classes.get("%s:%s" % (modname, cname)) if m is not None else None
        if m is None or cls is None or m.is_tools or q not in KNOWN_PARAMS:
            continue
        g = m.funcs.get(name)
        if g is None:
            imp = m.imports.get(name)
            if imp is not None and imp[0] == "pkg" and imp[2] is not None and imp[1] in P.modules:
                g = P.modules[imp[1]].funcs.get(imp[2])
        if g is None or g.qual in KNOWN_FUNCS or g.parent is not None:
            continue
        kpos = KNOWN_PARAMS[q][0]
        static = len(g.params) == len(kpos)
        if not static and len(g.params) != len(kpos) - 1:
            continue
        bound = set(g.all_params())
        for n in ast.walk(g.node):
            if isinstance(n, ast.Name) and isinstance(n.ctx, (ast.Store, ast.Del)):
                bound.add(n.id)
        ok = True
        add_imports = {}
        taken = set(m.funcs) | set(m.classes) | set(m.const_nodes)
        for n in ast.walk(g.node):
            if isinstance(n, ast.Name) and isinstance(n.ctx, ast.Load) and n.id not in bound and not hasattr(builtins, n.id):
                if g.module is m or n.id == name:
                    continue
                a, b = g.module.imports.get(n.id), m.imports.get(n.id)
                origin = a if a is not None else (("pkg", g.module.name, n.id) if (n.id in g.module.const_nodes or n.id in g.module.funcs or n.id in g.module.classes) else None)
                if origin is None:
                    ok = False
                elif b == origin:
                    pass
                elif b is None and n.id not in taken:
                    add_imports[n.id] = origin  # the class's module gets the binding the body needs
                else:
                    ok = False
        if not ok:
            continue
        m.imports.update(add_imports)
        node = copy.deepcopy(g.node)
        node.name = name
        keep = [d for d in node.decorator_list]  # e.g. @to_tuple on a generator: part of the body's meaning
        for d in keep:
            for n in ast.walk(d):
                if isinstance(n, ast.Name) and n.id not in m.imports and g.module.imports.get(n.id) is not None and n.id not in taken:
                    m.imports[n.id] = g.module.imports[n.id]
        if static:
            node.decorator_list = [ast.Name(id="staticmethod", ctx=ast.Load())] + keep
        else:
            node.args.args = [ast.arg(arg="self")] + node.args.args
            node.decorator_list = keep
        ast.fix_missing_locations(node)
        f = P._mk_func(m, node, cls=cls)
        cls.methods[name] = f
        for h in list(cls.methods.values()) + list(cls.setters.values()):
            recv = h.params[0] if h.params and not h.is_static else None
            if recv is None:
                continue

            class T(ast.NodeTransformer):
                def visit_Call(self, c):
                    self.generic_visit(c)
                    if isinstance(c.func, ast.Name) and c.func.id == name:
                        c.func = ast.copy_location(ast.Attribute(value=ast.Name(id=recv, ctx=ast.Load()), attr=name, ctx=ast.Load()), c.func)
                    return c
            h.node = ast.fix_missing_locations(T().visit(h.node))
        done.append((g.qual + " (function put back as method)", q))
    return done
