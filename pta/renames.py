"""Renamed functions get their old names back (on the analyser's copy).

The rules are anchored in function names (known_funcs.KNOWN_FUNCS).  When a known function is gone and exactly
one function that is new in the same class / module has the same structural fingerprint (parameter count, the
multiset of names it calls - its own name apart -, the numbers of if / return / raise / loop statements), the new
function *is* the old one under a new name: definition and every reference are renamed back.  Anything less
clear-cut is left alone, and the rules report the vanished anchor (exit 2)."""
import ast

from .known_funcs import KNOWN_FUNCS, KNOWN_FP


def fingerprint(fn_node, own_name):
    calls = []
    counts = {"If": 0, "Return": 0, "Raise": 0, "For": 0, "While": 0, "Try": 0, "With": 0, "Assign": 0, "Yield": 0}
    for n in ast.walk(fn_node):
        if isinstance(n, ast.Call):
            nm = n.func.attr if isinstance(n.func, ast.Attribute) else (n.func.id if isinstance(n.func, ast.Name) else "?")
            if nm != own_name:
                calls.append(nm)
        t = type(n).__name__
        if t in counts:
            counts[t] += 1
    a = fn_node.args
    nparams = len(a.posonlyargs) + len(a.args) + len(a.kwonlyargs)
    return [nparams, sorted(calls), sorted(counts.items())]


def undo_renames(P):
    done = []
    for m in P.modules.values():
        if m.is_tools:
            continue
        present = {f.qual: f for f in P.funcs.values() if f.module is m and f.parent is None}
        missing = [q for q in KNOWN_FUNCS if q.startswith(m.name + ":") and q not in present and q in KNOWN_FP]
        new = [f for q, f in present.items() if q not in KNOWN_FUNCS]
        if not missing or not new:
            continue
        fps = {f.qual: fingerprint(f.node, f.name) for f in new}
        pairs = []
        for q in missing:
            container = q.rsplit(".", 1)[0] if "." in q.split(":")[1] else q.split(":")[0]
            cands = [f for f in new if (f.qual.rsplit(".", 1)[0] if f.cls is not None else f.qual.split(":")[0]) == container and fps[f.qual] == KNOWN_FP[q]]
            if len(cands) == 1:
                pairs.append((q, cands[0]))
        # a new function may stand for one old function only
        targets = [f.qual for _, f in pairs]
        pairs = [(q, f) for q, f in pairs if targets.count(f.qual) == 1]
        for q, f in pairs:
            old = q.split(":")[1].split(".")[-1]
            newname = f.name
            # references everywhere in the package
            for g in P.funcs.values():
                for n in ast.walk(g.node):
                    if f.cls is not None and isinstance(n, ast.Attribute) and n.attr == newname:
                        n.attr = old
                    elif f.cls is None and isinstance(n, ast.Name) and n.id == newname:
                        n.id = old
            if f.cls is None:
                for m2 in P.modules.values():
                    imp = m2.imports.pop(newname, None)
                    if imp is not None and imp[0] == "pkg" and imp[1] == m.name:
                        m2.imports[old] = ("pkg", imp[1], old)
                    elif imp is not None:
                        m2.imports[newname] = imp
                m.funcs.pop(newname, None)
                m.funcs[old] = f
            else:
                f.cls.methods.pop(newname, None)
                f.cls.methods[old] = f
            P.funcs.pop(f.qual, None)
            f.node.name = old
            f.name = old
            f.qual = q
            P.funcs[q] = f
            done.append((newname, q))
    return done
