"""Call-site normal form: keyword arguments that name the next positional parameters of a uniquely resolved
callee become positional.  `self._set(node_hash=h, keypath=k, value=v)` and `self._set(h, k, v)` are the same
call for every rule (terms, argument indices, bind_args).  Only leading keywords in parameter order are moved,
so the evaluation order of the argument expressions is unchanged."""
import ast


def _calls(fn_node):
    """Call nodes of a function body, entering lambdas / comprehensions but not nested defs or classes."""
    stack = list(ast.iter_child_nodes(fn_node))
    while stack:
        n = stack.pop()
        if isinstance(n, (ast.FunctionDef, ast.AsyncFunctionDef, ast.ClassDef)):
            continue
        if isinstance(n, ast.Call):
            yield n
        stack.extend(ast.iter_child_nodes(n))


def _signature(tg):
    """-> positional parameter names the call's arguments bind to, or None"""
    if tg.kind == "def":
        g = tg.func
        if g.vararg:
            return None
        ps = list(g.params)
        if g.cls is not None and not g.is_static:
            # bound call (instance receiver, or classmethod through the class): the first parameter is taken
            if tg.recv is not None or g.is_classmethod:
                ps = ps[1:]
        return ps
    if tg.kind == "ctor" and tg.cls is not None and hasattr(tg.cls, "methods"):
        g = tg.cls.methods.get("__init__") or tg.cls.methods.get("__new__")
        if g is None or g.vararg:
            return None
        return list(g.params)[1:]
    return None


def normalize_calls(P, R):
    moved = 0
    for f in list(P.funcs.values()):
        for call in _calls(f.node):
            if not call.keywords or any(isinstance(a, ast.Starred) for a in call.args) or any(k.arg is None for k in call.keywords):
                continue
            try:
                tgs = R.resolve_call(call, f, count=False)
            except Exception:
                continue
            sigs = [_signature(t) for t in tgs]
            if not sigs or any(s is None for s in sigs) or any(s != sigs[0] for s in sigs[1:]):
                continue
            params = sigs[0]
            while call.keywords and len(call.args) < len(params) and call.keywords[0].arg == params[len(call.args)]:
                call.args.append(call.keywords.pop(0).value)
                moved += 1
    return moved


def normalize_membership(P):
    """`X in (a, b)` with a display of at most four non-constant members (`BLANK in (left, right)`) is the
    disjunction `X == a or X == b`; `not in` the conjunction of `!=`.  (Membership in a display of constants is
    left as it is: the engine keeps it as a value-set fact.)"""
    import copy
    n_sites = 0

    class T(ast.NodeTransformer):
        def visit_Compare(self, n):
            self.generic_visit(n)
            nonlocal n_sites
            if len(n.ops) == 1 and isinstance(n.ops[0], (ast.In, ast.NotIn)) and isinstance(n.comparators[0], (ast.Tuple, ast.List, ast.Set)):
                elts = n.comparators[0].elts
                if 1 <= len(elts) <= 4 and isinstance(n.left, (ast.Name, ast.Constant, ast.Attribute)) and any(isinstance(e, ast.Name) and not e.id.isupper() for e in elts) \
                        and all(isinstance(e, (ast.Name, ast.Constant, ast.Attribute)) for e in elts):
                    neg = isinstance(n.ops[0], ast.NotIn)
                    parts = [ast.Compare(left=copy.deepcopy(e), ops=[ast.NotEq() if neg else ast.Eq()], comparators=[copy.deepcopy(n.left)]) for e in elts]
                    n_sites += 1
                    new = parts[0] if len(parts) == 1 else ast.BoolOp(op=ast.And() if neg else ast.Or(), values=parts)
                    return ast.fix_missing_locations(ast.copy_location(new, n))
            return n
    for f in list(P.funcs.values()):
        if f.module.is_tools:
            continue
        before = n_sites
        new = T().visit(f.node)
        if n_sites != before:
            f.node = new
    return n_sites


def _pure_test(e):
    if isinstance(e, (ast.Name, ast.Constant)):
        return True
    if isinstance(e, ast.Attribute):
        return _pure_test(e.value)
    if isinstance(e, ast.Subscript):
        return _pure_test(e.value) and (_pure_test(e.slice) if not isinstance(e.slice, ast.Slice) else all(x is None or _pure_test(x) for x in (e.slice.lower, e.slice.upper, e.slice.step)))
    if isinstance(e, ast.UnaryOp):
        return _pure_test(e.operand)
    if isinstance(e, ast.BinOp):
        return _pure_test(e.left) and _pure_test(e.right)
    if isinstance(e, ast.BoolOp):
        return all(_pure_test(v) for v in e.values)
    if isinstance(e, ast.Compare):
        return _pure_test(e.left) and all(_pure_test(c) for c in e.comparators)
    if isinstance(e, ast.Call) and isinstance(e.func, ast.Name) and e.func.id in ("len", "isinstance") and not e.keywords:
        return all(_pure_test(a) for a in e.args)
    return False


def normalize_ifexp(P):
    """A conditional expression with an effect-free test inside a simple statement is the if / else statement
    with the two variants of that statement: `x = f(a if c else b)` is `if c: x = f(a) else: x = f(b)`."""
    import copy
    n_sites = [0]

    def find(expr):
        """first IfExp inside expr that is not under a lambda / comprehension / another IfExp's test"""
        stack = [expr]
        while stack:
            n = stack.pop(0)
            if isinstance(n, ast.IfExp):
                return n
            if isinstance(n, (ast.Lambda, ast.ListComp, ast.SetComp, ast.DictComp, ast.GeneratorExp)):
                continue
            stack.extend(ast.iter_child_nodes(n))
        return None

    def split(stmt, depth=0):
        if depth > 3 or not isinstance(stmt, (ast.Assign, ast.AugAssign, ast.AnnAssign, ast.Return, ast.Expr)):
            return [stmt]
        val = stmt.value
        if val is None:
            return [stmt]
        ife = find(val)
        if ife is None or not _pure_test(ife.test):
            return [stmt]

        class Sub(ast.NodeTransformer):
            def __init__(self, repl):
                self.repl = repl

            def visit_IfExp(self, n):
                if n is target[0]:
                    return self.repl
                return self.generic_visit(n)
        out = []
        for arm in ("body", "orelse"):
            c = copy.deepcopy(stmt)
            # locate the copy of the IfExp in the copied statement (same position in a walk)
            orig_nodes = list(ast.walk(stmt))
            copy_nodes = list(ast.walk(c))
            target = [copy_nodes[orig_nodes.index(ife)]]
            c = Sub(getattr(target[0], arm)).visit(c)
            out.append(split(c, depth + 1))
        n_sites[0] += 1
        new = ast.If(test=copy.deepcopy(ife.test), body=out[0], orelse=out[1])
        return [ast.fix_missing_locations(ast.copy_location(new, stmt))]

    def rewrite(block):
        res = []
        for s_ in block:
            for fld in ("body", "orelse", "finalbody"):
                sub = getattr(s_, fld, None)
                if isinstance(sub, list) and sub and isinstance(sub[0], ast.stmt):
                    setattr(s_, fld, rewrite(sub))
            if isinstance(s_, ast.Try):
                for h in s_.handlers:
                    h.body = rewrite(h.body)
            res.extend(split(s_))
        return res

    for f in list(P.funcs.values()):
        if f.module.is_tools or f.parent is not None:
            continue
        before = n_sites[0]
        body = rewrite(f.node.body)
        if n_sites[0] != before:
            f.node.body = body
    return n_sites[0]


def normalize_next_genexp(P):
    """`t = next(e for v in it if c)` is the search loop `for v in it: if c: t = e; break` (without a default,
    "nothing found" is a crash in both spellings: StopIteration there, an unbound local here; neither is modelled)."""
    import copy
    n_sites = [0]

    def conv(stmt, taken):
        if not (isinstance(stmt, ast.Assign) and len(stmt.targets) == 1 and isinstance(stmt.value, ast.Call)):
            return None
        c = stmt.value
        if not (isinstance(c.func, ast.Name) and c.func.id == "next" and len(c.args) in (1, 2) and not c.keywords):
            return None
        g = c.args[0]
        if isinstance(g, ast.Name) and g.id in gen_locals:
            g = gen_locals[g.id][1]  # `gen = (e for ..); t = next(gen, d)` with `gen` used nowhere else
            used_locals.add(c.args[0].id)
        if not isinstance(g, ast.GeneratorExp):
            return None
        default = c.args[1] if len(c.args) == 2 else None
        if len(g.generators) != 1 or g.generators[0].is_async:
            return None
        comp = g.generators[0]
        tnames = [x.id for x in ast.walk(comp.target) if isinstance(x, ast.Name)]
        if not tnames or any(x in taken for x in tnames):
            return None  # the loop variables would leak over locals of the same name
        if default is None and isinstance(g.elt, ast.Tuple):
            return None  # (the tables read `next((i, v) for i, v in ..)` without a default as a term)
        asg = ast.Assign(targets=copy.deepcopy(stmt.targets), value=copy.deepcopy(g.elt))
        inner = [asg, ast.Break()]
        for cond in reversed(comp.ifs):
            inner = [ast.If(test=copy.deepcopy(cond), body=inner, orelse=[])]
        orelse = [ast.Assign(targets=copy.deepcopy(stmt.targets), value=copy.deepcopy(default))] if default is not None else []
        loop = ast.For(target=copy.deepcopy(comp.target), iter=copy.deepcopy(comp.iter), body=inner, orelse=orelse)
        for x in ast.walk(loop.target):
            if isinstance(x, (ast.Name, ast.Tuple, ast.List)):
                x.ctx = ast.Store()
        n_sites[0] += 1
        ast.copy_location(loop, stmt)
        for x in ast.walk(loop):
            if not hasattr(x, "lineno"):
                ast.copy_location(x, stmt)
        return ast.fix_missing_locations(loop)

    def rewrite(block, taken):
        res = []
        for s_ in block:
            for fld in ("body", "orelse", "finalbody"):
                sub = getattr(s_, fld, None)
                if isinstance(sub, list) and sub and isinstance(sub[0], ast.stmt):
                    setattr(s_, fld, rewrite(sub, taken))
            if isinstance(s_, ast.Try):
                for h in s_.handlers:
                    h.body = rewrite(h.body, taken)
            new = conv(s_, taken)
            res.append(new if new is not None else s_)
        return res

    gen_locals = {}
    used_locals = set()
    for f in list(P.funcs.values()):
        if f.module.is_tools or f.parent is not None:
            continue
        if not any(isinstance(n, ast.GeneratorExp) for n in ast.walk(f.node)):
            continue
        gen_locals.clear()
        used_locals.clear()
        stores, loads = {}, {}
        for n in ast.walk(f.node):
            if isinstance(n, ast.Assign) and len(n.targets) == 1 and isinstance(n.targets[0], ast.Name):
                stores.setdefault(n.targets[0].id, []).append(n)
            elif isinstance(n, ast.Name) and isinstance(n.ctx, ast.Load):
                loads[n.id] = loads.get(n.id, 0) + 1
        for nm, asg in stores.items():
            if len(asg) == 1 and isinstance(asg[0].value, ast.GeneratorExp) and loads.get(nm, 0) == 1:
                gen_locals[nm] = (asg[0], asg[0].value)
        taken = set(f.all_params())
        for n in ast.walk(f.node):
            if isinstance(n, ast.Name) and not any(n is x for ge in ast.walk(f.node) if isinstance(ge, ast.GeneratorExp) for x in ast.walk(ge)):
                taken.add(n.id)
        before = n_sites[0]
        body = rewrite(f.node.body, taken)
        if n_sites[0] != before:
            if used_locals:
                drop = {id(gen_locals[nm][0]) for nm in used_locals}

                class D(ast.NodeTransformer):
                    def visit_Assign(self, n):
                        return ast.copy_location(ast.Pass(), n) if id(n) in drop else n
                body = [D().visit(b) for b in body]
            f.node.body = body
    return n_sites[0]


def normalize_counting_while(P):
    """`v = A; while v >= B: BODY; v -= 1` is `for v in reversed(range(B, A + 1)): BODY` (and `v = A; while v < N:
    BODY; v += 1` is `for v in range(A, N): BODY`) when BODY neither assigns v elsewhere nor uses `continue`, and v
    is not read after the loop.  `X - 1 + 1` is written `X`, `range(0, n)` is written `range(n)`."""
    import copy
    n_sites = [0]

    def plus1(e):
        if isinstance(e, ast.BinOp) and isinstance(e.op, ast.Sub) and isinstance(e.right, ast.Constant) and e.right.value == 1:
            return copy.deepcopy(e.left)
        if isinstance(e, ast.Constant) and isinstance(e.value, int):
            return ast.Constant(value=e.value + 1)
        return ast.BinOp(left=copy.deepcopy(e), op=ast.Add(), right=ast.Constant(value=1))

    def mk_range(lo, hi):
        args = [hi] if isinstance(lo, ast.Constant) and lo.value == 0 else [lo, hi]
        return ast.Call(func=ast.Name(id="range", ctx=ast.Load()), args=args, keywords=[])

    def conv(block, i, fn_node):
        init, loop = block[i], block[i + 1]
        if not (isinstance(init, ast.Assign) and len(init.targets) == 1 and isinstance(init.targets[0], ast.Name) and isinstance(loop, ast.While) and not loop.orelse):
            return None
        v = init.targets[0].id
        t = loop.test
        if not (isinstance(t, ast.Compare) and len(t.ops) == 1 and isinstance(t.left, ast.Name) and t.left.id == v):
            return None
        body = loop.body
        if not body or not (isinstance(body[-1], ast.AugAssign) and isinstance(body[-1].target, ast.Name) and body[-1].target.id == v
                            and isinstance(body[-1].value, ast.Constant) and body[-1].value.value == 1):
            return None
        step = body[-1].op
        rest = body[:-1]
        for s_ in rest:
            for n in ast.walk(s_):
                if isinstance(n, ast.Continue):
                    return None
                if isinstance(n, ast.Name) and n.id == v and isinstance(n.ctx, (ast.Store, ast.Del)):
                    return None
        bound = t.comparators[0]
        if any(isinstance(n, ast.Name) and n.id == v for n in ast.walk(bound)):
            return None
        # the bound is evaluated once by `range`: it has to be invariant in the loop (no call, nothing the body stores)
        stored = {n.id for s_ in rest for n in ast.walk(s_) if isinstance(n, ast.Name) and isinstance(n.ctx, (ast.Store, ast.Del))}
        attr_stores = any(isinstance(n, (ast.Attribute, ast.Subscript)) and isinstance(n.ctx, (ast.Store, ast.Del)) for s_ in rest for n in ast.walk(s_))
        if any(isinstance(n, ast.Call) for n in ast.walk(bound)) or any(isinstance(n, ast.Name) and n.id in stored for n in ast.walk(bound)) \
                or (attr_stores and any(isinstance(n, (ast.Attribute, ast.Subscript)) for n in ast.walk(bound))):
            return None
        # v must not be read after the loop
        after = block[i + 2:]
        if any(isinstance(n, ast.Name) and n.id == v and isinstance(n.ctx, ast.Load) for s_ in after for n in ast.walk(s_)):
            return None
        if isinstance(step, ast.Sub) and isinstance(t.ops[0], (ast.GtE, ast.Gt)):
            lo = copy.deepcopy(bound) if isinstance(t.ops[0], ast.GtE) else plus1(bound)
            it = ast.Call(func=ast.Name(id="reversed", ctx=ast.Load()), args=[mk_range(lo, plus1(init.value))], keywords=[])
        elif isinstance(step, ast.Add) and isinstance(t.ops[0], (ast.Lt, ast.LtE)):
            hi = copy.deepcopy(bound) if isinstance(t.ops[0], ast.Lt) else plus1(bound)
            it = mk_range(copy.deepcopy(init.value), hi)
        else:
            return None
        new = ast.For(target=ast.Name(id=v, ctx=ast.Store()), iter=it, body=rest or [ast.Pass()], orelse=[])
        ast.copy_location(new, loop)
        for x in ast.walk(new):
            if not hasattr(x, "lineno"):
                ast.copy_location(x, loop)
        n_sites[0] += 1
        return ast.fix_missing_locations(new)

    def rewrite(block, fn_node):
        out = []
        i = 0
        while i < len(block):
            s_ = block[i]
            for fld in ("body", "orelse", "finalbody"):
                sub = getattr(s_, fld, None)
                if isinstance(sub, list) and sub and isinstance(sub[0], ast.stmt):
                    setattr(s_, fld, rewrite(sub, fn_node))
            if isinstance(s_, ast.Try):
                for h in s_.handlers:
                    h.body = rewrite(h.body, fn_node)
            new = conv(block, i, fn_node) if i + 1 < len(block) else None
            if new is not None:
                out.append(new)
                i += 2
                continue
            out.append(s_)
            i += 1
        return out

    for f in list(P.funcs.values()):
        if f.module.is_tools or f.parent is not None:
            continue
        if not any(isinstance(n, ast.While) for n in ast.walk(f.node)):
            continue
        before = n_sites[0]
        body = rewrite(f.node.body, f.node)
        if n_sites[0] != before:
            f.node.body = body
    return n_sites[0]


def unroll_display_loops(P):
    """`for x in (a, b): BODY` over a short display of plain names / constants is BODY with a, then BODY with b."""
    import copy
    n_sites = [0]

    def conv(s_):
        if not (isinstance(s_, ast.For) and not s_.orelse and isinstance(s_.target, ast.Name) and isinstance(s_.iter, (ast.Tuple, ast.List))):
            return None
        elts = s_.iter.elts
        if not (1 <= len(elts) <= 4) or not all(isinstance(e, (ast.Name, ast.Constant)) or (isinstance(e, ast.Attribute) and isinstance(e.value, ast.Name)) for e in elts):
            return None
        v = s_.target.id
        for b in s_.body:
            for n in ast.walk(b):
                if isinstance(n, (ast.Break, ast.Continue, ast.Yield, ast.YieldFrom, ast.FunctionDef, ast.Lambda)):
                    return None
                if isinstance(n, ast.Name) and n.id == v and isinstance(n.ctx, (ast.Store, ast.Del)):
                    return None
        out = []
        for e in elts:
            class Sub(ast.NodeTransformer):
                def visit_Name(self, n):
                    if n.id == v and isinstance(n.ctx, ast.Load):
                        return ast.copy_location(copy.deepcopy(e), n)
                    return n
            for b in s_.body:
                out.append(Sub().visit(copy.deepcopy(b)))
        n_sites[0] += 1
        return out

    def rewrite(block):
        res = []
        for s_ in block:
            for fld in ("body", "orelse", "finalbody"):
                sub = getattr(s_, fld, None)
                if isinstance(sub, list) and sub and isinstance(sub[0], ast.stmt):
                    setattr(s_, fld, rewrite(sub))
            if isinstance(s_, ast.Try):
                for h in s_.handlers:
                    h.body = rewrite(h.body)
            new = conv(s_)
            if new is not None:
                res.extend(new)
            else:
                res.append(s_)
        return res

    for f in list(P.funcs.values()):
        if f.module.is_tools or f.parent is not None:
            continue
        if not any(isinstance(n, ast.For) and isinstance(n.iter, (ast.Tuple, ast.List)) for n in ast.walk(f.node)):
            continue
        before = n_sites[0]
        body = rewrite(f.node.body)
        if n_sites[0] != before:
            f.node.body = [ast.fix_missing_locations(b) for b in body]
    return n_sites[0]


def normalize_suppress(P):
    """`with contextlib.suppress(E1, E2): BODY` is `try: BODY except (E1, E2): pass`."""
    import copy
    n_sites = [0]

    def conv(s_, f):
        if not (isinstance(s_, ast.With) and len(s_.items) == 1 and s_.items[0].optional_vars is None and isinstance(s_.items[0].context_expr, ast.Call)):
            return None
        c = s_.items[0].context_expr
        nm = ast.unparse(c.func)
        imp = f.module.imports.get(nm.split(".")[0])
        ok = (nm == "contextlib.suppress" and imp is not None and imp[0] == "ext" and imp[1] == "contextlib") or \
             (nm == "suppress" and imp is not None and imp[0] == "ext" and imp[1] == "contextlib.suppress")
        if not ok or c.keywords or not c.args:
            return None
        typ = copy.deepcopy(c.args[0]) if len(c.args) == 1 else ast.Tuple(elts=[copy.deepcopy(a) for a in c.args], ctx=ast.Load())
        new = ast.Try(body=s_.body, handlers=[ast.ExceptHandler(type=typ, name=None, body=[ast.Pass()])], orelse=[], finalbody=[])
        ast.copy_location(new, s_)
        for x in ast.walk(new):
            if not hasattr(x, "lineno"):
                ast.copy_location(x, s_)
        n_sites[0] += 1
        return ast.fix_missing_locations(new)

    def rewrite(block, f):
        res = []
        for s_ in block:
            for fld in ("body", "orelse", "finalbody"):
                sub = getattr(s_, fld, None)
                if isinstance(sub, list) and sub and isinstance(sub[0], ast.stmt):
                    setattr(s_, fld, rewrite(sub, f))
            if isinstance(s_, ast.Try):
                for h in s_.handlers:
                    h.body = rewrite(h.body, f)
            new = conv(s_, f)
            res.append(new if new is not None else s_)
        return res

    for f in list(P.funcs.values()):
        if f.module.is_tools or f.parent is not None:
            continue
        if not any(isinstance(n, ast.With) for n in ast.walk(f.node)):
            continue
        before = n_sites[0]
        body = rewrite(f.node.body, f)
        if n_sites[0] != before:
            f.node.body = body
    return n_sites[0]


def normalize_yield_from_genexp(P):
    """`yield from (e for t in it if c)` is `for t in it: if c: yield e`."""
    import copy
    n_sites = [0]

    def conv(s_):
        if isinstance(s_, ast.Expr) and isinstance(s_.value, ast.YieldFrom) and isinstance(s_.value.value, ast.Call):
            # yield from map(f, xs)  /  yield from map(itemgetter(k), xs)
            c = s_.value.value
            if isinstance(c.func, ast.Name) and c.func.id == "map" and len(c.args) == 2 and not c.keywords:
                fn, xs = c.args
                v = ast.Name(id="_mv", ctx=ast.Load())
                if isinstance(fn, ast.Call) and ast.unparse(fn.func) in ("itemgetter", "operator.itemgetter") and len(fn.args) == 1 and isinstance(fn.args[0], ast.Constant):
                    elt = ast.Subscript(value=v, slice=copy.deepcopy(fn.args[0]), ctx=ast.Load())
                elif isinstance(fn, (ast.Name, ast.Attribute)):
                    elt = ast.Call(func=copy.deepcopy(fn), args=[v], keywords=[])
                else:
                    return None
                new = ast.For(target=ast.Name(id="_mv", ctx=ast.Store()), iter=copy.deepcopy(xs), body=[ast.Expr(value=ast.Yield(value=elt))], orelse=[])
                ast.copy_location(new, s_)
                for x in ast.walk(new):
                    if not hasattr(x, "lineno"):
                        ast.copy_location(x, s_)
                n_sites[0] += 1
                return ast.fix_missing_locations(new)
        if not (isinstance(s_, ast.Expr) and isinstance(s_.value, ast.YieldFrom) and isinstance(s_.value.value, ast.GeneratorExp)):
            return None
        g = s_.value.value
        if any(c.is_async for c in g.generators):
            return None
        inner = [ast.Expr(value=ast.Yield(value=copy.deepcopy(g.elt)))]
        for comp in reversed(g.generators):
            for cond in reversed(comp.ifs):
                inner = [ast.If(test=copy.deepcopy(cond), body=inner, orelse=[])]
            tgt = copy.deepcopy(comp.target)
            for x in ast.walk(tgt):
                if isinstance(x, (ast.Name, ast.Tuple, ast.List, ast.Starred)):
                    x.ctx = ast.Store()
            inner = [ast.For(target=tgt, iter=copy.deepcopy(comp.iter), body=inner, orelse=[])]
        new = inner[0]
        ast.copy_location(new, s_)
        for x in ast.walk(new):
            if not hasattr(x, "lineno"):
                ast.copy_location(x, s_)
        n_sites[0] += 1
        return ast.fix_missing_locations(new)

    def rewrite(block):
        res = []
        for s_ in block:
            for fld in ("body", "orelse", "finalbody"):
                sub = getattr(s_, fld, None)
                if isinstance(sub, list) and sub and isinstance(sub[0], ast.stmt):
                    setattr(s_, fld, rewrite(sub))
            if isinstance(s_, ast.Try):
                for h in s_.handlers:
                    h.body = rewrite(h.body)
            new = conv(s_)
            res.append(new if new is not None else s_)
        return res

    for f in list(P.funcs.values()):
        if f.module.is_tools or f.parent is not None or not f.is_generator:
            continue
        if not any(isinstance(n, ast.YieldFrom) and isinstance(n.value, (ast.GeneratorExp, ast.Call)) for n in ast.walk(f.node)):
            continue
        taken = {n.id for n in ast.walk(f.node) if isinstance(n, ast.Name) and not any(n is x for ge in ast.walk(f.node) if isinstance(ge, ast.GeneratorExp) for x in ast.walk(ge))}
        taken |= set(f.all_params())
        # comprehension variables must not collide with the function's own names
        gvars = {x.id for ge in ast.walk(f.node) if isinstance(ge, ast.GeneratorExp) for c in ge.generators for x in ast.walk(c.target) if isinstance(x, ast.Name)}
        if gvars & (taken - {"_"}):
            continue
        before = n_sites[0]
        body = rewrite(f.node.body)
        if n_sites[0] != before:
            f.node.body = body
    return n_sites[0]
