"""Call-site normal form: keyword arguments that name the next positional parameters of a uniquely resolved
callee become positional.  `self._set(node_hash=h, keypath=k, value=v)` and `self._set(h, k, v)` are the same
call for every rule (terms, argument indices, bind_args).  Only leading keywords in parameter order are moved,
so the evaluation order of the argument expressions is unchanged."""
import ast


def _calls(fn_node):
    """Call nodes of a function body, entering lambdas / comprehensions but not nested defs or classes."""
    stack = list(ast.iter_child_nodes(fn_node))
    while stack:
        n = stack.pop()
        if isinstance(n, (ast.FunctionDef, ast.AsyncFunctionDef, ast.ClassDef)):
            continue
        if isinstance(n, ast.Call):
            yield n
        stack.extend(ast.iter_child_nodes(n))


def _signature(tg):
    """-> positional parameter names the call's arguments bind to, or None"""
    if tg.kind == "def":
        g = tg.func
        if g.vararg:
            return None
        ps = list(g.params)
        if g.cls is not None and not g.is_static:
            # bound call (instance receiver, or classmethod through the class): the first parameter is taken
            if tg.recv is not None or g.is_classmethod:
                ps = ps[1:]
        return ps
    if tg.kind == "ctor" and tg.cls is not None and hasattr(tg.cls, "methods"):
        g = tg.cls.methods.get("__init__") or tg.cls.methods.get("__new__")
        if g is None or g.vararg:
            return None
        return list(g.params)[1:]
    return None


def normalize_calls(P, R):
    moved = 0
    for f in list(P.funcs.values()):
        for call in _calls(f.node):
            if not call.keywords or any(isinstance(a, ast.Starred) for a in call.args) or any(k.arg is None for k in call.keywords):
                continue
            try:
                tgs = R.resolve_call(call, f, count=False)
            except Exception:
                continue
            sigs = [_signature(t) for t in tgs]
            if not sigs or any(s is None for s in sigs) or any(s != sigs[0] for s in sigs[1:]):
                continue
            params = sigs[0]
            while call.keywords and len(call.args) < len(params) and call.keywords[0].arg == params[len(call.args)]:
                call.args.append(call.keywords.pop(0).value)
                moved += 1
    return moved
