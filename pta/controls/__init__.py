"""Positive controls for rules whose expected number of findings is zero.

Each control is a tiny synthetic package (never py-trie's code) on which the rule
MUST report a violation; it is evaluated on every run, so that "no finding" on
py-trie means absence and not blindness of the rule."""

HEXARY_CTL = '''
class HexaryTrie:
    def __init__(self, db, prune=False):
        self.db = db
        self.root_hash = b""
        self.is_pruning = prune
        self._ref_count = None
        self._pending_prune_keys = None

    def get(self, key):
        self.root_hash = key          # a reader that writes
        return self._get(key)

    def _get(self, key):
        return self.db[key]

    def exists(self, key):
        return self.get(key) != b""

    def __getitem__(self, key):
        return self.get(key)

    def __contains__(self, key):
        return self.exists(key)

    def forget(self, key):
        del self.db[key]              # a delete outside the pruning arm

    def put(self, key, value):
        self.db[key] = value + b"!"   # a write whose key is not keccak(value)
'''

FOG_CTL = '''
from sortedcontainers import SortedSet


class HexaryTrieFog:
    def __init__(self):
        self._unexplored_prefixes = SortedSet({()})

    def explore(self, prefix):
        self._unexplored_prefixes.remove(prefix)   # mutates the receiver
        return self._new_trie_fog(self._unexplored_prefixes)

    @classmethod
    def _new_trie_fog(cls, prefixes):
        copy = cls()
        copy._unexplored_prefixes = prefixes
        return copy
'''

IDENT_CTL = '''
BLANK = b""


def validate_is_bytes(value):
    if value is BLANK:                # identity test on a bytes value
        return
    if not isinstance(value, bytes):
        raise TypeError(value)
'''

VALMSG_CTL = '''
from eth_utils import ValidationError      # a foreign class under the package's name


def validate_is_bytes(value):
    if not isinstance(value, bytes):
        raise ValidationError("not bytes: %r" % value)   # TypeError for a tuple argument
'''

ARGX_CTL = '''
def validate_length(value, length):
    if len(value) != length:
        raise ValueError(value)


def validate_is_node(node, length):
    validate_length(length, node)     # crossed
'''

MUTDEF_CTL = '''
def validate_is_bytes(value, seen=[]):
    seen.append(value)                # the one default list grows with every call
    if not isinstance(value, bytes):
        raise TypeError(value)
'''

CONTROLS = {
    "MUTDEF": (None, {"trie/validation.py": MUTDEF_CTL}, "no-shared-mutable-default"),
    "ARGX": (None, {"trie/validation.py": ARGX_CTL}, "crossed-arguments:validate_is_node"),
    "VALMSG": (None, {"trie/validation.py": VALMSG_CTL}, "refusal-message:validate_is_bytes"),
    "EXCORIGIN": (None, {"trie/validation.py": VALMSG_CTL}, "exception-origin:trie.validation:ValidationError"),
    "IDENT": (None, {"trie/validation.py": IDENT_CTL}, "identity-test:validate_is_bytes"),
    # rule id -> (property to run it as, sources, substring of a construct that must be a violation)
    "EFF2": ("C04", {"trie/hexary.py": HEXARY_CTL}, "entry:HexaryTrie.forget"),
    "EFF4": ("C01", {"trie/hexary.py": HEXARY_CTL}, "reader:HexaryTrie.get"),
    "EFF3": ("C04", {"trie/hexary.py": HEXARY_CTL}, "dbwrite:HexaryTrie.put"),
    "AL1": ("C11", {"trie/fog.py": FOG_CTL}, "receiver-pure:HexaryTrieFog.explore"),
}
