"""Engine self-test (thorough tier): the path walker against CPython on synthetic code.

Assumption A3 of DESIGN.md is that walk.py models Python's control flow (RHS before store, typed
handlers, else / finally, break / continue, short-circuit, conditional expressions, generator context
managers).  Here a handful of *synthetic* functions (this file's own text, never py-trie code) are
executed under every fault scenario of their probe calls, and every concrete trace must be among the
paths the walker enumerates for the same function.  A miss is an engine defect (ANALYSIS-ERROR)."""
import ast
import itertools

from ..model import Program
from ..resolve import Resolver
from ..walk import Walker

SRC = '''
def f_try(c):
    r = []
    try:
        x = c("a")
        r.append(x)
    except KeyError:
        c("h1")
    except ValueError as e:
        c("h2")
        raise
    else:
        c("e")
    finally:
        c("f")
    c("after")
    return r


def f_store(c):
    v = 0
    try:
        v = c("a") + c("b")
    except KeyError:
        return ("handled", v)
    return ("ok", v)


def f_loop(c, items):
    out = 0
    for it in items:
        if c("t"):
            continue
        c("body")
        if it:
            break
        out += 1
    else:
        c("else")
    return out


def f_while(c):
    n = 0
    while c("test"):
        n += 1
        try:
            c("w")
        except KeyError:
            break
        finally:
            c("wf")
    return n


def f_bool(c):
    if c("p") and c("q") or c("r"):
        return c("yes")
    return c("no") if c("s") else 0


def f_nested(c):
    try:
        try:
            c("a")
        finally:
            c("inner")
    except ValueError:
        c("outer")
        return 1
    return 2


def f_with(c, cm):
    with cm(c):
        c("body")
    c("after")


def g_cm(c):
    c("enter")
    try:
        yield
        c("commit")
    except KeyError:
        c("rollback")
        raise
    finally:
        c("reset")
'''

PROBES = {
    "f_try": ["a", "h1", "h2", "e", "f", "after"],
    "f_store": ["a", "b"],
    "f_loop": ["t", "body", "else"],
    "f_while": ["test", "w", "wf"],
    "f_bool": ["p", "q", "r", "yes", "no", "s"],
    "f_nested": ["a", "inner", "outer"],
    "f_with": ["body", "after"],
    "g_cm": ["enter", "commit", "rollback", "reset"],
}
EXCS = {"KeyError": KeyError, "ValueError": ValueError}


class Tracer:
    def __init__(self, plan):
        self.plan = plan  # name -> list of outcomes consumed in order: True/False (return value) or exception name
        self.trace = []
        self.count = {}

    def __call__(self, name):
        i = self.count.get(name, 0)
        self.count[name] = i + 1
        seq = self.plan.get(name, [True])
        out = seq[i] if i < len(seq) else seq[-1]
        if isinstance(out, str):
            self.trace.append((name, out))
            raise EXCS[out](name)
        self.trace.append((name, "ok"))
        return out


def _concrete(fn, kind, plan, extra=None):
    t = Tracer(plan)
    try:
        if kind == "gen":
            g = fn(t)
            next(g)
            try:
                if extra == "throw":
                    g.throw(KeyError("body"))
                elif extra == "throwV":
                    g.throw(ValueError("body"))
                else:
                    next(g)
            except StopIteration:
                return t.trace, ("return",)
        else:
            args = extra if extra is not None else ()
            fn(t, *args)
        return t.trace, ("return",)
    except (KeyError, ValueError) as e:
        return t.trace, ("raise", type(e).__name__)


def run(unroll=2):
    """-> (number of concrete traces checked, list of mismatch descriptions)"""
    ns = {}
    exec(compile(SRC, "<walk controls>", "exec"), ns)  # synthetic code of this file only
    prog = Program({"trie/ctl.py": SRC})
    res = Resolver(prog)
    problems = []
    n = 0

    def raises(node, f):
        if isinstance(node, ast.Call) and isinstance(node.func, ast.Name) and node.func.id == "c":
            return [("KeyError", ("probe", "KeyError")), ("ValueError", ("probe", "ValueError"))]
        if isinstance(node, ast.Call) and isinstance(node.func, ast.Name) and node.func.id == "cm":
            return [("KeyError", ("cm", "KeyError"))]
        return []

    for name, probes in PROBES.items():
        f = prog.funcs["trie.ctl:" + name]
        w = Walker(f, res, raises=raises, unroll=unroll, yield_throw=(name == "g_cm"))
        paths = w.paths()
        proj = set()
        for p in paths:
            seq = []
            for ev in p.events:
                if ev.k == "call" and isinstance(ev.node, ast.Call) and isinstance(ev.node.func, ast.Name) and ev.node.func.id == "c":
                    seq.append((ev.node.args[0].value, "ok" if ev.a == "ok" else ev.a))
                elif ev.k == "yield":
                    seq.append(("<yield>", ev.a))
            ex = ("raise", p.exit[1]) if p.exit[0] == "raise" else ("return",)
            proj.add((tuple(seq), ex))
        # fault scenarios: each probe returns True / False / raises, for up to two invocations
        choices = [True, False, "KeyError", "ValueError"]
        if name == "g_cm":
            extras = [None, "throw", "throwV"]
            kind = "gen"
        elif name == "f_loop":
            extras = [([],), ([0],), ([1],), ([0, 1],), ([0, 0],)]
            kind = "fn"
        elif name == "f_with":
            extras = ["cm"]
            kind = "fn"
        else:
            extras = [None]
            kind = "fn"
        for extra in extras:
            for combo in itertools.product(choices, repeat=len(probes)):
                for second in (True, False):
                    plan = {pn: [combo[i], second if isinstance(combo[i], bool) else combo[i]] for i, pn in enumerate(probes)}
                    if name == "f_while":
                        plan["test"] = [combo[0], False if combo[0] is True else combo[0]]
                    ex_arg = extra
                    if name == "f_with":
                        import contextlib

                        @contextlib.contextmanager
                        def cm(c_):
                            yield
                        ex_arg = (cm,)
                    trace, exit_ = _concrete(ns[name], kind, plan, ex_arg)
                    n += 1
                    want = tuple(trace)
                    if name == "g_cm":
                        # insert the yield outcome where the generator was suspended
                        k = 1 if trace and trace[0] == ("enter", "ok") else None
                        if k is None:
                            want = tuple(trace)
                        else:
                            mode = "throw" if extra in ("throw", "throwV") else "resume"
                            want = tuple(trace[:1]) + (("<yield>", mode),) + tuple(trace[1:])
                        ex2 = exit_
                        if exit_[0] == "raise" and extra in ("throw", "throwV") and not any(o != "ok" for _, o in trace[1:]):
                            ex2 = ("raise", "ANY")  # the thrown exception propagates: modelled as ANY
                        ok = (want, ex2) in proj or (want, exit_) in proj
                    else:
                        ok = (want, exit_) in proj
                    if not ok:
                        problems.append("%s: concrete trace %s exit %s (args %s) is not among the %d enumerated paths" % (name, list(want), exit_, extra, len(paths)))
                        if len(problems) > 5:
                            return n, problems
    return n, problems
