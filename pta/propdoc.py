"""Per-property texts for the evidence files and MANIFEST.json."""

ASSUMPTIONS = [
    "A1: the db object handed to a trie behaves as a mapping; keccak has no collisions",
    "A2: bytes read from the db under a hash are an encoding some trie wrote (well-formed nodes)",
    "A3: Python semantics as modelled by the path walk (RHS before store, try/except/else/finally, generator "
    "context managers); exception sources modelled: explicit raise, db-like subscripts, sorted-set subscripts, "
    "tabled external callees, tabled container methods",
    "A4: no monkey-patching / subclass overriding of the analysed classes",
]

# id -> (decided clauses, not decided, technique)
DOC = {
    "C01": ("a lookup on a complete db cannot raise (EXC1 with the traversal summary ABS1 and dispatch exhaustiveness ABS2 as "
            "feasibility oracle); set(k, b'') is routed to delete (ROUTE1); dict syntax / exists are the method semantics (SIB1); "
            "a value slot is returned only when the key is fully consumed (ABS3); lookups have no write effect (EFF4)",
            "equality with a map model over all histories (split/merge arithmetic of insert and delete)",
            "exception-flow + abstract interpretation (Kind/Len) over enumerated paths; effect summaries"),
    "C02": ("embed-vs-hash threshold is `len < 32` in writer and reader (SIB9); hex-prefix flag table equals the Yellow Paper table "
            "(SIB6); root always hashed and stored, blank root is the constant (ABS6); branch normalised on every path that may blank "
            "a slot (TS3); no empty extension path can be built (TS4); branch arity literals agree (SIB11)",
            "root equality with the reference MPT; order independence",
            "writer/reader agreement by constant propagation; typestate over enumerated paths; interval domain"),
    "C03": ("every visited node is in the proof before descent/return (TS5); verifier db is fresh, filled only from proof nodes, keyed "
            "by their keccak (EFF3, AL5); only BadTrieProof or argument validation can leave get_from_proof (EXC1, EXC5)",
            "that no forged list of well-formed nodes yields a wrong value (cryptographic / value level)",
            "exception-flow with context-sensitive feasibility; def-use binding of db keys; accumulator typestate"),
    "C04": ("only the pruning arm deletes db entries, on every call chain from every public entry (EFF2); every db write is "
            "db[keccak(v)] = v (EFF3); do_deletes is the outer is_pruning (PROV4, PROV12); at_root is a non-pruning view of the same db "
            "(AL4); the root pointer is assigned after the last write (ORD1)",
            "keccak collision freedom, honesty of the db object (assumed)",
            "interprocedural must-guard analysis on effect summaries; def-use binding; path ordering"),
    "C05": ("outer state is assigned only on paths after the commit block completed normally (ORD5); ScratchDB commit discipline "
            "(ORD4); the batch shares no mutable outer state (AL2a); no outer ref-count increment after the commit (AL2b); the batch trie "
            "is constructed pruning over a ScratchDB of self.db (PROV8); do_deletes provenance (PROV4)",
            "canonical root of the result; 'no intermediate node added' as a value-level fact",
            "outcome-based path analysis of generator context managers; alias / freshness analysis"),
    "C06": ("reference counts are incremented only together with the db write and decremented only on the success path (EFF1 pairing, "
            "ORD3); every visited node is scheduled for pruning (TS1); every absorbed node is scheduled (TS2); squash does not count "
            "twice (AL2b)",
            "exact equality db == reachable set; the short-root special case",
            "typestate (must-pass-through) over enumerated paths; effect pairing"),
    "C07": ("every db read on the entry points is covered by a KeyError -> Missing* conversion (EXC2); constructor-argument "
            "provenance of the Missing* exceptions (EXC3); all fallible reads precede the first effective write (ORD2); pruning applied "
            "on success only and the pending set reset on all exits (ORD3); _PartialTraversal never escapes (EXC4)",
            "convergence of retry loops",
            "exception-flow analysis; provenance of constructor arguments by symbolic terms; read/write ordering"),
    "C08": ("partial-path is raised iff the residual key is non-empty and only for leaf/extension (ABS1); traverse and traverse_from "
            "share one tail, root_node is the zero-length traverse (SIB2); annotate_node fields by node kind (SIB8, ABS3); all 16 child "
            "slots enumerated ascending (SIB11); one db read per hop (ABS5); simulated node trimmed by exactly len(tail) (PROV7); "
            "frontier-cache coherence (PROV5)",
            "'blank exactly when no stored key starts with path'",
            "abstract traversal summary (Kind x Len); sibling skeleton comparison; provenance"),
    "C10": ("strictness of the two successor comparisons (REL1); keys/values are projections of items/nodes with one filter (SIB3); "
            "left-to-right, value-before-children, leftmost-first (ITER1); key reconstruction adds exactly the traversed segment (ABS4 "
            "instances); frontier-cache coherence (PROV5)",
            "ordering and completeness of the emitted sequence as a value-level fact",
            "relation normal forms on provenance-identified operands; sibling projection comparison"),
    "C11": ("the receiver is never mutated and results are fresh objects (AL1); nearest_* return an element of the set (PROV1); "
            "PerfectVisibility / FullDirectionalVisibility only from the emptiness / out-of-range probe (EXC7); explore result = copy - "
            "old + {old+seg} unfiltered (PROV6); serialize/deserialize are duals (SIB10); Nibbles validation (VAL4)",
            "the antichain invariant over all reachable sets, commutation, the distance metric",
            "alias / freshness analysis; exception provenance; dual-pair comparison"),
    "C12": ("only _hash_and_save writes, nothing deletes (EFF1); db[keccak(n)] = n (EFF3); the root is assigned only from the "
            "completed _set result (ORD1); delete / delete_subtrie routing (ROUTE2); bit -> child convention identical at every site "
            "(SIB4); dispatch exhaustive (ABS2); no kv->kv chain can be built, subtree erasure only under if_delete_subtrie (TS7)",
            "map model including the NodeOverrideError cases; canonical shape after arbitrary histories",
            "effect summaries; path ordering; sibling agreement; typestate over enumerated paths"),
    "C13": ("the walkers agree with BinaryTrie._get on descent conditions (SIB4); the node is yielded before every descent (TS6); the "
            "verifier db is keyed by keccak (EFF3); helpers never write and yield only db-loaded values (EFF4, PROV3)",
            "sufficiency for every key below a prefix; unforgeability",
            "sibling agreement; typestate; effect summaries"),
    "C14": ("delete writes the configured default (PROV2); sibling orientation and bit direction agree in _get / set / calc_root "
            "(SIB5); db[keccak(n)] = n (EFF3); nothing is ever deleted from the db (EFF1); reads precede writes in set (ORD2); returned "
            "hashes are root->leaf (PROV10); blank reads as KeyError in get and branch alike (SIB12); from_db forwards its "
            "configuration (PROV13); argument validation (VAL1/2)",
            "Merkle-root equality with the full tree",
            "provenance; sibling agreement; def-use binding; effect summaries"),
    "C15": ("the shortness check dominates the only branch write and is the exact bound (ORD6, REL2); the same-key path writes only "
            "the value, the other-key path exactly one branch slot (EFF5); defensive copy in, fresh tuple out (AL3); the root is derived "
            "on demand from key/value/branch (PROV11)",
            "equality with the tree over all update streams (bit arithmetic locating the branch point)",
            "dominance on enumerated paths; relation normal form; per-path effect sets; freshness"),
    "C16": ("hex-prefix flag table writer == reader == specification (SIB6); binary node layout writer == reader, type bytes agree "
            "(SIB7); every malformed class raises InvalidNode (EXC6); kind classifiers agree, leaf/extension key duals (SIB8); the reverse "
            "nibble table is derived from the forward table (PROV9)",
            "bit-level arithmetic of encode_to_bin / decode_from_bin and of the key-path packing",
            "abstract evaluation by constant propagation under finite case splits; writer/reader layout comparison"),
    "C17": ("the wrapped db is written only on the resumed-normally outcome of the yield, the exception outcome re-raises, the cache "
            "is reset on every exit (ORD4); deletes are guarded by do_deletes and the DELETED marker (PROV12); __setitem__ / "
            "__delitem__ touch only the cache (EFF1); read-through decision tables of __getitem__ / __contains__ (ABS7); copy() is "
            "fresh (AL3); readers do not write (EFF4)",
            "dict semantics of the wrapped object (assumed)",
            "outcome-based path analysis of the generator context manager; decision tables by path enumeration"),
    "C18": ("every parameter of every public entry point that reaches a byte-consuming sink is dominated by the right validator, "
            "which also dominates every write effect (VAL1, VAL2); constructor guards (VAL3); Nibbles has exactly three exits (VAL4)",
            "nothing further within the scope stated in DESIGN.md 4.18",
            "taint-style validation dominance over enumerated paths, interprocedural forwarding"),
}

EXPLANATION = {
    pid: "Static analysis of the current source of /repo/trie (nothing is executed). Decided, for all paths of the code: %s. "
         "NOT decided (value-level remainder): %s." % (d[0], d[1])
    for pid, d in DOC.items()
}
