"""Per-property texts for the evidence files and MANIFEST.json."""

ASSUMPTIONS = [
    "A1: the db object handed to a trie behaves as a mapping; keccak has no collisions",
    "A2: bytes read from the db under a hash are an encoding some trie wrote (well-formed nodes)",
    "A3: Python semantics as modelled by the path walk (RHS before store, try/except/else/finally, generator "
    "context managers); exception sources modelled: explicit raise, db-like subscripts, sorted-set subscripts, "
    "tabled external callees, tabled container methods",
    "A4: no monkey-patching / subclass overriding of the analysed classes from outside the package; inside the package both are checked "
    "(module-level statements other than imports / defs / classes / plain bindings, rebinding defs, overriding subclasses, untabled "
    "decorators, global / nonlocal: the run fails closed, exit 2); no default argument is a shared mutable container (MUTDEF, every property)",
]

# id -> (decided clauses, not decided, technique)
DOC = {
    "C01": ("a lookup on a complete db cannot raise: every raise site reachable from get / exists / dunders is argument validation, an "
            "ill-formed-node self-check (A2) or infeasible under the (Kind, Len) traversal summary (EXC1 + ABS1 decision tables of "
            "_traverse_extension and of one hop of _traverse_from); set(k, b'') is routed to delete and the mutated node becomes the root "
            "(ROUTE1); dict syntax / exists are the method semantics (SIB1); a value slot is returned only when the key is fully consumed "
            "(ABS3); every recursion of insert / delete consumes exactly the matched nibbles (ABS4h, with the helper semantics HELP); lookups "
            "have no write effect (EFF4); with pruning on, a visited node is scheduled exactly once (TS1 bundle); exception classes are unrelated (EXCH), "
            "identity tests only against singletons (IDENT); the complete outcome tables of _set / _delete / _set_kv_node / _set_branch_node / "
            "_delete_kv_node / _delete_branch_node / _normalize_branch_node / _persist_node: under the conditions of every return path the "
            "returned term is the one a reference table prescribes (HEXTAB); decode_node table (DECODE); no crossed arguments (ARGX); the "
            "batch machinery of squash_changes under pruning (AL2, ORD5, ORD3, PRUNESTATE)",
            "equality with a map model over all histories (value-level correctness of the split / merge arithmetic beyond the offsets)",
            "exception-flow with context-sensitive feasibility; abstract interpretation (Kind/Len/difference bounds) over enumerated paths; effect summaries"),
    "C02": ("embed-vs-hash threshold is len(rlp) < 32 in writer and reader, hashed children are 32 bytes (SIB9); hex-prefix flag tables "
            "equal the Yellow Paper table (SIB6); every non-blank root is hashed and stored, the blank root is the constant (ABS6); a branch "
            "is normalised on every path that may blank a slot (TS3); no empty extension path can be built (TS4); the child of every "
            "extension that is built is known to be a branch, i.e. extension+leaf/extension are merged (TS9); arity literals 16/17 agree (SIB11); "
            "mutations start from the stored root (ROUTE1); protocol constants by value (DEFAULTS); outcome tables of the insert / delete "
            "family incl. every merge / split shape (HEXTAB); decode_node (DECODE)",
            "root equality with the reference MPT; order independence",
            "writer/reader agreement by interval facts and constant propagation; typestate with Kind summaries over enumerated paths"),
    "C03": ("every visited non-blank node is in the tuple returned or passed down, per-kind stop/descend table, consumed lengths, immutable "
            "empty default accumulator (TS5); the verifier db starts empty / keccak-bound and every proof node is stored through "
            "_set_raw_node, which hashes and stores every non-blank node (EFF3, TS5, ABS6/SIB9); the answer is at_root(root).get(key); only "
            "BadTrieProof or argument validation can leave get_from_proof (EXC1, EXC5); the prover does not write (EFF4); the recursion of the "
            "prover passes its accumulators explicitly (FWD); the same table for the prover written as a generator that get_proof wraps in tuple(..): each non-blank node yielded exactly once before the descent (TS5, second form)",
            "that no forged list of well-formed nodes yields a wrong value (cryptographic / value level)",
            "exception-flow with context-sensitive feasibility; def-use binding of db keys; accumulator typestate"),
    "C04": ("only the pruning arm deletes db entries, on every call chain from every public entry, including failure handlers of db "
            "writes (EFF2); every db write is db[keccak(v)] = v (EFF3); do_deletes is the outer is_pruning and the commit loop deletes only "
            "DELETED markers under do_deletes (PROV4, PROV12); at_root is a non-pruning view of the same db (AL4); the root pointer is "
            "assigned after the last write (ORD1)",
            "keccak collision freedom, honesty of the db object (assumed)",
            "interprocedural must-guard analysis on effect summaries; def-use binding; path ordering with db-write fault outcomes"),
    "C05": ("outer state is assigned only on paths after the commit block completed normally, the batch is built and yielded inside it, "
            "the adopted root is the batch's (ORD5); ScratchDB commit discipline (ORD4, EFF1); the batch shares no mutable outer state "
            "(AL2a); no outer ref-count increment after the commit (AL2b); the batch trie is constructed pruning over a ScratchDB of self.db "
            "(PROV8); do_deletes provenance (PROV4); the structural part of 'canonical root of the resulting contents': embed threshold and "
            "root hashing (SIB9, ABS6), extension child is a branch (TS9); pruning bundle of the batch trie (TS1 / PENDG / EFF1); copy() hands "
            "out nothing shared (COPY)",
            "canonical root of the result beyond those shape rules; 'no intermediate node added' as a value-level fact",
            "outcome-based path analysis of generator context managers; alias / freshness analysis"),
    "C06": ("every visited node is scheduled exactly once (TS1), every absorbed node is scheduled (TS2); the pending increment is guarded "
            "exactly by {is_pruning, node stored by hash} (PENDG) and the short-root case exactly by {pruning, root not blank, root short, "
            "root in db} (PENDG2); counts are incremented only next to the db write, lowered only in _complete_pruning, an entry is deleted "
            "iff count - pending <= 0 (EFF1); pruning applied on success only, pending set reset on every exit (ORD3); squash shares no "
            "counts and does not count twice (AL2); deletes reach the real db only through the ScratchDB discipline (ORD4, PROV12); the "
            "reference recount regenerate_ref_count is the worklist table root -> skip b'' / embedded / blank hash -> += 1 -> branch: 16 "
            "children, extension: child (RECOUNT); count-table state: what __init__ installs, what ref_count reports, how a session opens, which "
            "count entries _complete_pruning keeps, what _set_raw_node stores, every pending increment is += 1 (PRUNESTATE); outcome tables (HEXTAB)",
            "exact equality db == reachable set and counts == multiplicities as value-level facts",
            "typestate (must-pass-through, exactly-once) over enumerated paths; guard tables; effect pairing"),
    "C07": ("every db read on the entry points is covered by a KeyError -> Missing* conversion of the right type, nothing is swallowed "
            "(EXC2); constructor-argument provenance of the Missing* exceptions incl. the consumed prefix (EXC3); a child is fetched only "
            "when the key continues into it (READPATH); no fallible read follows a write that may have taken effect (ORD2); pruning "
            "applied on success only and the pending set reset on all exits (ORD3); _PartialTraversal never escapes (EXC4); every payload "
            "accessor of the Missing* exceptions reads the slot its constructor fills from the same-named argument (EXCACC); an aborted batch "
            "leaves nothing behind in the outer trie: the batch is handed no mutable outer state, `a and b` counted by every operand (AL2, ADOPT)",
            "convergence of retry loops",
            "exception-flow analysis; provenance of constructor arguments by symbolic terms; read/write ordering"),
    "C08": ("decision tables of _traverse_extension and of one hop of _traverse_from, (Kind, Len) summary: a non-empty residual only with "
            "leaf / extension (ABS1); one db read per hop (ABS5); traverse / traverse_from share one tail, root_node is the zero-length "
            "traverse (SIB2); annotate_node field table per kind, 16 slots ascending (ANN, SIB8); simulated node trimmed by exactly "
            "len(tail), built as a new body, five refusals (PROV7); frontier-cache coherence (PROV5); canonical shape after deletes (TS9); "
            "helper semantics (HELP)",
            "'blank exactly when no stored key starts with path' as a value-level fact",
            "abstract traversal summary (Kind x Len); per-function decision tables; provenance"),
    "C10": ("strictness and operands of the two successor comparisons (REL1); next() shortcut only for None (ITER1); value before "
            "children, leftmost child first, nodes() expands nearest_right(()) (ITER1); keys/values are projections of items/nodes with "
            "one filter (SIB3); key reconstruction adds exactly the traversed segment (ABS4 instances); frontier-cache coherence (PROV5); "
            "next() without an argument means None (DEFAULTS); helper semantics (HELP); outcome tables of next / _get_key_after / "
            "_get_next_key (ITERTAB); nodes() hands the cache's (parent, remaining path) to traverse_from in that order",
            "ordering and completeness of the emitted sequence as a value-level fact",
            "relation normal forms on provenance-identified operands; sibling projection comparison"),
    "C11": ("the receiver is never mutated and results are built on fresh sets (AL1); nearest_* return an element of the set at an index "
            "derived from bisect (PROV1); PerfectVisibility / FullDirectionalVisibility only from the emptiness / out-of-range probe (EXC7); "
            "explore = copy - old + {old+seg} unfiltered, duplicate and nested segments refused with the full provenance of the nested check "
            "(PROV6); serialize / deserialize are duals without post-processing (SIB10); Nibbles conversion of every input (VAL4); index "
            "arithmetic of the nearest_* searches (PROV1b); the two visibility exceptions are unrelated classes (EXCH); polarity of every "
            "refusal and the __eq__ table (FOGPOL)",
            "the antichain invariant over all reachable sets, commutation, the distance metric",
            "alias / freshness analysis; exception provenance; dual-pair comparison"),
    "C12": ("only _hash_and_save writes, db[keccak(n)] = n (EFF3); the root is assigned only from the completed _set result (ORD1); "
            "delete / delete_subtrie routing (ROUTE2); decision table of _get and descent agreement (SIB4); slot roles of parsed nodes "
            "(ABS3b); split offsets and bit conventions (ABS4b); no kv->kv chain (TS7); a subtree is erased only under if_delete_subtrie / "
            "leaf / blank / emptied child (TS8); every NodeOverrideError refusal is reachable (LIVE); dispatch exhaustive (ABS2, SETTAB); the "
            "if_delete_subtrie flag is passed on unchanged by every recursion (FWD); no identity test on byte strings (IDENT); defaults "
            "and protocol constants by value (DEFAULTS); the complete outcome tables of _set_kv_node (SPLIT: erase / match / unchanged / refuse / "
            "split with len(K) - c and len(P) - c evaluated on a grid) and of _set_branch_node (BRTAB: rebuild / collapse over kv / other "
            "survivor); get / set / delete routing (ROUTE2); encoder guards (VALTAB)",
            "map model including the NodeOverrideError cases; canonical shape after arbitrary histories as a value-level fact",
            "effect summaries; path ordering; decision tables; typestate; difference-bound feasibility"),
    "C13": ("decision tables of _get, _check_if_branch_exist, _get_branch, _get_trie_nodes and the cross-table of the witness walker, "
            "descent agreement with the reference reader (SIB4); slot roles (ABS3b); the node is yielded before every descent (TS6); only "
            "db-loaded values are yielded (PROV3); the verifier db is keyed by keccak (EFF3); every `return True` of if_branch_valid is "
            "dominated by the non-empty check and the read at the claimed root, no other refusal (TS6); helpers never write (EFF4); the claimed "
            "root is what the verifier trie is opened at (FWD); the public helpers pass (db, root, encode_to_bin(key)) in order to their walker "
            "and if_branch_valid answers True; the witness adds the subtrie exactly on an exhausted key (ROUTE3); every kv / branch node the witness walk reaches is part of the witness whatever the comparison says (SIB4 witness table)",
            "sufficiency for every key below a prefix; unforgeability (value level)",
            "decision tables by path enumeration; typestate; effect summaries"),
    "C14": ("delete is set(key, configured default), the default comes from the constructor only (PROV2); from_db forwards its "
            "configuration (PROV13); nothing is ever deleted from the db (EFF1); bit direction and sibling orientation agree in _get / set / "
            "calc_root (SIB5); returned hashes are root->leaf (PROV10); reads precede writes in set (ORD2); blank reads as KeyError in get "
            "and branch alike (SIB12); dunders / exists (SIB1); db[keccak(n)] = n (EFF3); readers keep no state (EFF4, RSRC); the empty tree is "
            "depth levels folded up from the default leaf (SMTINIT); the leaf written by set is the given value, calc_root starts at "
            "keccak(value) (PROV10, SIB5); defaults by value (DEFAULTS); from_db passes its configuration on (FWD); the value _get hands back is the db entry under the leaf hash itself (PROV10 leaf-read)",
            "Merkle-root equality with the full tree",
            "provenance; sibling agreement; def-use binding; effect summaries"),
    "C15": ("the shortness check dominates the only branch write and is the exact bound len(node_updates) <= branch_point (ORD6, REL2); "
            "same-key path writes only the value, other-key path exactly _branch[bp] = node_updates[bp] with bp from the highest differing "
            "bit - a top-down scan must stop at its first hit (EFF5); copy in, fresh tuple out (AL3); root recomputed on demand (PROV11); update validates key type and length (VAL2); "
            "the tree's set / delete return what the proof consumes (PROV2, SIB5/PROV10)",
            "equality with the tree over all update streams",
            "dominance on enumerated paths; difference bounds; per-path effect sets; freshness"),
    "C16": ("hex-prefix tables writer == reader == specification (SIB6); binary node layout writer == reader, type bytes agree (SIB7); "
            "parse_node accepts exactly branch/65, kv/>33, leaf/>1 and rejects everything else with InvalidNode (EXC6); the five node "
            "classifiers agree on every node shape, leaf/extension key duals (SIB8); nibble tables and the range / parity refusals of "
            "nibbles_to_bytes (PROV9); bit order of encode_to_bin / decode_from_bin (weights 128..1, set bit written as 1) and the header "
            "layout of the key-path packing over the finite case split, the header choice evaluated for padded lengths 0..28 (SIB7b); type bytes "
            "and flags by value (DEFAULTS); validators and encoder guards as tables (VALTAB); parse_node also refuses b'' and None (EXC6); the key-path reader refuses nothing the writer produces: no length bound the writer lacks (SIB7b); building a refusal message cannot fail first: format conversions match their operands (VALMSG)",
            "arithmetic of the packing beyond the case split (arbitrary lengths are covered by the length-mod-4 x padded-length-mod-8 split)",
            "abstract evaluation of path conditions on finite grids; writer/reader layout comparison"),
    "C17": ("the wrapped db is written only on the resumed-normally outcome of the yield, the exception outcome re-raises, the cache is "
            "reset on every exit (ORD4); deletes are guarded by do_deletes and the DELETED marker (PROV12); __setitem__ / __delitem__ "
            "record exactly their action in the cache on every path (EFF1); read-through decision tables (ABS7); copy() is fresh (AL3); "
            "readers do not write (EFF4)",
            "dict semantics of the wrapped object (assumed)",
            "outcome-based path analysis of the generator context manager; decision tables by path enumeration"),
    "C18": ("every key / value / root / node parameter of every public entry point that reaches a byte-consuming sink is validated before "
            "that sink and before the first write effect (VAL1); length validation dominates its uses (VAL2); constructor guards: key_size "
            "1..32, no snapshot from a pruning trie, no ref_count for a non-pruning trie (VAL3); Nibbles has exactly three exits and every "
            "nibble-path input goes through it (VAL4); the transient pending-prune store is reset on every exit (ORD3); SparseMerkleProof "
            "construction validates key and value before anything is stored (VAL2); default arguments by value (DEFAULTS); the validators "
            "themselves as tables - validate_is_bytes / validate_length / validate_is_node / validate_is_bin_node (VALTAB); refusals are raised as "
            "the class named: no %-formatting with a bare parameter (VALMSG), exception names denote trie.exceptions classes (EXCORIGIN); the "
            "ref_count guard over {None, empty, non-empty}, no object of a guarded class is made with __new__ behind its constructor (VAL3); a validator "
            "inside a memoised (lru_cache) helper does not count: arguments are hashed first and a hit skips it (VAL1)",
            "nothing further within the scope stated in DESIGN.md 4.18",
            "taint-style validation dominance over enumerated paths, interprocedural forwarding"),
}

EXPLANATION = {
    pid: "Static analysis of the current source of /repo/trie (nothing is executed). Decided, for all paths of the code: %s. "
         "NOT decided (value-level remainder): %s." % (d[0], d[1])
    for pid, d in DOC.items()
}
