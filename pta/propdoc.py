"""Per-property explanation strings for the evidence files."""

ASSUMPTIONS = [
    "A1: the db object handed to a trie behaves as a mapping; keccak has no collisions",
    "A2: bytes read from the db under a hash are an encoding some trie wrote (well-formed nodes)",
    "A3: Python semantics as modelled by the path walk (RHS before store, try/except/else/finally, generator "
    "context managers); exception sources modelled: explicit raise, db-like subscripts, sorted-set subscripts, "
    "tabled external callees, tabled container methods",
    "A4: no monkey-patching / subclass overriding of the analysed classes",
]

EXPLANATION = {}
