"""Receiver typing and call resolution (fail-closed).

Type tags
  ('inst', Class)       instance of an analysed class
  ('cls', Class)        the class object
  ('func', Func, recv)  function / bound method (recv = receiver expr or None)
  ('funcs', (Func,..))  one of several functions (compute_key_fn)
  ('ext', dotted)       external callable / object
  ('module', name)      analysed module
  ('c', kind)           builtin container / scalar: list dict set sortedset tuple
                        bytes str int bool gen mapping none
  ('exc', dotted)       caught exception instance
  ('const', value)      folded module constant
  None                  unknown
"""
import ast

from .model import AnalysisError, UNKNOWN, walk_shallow
from . import spec

CONTAINER_CTORS = {
    "list": "list", "dict": "dict", "set": "set", "frozenset": "set", "tuple": "tuple",
    "bytes": "bytes", "str": "str", "int": "int", "bool": "bool", "bytearray": "bytes",
    "collections.defaultdict": "dict", "sortedcontainers.SortedSet": "sortedset",
    "sorted": "list", "reversed": "gen", "range": "gen", "enumerate": "gen", "zip": "gen",
    "map": "gen", "filter": "gen", "iter": "gen", "itertools.chain": "gen",
    "itertools.zip_longest": "gen", "len": "int", "repr": "str", "hex": "str",
    "eth_hash.auto.keccak": "bytes", "eth_utils.keccak": "bytes", "rlp.codec.encode_raw": "bytes",
    "eth_utils.to_int": "int", "min": "int", "max": "int", "sum": "int", "any": "bool", "all": "bool",
    "isinstance": "bool", "hexbytes.HexBytes": "bytes",
}


class Target:
    __slots__ = ("kind", "func", "cls", "name", "recv", "ctype", "meth")

    def __init__(self, kind, func=None, cls=None, name=None, recv=None, ctype=None, meth=None):
        self.kind = kind  # def | ctor | ext | cmeth | opaque
        self.func = func
        self.cls = cls
        self.name = name
        self.recv = recv
        self.ctype = ctype
        self.meth = meth

    def __repr__(self):
        if self.kind == "def":
            return "def:%s" % self.func.qual
        if self.kind == "ctor":
            return "ctor:%s" % self.cls.qual
        if self.kind == "ext":
            return "ext:%s" % self.name
        if self.kind == "cmeth":
            return "cmeth:%s.%s" % (self.ctype, self.meth)
        return "opaque:%s" % self.name

    @property
    def key(self):
        return repr(self)


class Resolver:
    def __init__(self, prog):
        self.P = prog
        self._local_cache = {}
        self._ret_cache = {}
        self._attr_cache = {}
        self.stats = {"sites": 0, "def": 0, "ctor": 0, "ext": 0, "cmeth": 0, "opaque": 0}
        self.ext_hits = {}
        self.unresolved = []

    # ------------------------------------------------------------------
    # local variable typing (flow-insensitive union over assignments)
    # ------------------------------------------------------------------
    def locals_of(self, f):
        if f.qual in self._local_cache:
            return self._local_cache[f.qual]
        env = {}
        self._local_cache[f.qual] = env
        binds = []  # (name, kind, expr)
        for n in walk_shallow(f.node):
            if isinstance(n, ast.Assign):
                for t in n.targets:
                    self._collect_binds(t, n.value, binds)
            elif isinstance(n, ast.AnnAssign) and n.value is not None:
                self._collect_binds(n.target, n.value, binds)
            elif isinstance(n, ast.With):
                for it in n.items:
                    if it.optional_vars is not None and isinstance(it.optional_vars, ast.Name):
                        binds.append((it.optional_vars.id, "with", it.context_expr))
            elif isinstance(n, ast.ExceptHandler) and n.name:
                binds.append((n.name, "exc", n.type))
            elif isinstance(n, ast.NamedExpr) and isinstance(n.target, ast.Name):
                binds.append((n.target.id, "assign", n.value))
        for _ in range(3):
            for name, kind, expr in binds:
                if kind == "assign":
                    t = self.type_of(expr, f)
                elif kind == "with":
                    t = self._with_type(expr, f)
                elif kind == "exc":
                    t = ("exc", self.exc_name(expr, f)) if expr is not None else ("exc", "BaseException")
                else:
                    t = None
                if t is not None:
                    env.setdefault(name, set()).add(_hashable(t))
        return env

    def _collect_binds(self, target, value, binds):
        if isinstance(target, ast.Name):
            binds.append((target.id, "assign", value))
        elif isinstance(target, (ast.Tuple, ast.List)) and isinstance(value, (ast.Tuple, ast.List)) and len(
            target.elts
        ) == len(value.elts):
            for t, v in zip(target.elts, value.elts):
                self._collect_binds(t, v, binds)

    def _with_type(self, expr, f):
        """Type of the ``as`` variable of ``with expr as v``."""
        if isinstance(expr, ast.Call):
            for tg in self.resolve_call(expr, f, count=False):
                if tg.kind == "def" and tg.func.is_ctxmgr:
                    for n in walk_shallow(tg.func.node):
                        if isinstance(n, ast.Yield) and n.value is not None:
                            return self.type_of(n.value, tg.func)
        return None

    def exc_name(self, expr, f):
        """Dotted name of an exception class expression."""
        if expr is None:
            return "BaseException"
        if isinstance(expr, ast.Tuple):
            return "|".join(self.exc_name(e, f) for e in expr.elts)
        if isinstance(expr, ast.Call):
            expr = expr.func
        if isinstance(expr, ast.Name):
            r = self._lookup_name(expr.id, f)
            if r:
                if r[0] == "class":
                    return r[1].module.name + "." + r[1].name
                if r[0] == "ext":
                    return r[1]
            return expr.id
        return ast.unparse(expr)

    def _lookup_name(self, name, f):
        # nested function / class scopes first
        g = f
        while g is not None:
            if name in g.nested:
                return ("func", g.nested[name])
            g = g.parent
        return self.P.lookup(f.module, name)

    # ------------------------------------------------------------------
    def type_of(self, e, f, depth=0):
        if depth > 6 or e is None:
            return None
        if isinstance(e, ast.Constant):
            v = e.value
            return ("c", _ckind(v))
        if isinstance(e, ast.JoinedStr):
            return ("c", "str")
        if isinstance(e, (ast.List, ast.ListComp)):
            return ("c", "list")
        if isinstance(e, (ast.Dict, ast.DictComp)):
            return ("c", "dict")
        if isinstance(e, (ast.Set, ast.SetComp)):
            return ("c", "set")
        if isinstance(e, ast.Tuple):
            return ("c", "tuple")
        if isinstance(e, ast.GeneratorExp):
            return ("c", "gen")
        if isinstance(e, ast.Compare) or isinstance(e, ast.UnaryOp) and isinstance(e.op, ast.Not):
            return ("c", "bool")
        if isinstance(e, ast.Name):
            return self._type_of_name(e.id, f, depth)
        if isinstance(e, ast.Attribute):
            return self._type_of_attr(e, f, depth)
        if isinstance(e, ast.Call):
            if isinstance(e.func, ast.Attribute) and e.func.attr == "__new__" and e.args:
                # cls.__new__(cls) / object.__new__(cls): an instance made without running __init__
                t0 = self.type_of(e.args[0], f, depth + 1)
                if t0 is not None and t0[0] == "cls":
                    return ("inst", t0[1])
            return self._type_of_call(e, f, depth)
        if isinstance(e, ast.BinOp):
            l = self.type_of(e.left, f, depth + 1)
            if l and l[0] == "c":
                return l
            r = self.type_of(e.right, f, depth + 1)
            if r and r[0] == "c":
                return r
            return None
        if isinstance(e, ast.IfExp):
            a = self.type_of(e.body, f, depth + 1)
            b = self.type_of(e.orelse, f, depth + 1)
            return a if a == b else (a or b)
        if isinstance(e, ast.Subscript):
            b = self.type_of(e.value, f, depth + 1)
            if b and b[0] == "c" and b[1] in ("bytes", "str", "tuple", "list") and isinstance(e.slice, ast.Slice):
                return b
            return None
        if isinstance(e, ast.Starred):
            return None
        return None

    def _type_of_name(self, name, f, depth):
        if f.cls is not None and f.params and name == f.params[0] and not f.is_static:
            if f.is_classmethod or f.name == "__new__":
                return ("cls", f.cls)
            return ("inst", f.cls)
        if name in f.all_params():
            ann = f.annotation(name)
            if ann is not None:
                t = self._type_of_annotation(ann, f)
                if t:
                    return t
            # parameter of an enclosing decorator-like function
            return ("param", name)
        # closure variable of enclosing function
        g = f.parent
        while g is not None:
            if name in g.all_params():
                return ("param", name)
            g = g.parent
        loc = self.locals_of(f).get(name)
        if loc:
            if len(loc) == 1:
                return next(iter(loc))
            fs = [t for t in loc if t and t[0] == "func"]
            if fs and len(fs) == len(loc):
                return ("funcs", tuple(sorted((t[1] for t in fs), key=lambda x: x.qual)))
            # several container kinds: pick when all equal modulo none
            kinds = {t for t in loc if t != ("c", "none")}
            if len(kinds) == 1:
                return next(iter(kinds))
            return None
        r = self._lookup_name(name, f)
        if r is None:
            if name in spec.BUILTIN_NAMES:
                return ("ext", name)
            return None
        if r[0] == "func":
            return ("func", r[1], None)
        if r[0] == "class":
            return ("cls", r[1])
        if r[0] == "ext":
            return ("ext", r[1])
        if r[0] == "module":
            return ("module", r[1])
        if r[0] == "constnode":
            v = self.P.fold(r[1], r[2])
            if v is not UNKNOWN:
                return ("c", _ckind(v))
            return self.type_of_module_expr(r[2], r[1])
        return None

    def type_of_module_expr(self, expr, module):
        if isinstance(expr, (ast.Dict, ast.DictComp)):
            return ("c", "dict")
        if isinstance(expr, (ast.List, ast.ListComp)):
            return ("c", "list")
        if isinstance(expr, (ast.Set, ast.SetComp)):
            return ("c", "set")
        if isinstance(expr, ast.Call):
            fn = ast.unparse(expr.func)
            if fn in CONTAINER_CTORS:
                return ("c", CONTAINER_CTORS[fn])
        return None

    def _type_of_annotation(self, ann, f):
        s = ast.unparse(ann).strip("'\"")
        r = self.P.lookup(f.module, s)
        if r and r[0] == "class":
            return ("inst", r[1])
        if s in ("bytes", "Hash32"):
            return ("c", "bytes")
        if s == "int":
            return ("c", "int")
        if s == "bool":
            return ("c", "bool")
        if s == "SortedSet":
            return ("c", "sortedset")
        return None

    def attr_type(self, cls, attr):
        """Type of an instance attribute of an analysed class."""
        key = (cls.qual, attr)
        if key in self._attr_cache:
            return self._attr_cache[key]
        self._attr_cache[key] = None
        t = None
        st = spec.STATE.get(key)
        if st is not None:
            t = ("c", st[1]) if st[1] else None
        if t is None and attr in cls.annotations:
            s = ast.unparse(cls.annotations[attr])
            if "SortedSet" in s:
                t = ("c", "sortedset")
            elif s.startswith("Dict"):
                t = ("c", "dict")
        if t is None:
            init = cls.methods.get("__init__")
            if init is not None:
                for n in walk_shallow(init.node):
                    tgt = val = None
                    if isinstance(n, ast.Assign) and len(n.targets) == 1:
                        tgt, val = n.targets[0], n.value
                    elif isinstance(n, ast.AnnAssign) and n.value is not None:
                        tgt, val = n.target, n.value
                        if isinstance(tgt, ast.Attribute) and tgt.attr == attr and ast.unparse(n.annotation).startswith("Dict"):
                            t = ("c", "dict")
                    if (
                        tgt is not None and t is None
                        and isinstance(tgt, ast.Attribute)
                        and isinstance(tgt.value, ast.Name)
                        and tgt.value.id == init.self_name
                        and tgt.attr == attr
                    ):
                        t = self.type_of(val, init, 1)
                        if t and t[0] == "param":
                            t = None
        self._attr_cache[key] = t
        return t

    def _type_of_attr(self, e, f, depth):
        b = self.type_of(e.value, f, depth + 1)
        if b is None:
            return None
        if b[0] in ("inst", "cls"):
            c = b[1]
            m = c.methods.get(e.attr)
            if m is not None:
                if m.is_property:
                    return self.return_type(m)
                return ("func", m, e.value if b[0] == "inst" or m.is_classmethod else None)
            if e.attr in c.class_attrs:
                ce = c.class_attrs[e.attr]
                v = self.P.fold(c.module, ce)
                if v is not UNKNOWN:
                    return ("c", _ckind(v))
            if b[0] == "inst":
                return self.attr_type(c, e.attr)
            return None
        if b[0] == "module":
            m = self.P.modules.get(b[1])
            if m is not None:
                r = self.P.lookup(m, e.attr)
                if r:
                    if r[0] == "func":
                        return ("func", r[1], None)
                    if r[0] == "class":
                        return ("cls", r[1])
                    if r[0] == "ext":
                        return ("ext", r[1])
            return None
        if b[0] == "ext":
            return ("ext", b[1] + "." + e.attr)
        if b[0] == "exc":
            return None
        return None

    def return_type(self, g):
        if g.qual in self._ret_cache:
            return self._ret_cache[g.qual]
        self._ret_cache[g.qual] = None
        ts = set()
        for n in walk_shallow(g.node):
            if isinstance(n, ast.Return) and n.value is not None:
                t = self.type_of(n.value, g, 2)
                ts.add(_hashable(t))
        t = next(iter(ts)) if len(ts) == 1 else None
        if g.is_generator and not g.is_ctxmgr:
            wrap = [d for d in g.decos if d in spec.TRANSPARENT_DECOS]
            t = ("c", "gen")
            for d in g.decos:
                if d.endswith("to_tuple"):
                    t = ("c", "tuple")
                elif d.endswith("to_list"):
                    t = ("c", "list")
                elif d.endswith("to_dict"):
                    t = ("c", "dict")
                elif "apply_to_return_value" in d:
                    t = ("c", "bytes")
        else:
            for d in g.decos:
                if d.endswith("to_tuple"):
                    t = ("c", "tuple")
                elif d.endswith("to_dict"):
                    t = ("c", "dict")
        self._ret_cache[g.qual] = t
        return t

    def _type_of_call(self, e, f, depth):
        fn = e.func
        # type(self) -> class
        if isinstance(fn, ast.Name) and fn.id == "type" and len(e.args) == 1:
            a = self.type_of(e.args[0], f, depth + 1)
            if a and a[0] == "inst":
                return ("cls", a[1])
            return None
        if isinstance(fn, ast.Name) and fn.id == "super":
            return ("ext", "super")
        if isinstance(fn, ast.Name) and fn.id == "cast" and len(e.args) == 2:
            return self.type_of(e.args[1], f, depth + 1)
        if len(e.args) == 1 and not e.keywords and ast.unparse(fn) in ("copy.copy", "copy"):
            imp = f.module.imports.get("copy")
            if imp is not None and imp[0] == "ext" and imp[1] in ("copy", "copy.copy"):
                return self.type_of(e.args[0], f, depth + 1)  # a shallow copy has the class of its argument
        # x.copy() keeps the type of x
        if isinstance(fn, ast.Attribute) and fn.attr == "copy":
            b = self.type_of(fn.value, f, depth + 1)
            if b and b[0] == "c":
                return b
        t = self.type_of(fn, f, depth + 1)
        if t is None:
            return None
        if t[0] == "cls":
            return ("inst", t[1])
        if t[0] == "func":
            return self.return_type(t[1])
        if t[0] == "ext":
            k = CONTAINER_CTORS.get(t[1])
            if k:
                return ("c", k)
            return None
        return None

    # ------------------------------------------------------------------
    # call resolution
    # ------------------------------------------------------------------
    def resolve_call(self, call, f, count=True):
        """-> list[Target]; raises nothing, unknown calls come back as 'opaque'."""
        tgs = self._resolve(call, f)
        if count:
            self.stats["sites"] += 1
            for t in tgs[:1]:
                self.stats[t.kind] += 1
                if t.kind == "ext":
                    self.ext_hits[t.name] = self.ext_hits.get(t.name, 0) + 1
                if t.kind == "opaque" and not f.module.is_tools:
                    self.unresolved.append((f.loc(call), f.module.seg(call)[:80], t.name))
        return tgs

    def _resolve(self, call, f):
        fn = call.func
        if isinstance(fn, ast.Call) and isinstance(fn.func, ast.Name) and fn.func.id == "super":
            return [Target("ext", name="super.__call__")]
        if isinstance(fn, ast.Attribute) and isinstance(fn.value, ast.Call) and isinstance(fn.value.func, ast.Name) and fn.value.func.id == "super":
            return [Target("ext", name="super." + fn.attr)]
        if isinstance(fn, ast.Name) and fn.id == "type" and len(call.args) == 1:
            return [Target("ext", name="type")]
        if isinstance(fn, ast.Attribute) and fn.attr == "__new__" and call.args:
            t0 = self.type_of(call.args[0], f)
            if t0 is not None and t0[0] == "cls" and (isinstance(fn.value, ast.Name) and (fn.value.id == "object" or self.type_of(fn.value, f) == t0)):
                return [Target("ext", name="object.__new__")]
        t = self.type_of(fn, f)
        if t is not None:
            if t[0] == "func":
                return [Target("def", func=t[1], recv=t[2])]
            if t[0] == "funcs":
                return [Target("def", func=g) for g in t[1]]
            if t[0] == "cls":
                return [Target("ctor", cls=t[1])]
            if t[0] == "ext":
                return [Target("ext", name=t[1])]
            if t[0] == "param":
                return [Target("opaque", name="param:" + t[1])]
        if isinstance(fn, ast.Attribute):
            b = self.type_of(fn.value, f)
            if b is not None and b[0] == "c":
                return [Target("cmeth", ctype=b[1], meth=fn.attr, recv=fn.value)]
            if b is not None and b[0] == "ext":
                return [Target("ext", name=b[1] + "." + fn.attr)]
            if b is not None and b[0] in ("inst", "cls"):
                return [Target("opaque", name="%s.%s" % (b[1].name, fn.attr))]
            # unknown receiver: generic method tables
            return [Target("cmeth", ctype=None, meth=fn.attr, recv=fn.value)]
        if isinstance(fn, ast.Name):
            return [Target("opaque", name=fn.id)]
        return [Target("opaque", name=ast.unparse(fn)[:40])]

    # ------------------------------------------------------------------
    def check_closed(self):
        """Fail closed: every call outside trie/tools resolves to a definition,
        a constructor, a tabled external or a tabled container method."""
        problems = []
        for f in self.P.funcs.values():
            for n in walk_shallow(f.node):
                if isinstance(n, ast.Call):
                    for t in self.resolve_call(n, f):
                        p = self._closed_problem(t, f, n)
                        if p:
                            problems.append(p)
        # module-level calls
        for m in self.P.modules.values():
            pass
        return problems

    def _closed_problem(self, t, f, n):
        if f.module.is_tools or f.is_template:
            return None
        if t.kind == "opaque":
            if t.name and t.name.startswith("param:") and spec.is_decorator_param_call(f, t.name[6:]):
                return None
            return "%s: unresolved call `%s`" % (f.loc(n), f.module.seg(n)[:70])
        if t.kind == "ext" and t.name not in spec.EXT:
            return "%s: external callee `%s` has no entry in the summary table" % (f.loc(n), t.name)
        if t.kind == "cmeth":
            if t.meth not in spec.PURE_METHODS and t.meth not in spec.MUTATING_METHODS:
                return "%s: method `.%s` on %s receiver is not in the method tables" % (f.loc(n), t.meth, t.ctype or "untyped")
        return None


def _ckind(v):
    if v is None:
        return "none"
    if isinstance(v, bool):
        return "bool"
    if isinstance(v, int):
        return "int"
    if isinstance(v, bytes):
        return "bytes"
    if isinstance(v, str):
        return "str"
    if isinstance(v, tuple):
        return "tuple"
    if isinstance(v, list):
        return "list"
    if isinstance(v, frozenset):
        return "set"
    if isinstance(v, dict):
        return "dict"
    return "obj"


def _hashable(t):
    return t
