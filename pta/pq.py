"""Path queries shared by rules: feasible (path, state) pairs, normalised relations."""
import ast

from .sym import SymEngine, tstr, is_c, C


def S(ctx):
    if "sym" not in ctx.cache:
        ctx.cache["sym"] = SymEngine(ctx)
    return ctx.cache["sym"]


def _boolish(t):
    if t is None or not isinstance(t, tuple) or not t:
        return False
    if t[0] == "cmp":
        return True
    if t[0] == "un" and t[1] == "not":
        return True
    if t[0] == "bool":
        return all(_boolish(x) for x in t[2])
    return False


def fork_bool_return(ctx, p, st):
    """`return a == b` is `if a == b: return True else: return False`: states of a return path whose value is a
    comparison (or not / and / or of comparisons) are split on that value, so that decision tables see the two
    outcomes whichever way the function spells them."""
    eng = S(ctx)
    if p.exit[0] != "return" or not _boolish(st.ret) or (st.ret[0] == "un" and not _boolish(st.ret[2]) and st.ret[2][0] not in ("p", "slice")):
        return [st]
    out = []
    node = p.exit[1].value if hasattr(p.exit[1], "value") else None
    cases = _bool_cases(st.ret)
    if cases is not None and len(cases) <= 16:
        # `return (a and b) or c`: one state per way the short-circuit evaluation can go, atoms logged in the
        # order they are evaluated - the same states the if / else spelling produces
        for atoms, val in cases:
            s2 = st.fork()
            ok = True
            for t_, pol_ in atoms:
                if not eng.assume(t_, pol_, s2.facts):
                    ok = False
                    break
                s2.log.append((t_, pol_, node))
            if ok:
                s2.ret = ("c", val)
                out.append(s2)
        return out or [st]
    for pol in (True, False):
        s2 = st.fork()
        if eng.assume(st.ret, pol, s2.facts):
            s2.log.append((st.ret, pol, node))
            s2.ret = ("c", pol)
            out.append(s2)
    return out or [st]


def _bool_cases(t):
    """[(atoms evaluated [(term, polarity)], value)] of a boolean expression built from comparisons with not / and /
    or, following short-circuit evaluation; None if an operand is not a boolean-valued expression."""
    if t[0] == "cmp":
        return [([(t, True)], True), ([(t, False)], False)]
    if t[0] == "un" and t[1] == "not":
        sub = _bool_cases(t[2])
        if sub is None:
            if t[2][0] in ("p", "slice"):
                return [([(t[2], True)], False), ([(t[2], False)], True)]
            return None
        return [(a, not v) for a, v in sub]
    if t[0] == "bool" and t[1] in ("and", "or"):
        stop = (t[1] == "or")  # the value that ends the evaluation
        acc = [([], None)]
        for x in t[2]:
            sub = _bool_cases(x)
            if sub is None:
                return None
            nxt = []
            for atoms, val in acc:
                if val is not None:
                    nxt.append((atoms, val))
                    continue
                for a2, v2 in sub:
                    nxt.append((atoms + a2, v2 if v2 == stop else None))
            acc = nxt
            if len(acc) > 64:
                return None
        return [(a, (not stop) if v is None else v) for a, v in acc]
    return None


def ret_term(st):
    """The value a return path hands back, with `if x is None: return None` read as `return x`: a constant returned
    under the condition that some term is (equal to) that constant is that term."""
    r = st.ret
    if r is None or r[0] != "c" or not (r[1] is None or isinstance(r[1], (bool, bytes))):
        return r
    for t, pol, _ in reversed(st.log):
        rn = rel_norm(t, pol)
        if rn is None:
            continue
        op, a, b = rn
        if op in ("is", "==") and b == r and a[0] != "c" and (op == "is" or not isinstance(r[1], bool)):
            return a
        if op in ("is", "==") and a == r and b[0] != "c" and (op == "is" or not isinstance(r[1], bool)):
            return b
    return r


def rets(ctx, f, exits=("return",), **kw):
    """set of (canonical) returned terms over the return paths of f"""
    return {ret_term(st) for p, st in states(ctx, f, **kw) if p.exit[0] in exits}


def states(ctx, f, split=None, unroll=None, until=None, fork_returns=False):
    """Yield (path, state) for every feasible state of every path of f.
    `until(ev)` truncates the path before the first event for which it is true."""
    if fork_returns:
        for p, st in states(ctx, f, split=split, unroll=unroll, until=until):
            for s2 in fork_bool_return(ctx, p, st):
                yield p, s2
        return
    eng = S(ctx)
    from .walk import Path
    if unroll is None:
        unroll = getattr(ctx, "unroll", 1)
    for p in ctx.X.paths(f, unroll):
        q = p
        if until is not None:
            idx = [i for i, ev in enumerate(p.events) if until(ev)]
            if not idx:
                continue
            q = Path(p.events[: idx[0]], ("cut-at", p.events[idx[0]]))
        for st in eng.run(f, q, split=split):
            ctx.paths_enumerated += 1
            yield q, st


def states_init(ctx, f, init, split=None, unroll=None, until=None):
    """Like states() with an initial State (facts about parameters from the call sites)."""
    eng = S(ctx)
    from .walk import Path
    if unroll is None:
        unroll = getattr(ctx, "unroll", 1)
    for p in ctx.X.paths(f, unroll):
        q = p
        if until is not None:
            idx = [i for i, ev in enumerate(p.events) if until(ev)]
            if not idx:
                continue
            q = Path(p.events[: idx[0]], ("cut-at", p.events[idx[0]]))
        for st in eng.run(f, q, init=init, split=split):
            ctx.paths_enumerated += 1
            yield q, st


NEG = {"==": "!=", "!=": "==", "<": ">=", "<=": ">", ">": "<=", ">=": "<", "is": "isnot", "isnot": "is",
       "in": "notin", "notin": "in"}
FLIP = {"<": ">", "<=": ">=", ">": "<", ">=": "<=", "==": "==", "!=": "!="}


def rel_norm(t, pol):
    """Normal form of a comparison assumed with polarity pol: (op, l, r) with op in
    {'>', '>=', '==', '!=', 'is', 'isnot', 'in', 'notin'}; None if t is not a comparison."""
    while t[0] == "un" and t[1] == "not":
        t, pol = t[2], not pol
    if t[0] != "cmp":
        return None
    op, l, r = t[1], t[2], t[3]
    if not pol:
        op = NEG[op]
    if op in ("<", "<="):
        op, l, r = FLIP[op], r, l
    return (op, l, r)


def _intlike(t):
    return (t[0] == "len") or (t[0] == "bin" and t[1] in ("&", "|", "^", "%", "<<", ">>", "-", "*")) or \
        (t[0] == "c" and isinstance(t[1], int) and not isinstance(t[1], bool))


def truth_norm(t, pol):
    """(term, polarity) with leading nots folded and integer tests against zero reduced to
    truthiness: `x != 0`, `x > 0` (for bit masks / lengths), `bool(x)` are the truth of x;
    `x == 0` its negation; `len(x) > 0` / `len(x) != 0` the truth of len(x)."""
    while True:
        if t[0] == "un" and t[1] == "not":
            t, pol = t[2], not pol
            continue
        if t[0] == "call" and t[1] == "ext:bool" and len(t[2]) == 1:
            t = t[2][0]
            continue
        if t[0] == "cmp" and t[3] == C(0) and _intlike(t[2]):
            if t[1] == "!=":
                t = t[2]
                continue
            if t[1] == "==":
                t, pol = t[2], not pol
                continue
            if t[1] == ">" and (t[2][0] == "len" or (t[2][0] == "bin" and t[2][1] in ("&", "%"))):
                t = t[2]
                continue
            if t[1] == "<=" and (t[2][0] == "len" or (t[2][0] == "bin" and t[2][1] in ("&", "%"))):
                t, pol = t[2], not pol
                continue
        if t[0] == "cmp" and t[1] == ">=" and t[3] == C(1) and (t[2][0] == "len" or (t[2][0] == "bin" and t[2][1] in ("&", "%"))):
            t = t[2]
            continue
        break
    return t, pol


def assumes(st):
    return [(t, pol, n) for t, pol, n in st.log]


def name_term(ctx, f, st, name):
    return S(ctx).ev(ast.Name(id=name, ctx=ast.Load()), f, st)


def fmt(t):
    return tstr(t)


def local_raise(p):
    """The Raise statement of this frame that produced the path's exception, or None when the
    exception came out of a callee / primitive."""
    if p.exit[0] != "raise":
        return None
    for ev in reversed(p.events):
        if ev.k == "raise" and ev.a == p.exit[1]:
            return ev.node
        if ev.k in ("call", "src") and ev.a == p.exit[1]:
            return None
        if ev.k == "yield" and ev.a == "throw":
            return None
    return None


def bool_table(ctx, f):
    """A boolean-valued function as a table {(frozenset of normalised conditions of the path, returned bool)};
    `return a != b` and `if a != b: return True / return False` give the same table.  None if some return value
    is not a constant bool after forking."""
    rows = set()
    for p, st in states(ctx, f, fork_returns=True):
        if p.exit[0] != "return":
            continue
        if not (st.ret is not None and st.ret[0] == "c" and isinstance(st.ret[1], bool)):
            return None
        conds = frozenset((rel_norm(t, pol) or truth_norm(t, pol)) for t, pol, _ in st.log)
        rows.add((conds, st.ret[1]))
    return rows
