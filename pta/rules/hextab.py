"""HEXTAB: complete outcome tables of the HexaryTrie insert / delete family.

For every return path of `_set`, `_delete`, `_set_kv_node`, `_set_branch_node`, `_delete_kv_node`,
`_delete_branch_node`, `_normalize_branch_node` and `_persist_node` the facts the path establishes (node kind,
emptiness of the key remainders, equalities between the re-persisted child and the old slot) are read off the
path conditions, a reference decision function written over those facts says what the function has to return
in that case, and the returned *term* must be that term.  The reference terms are produced by evaluating small
Python expressions with the same term engine in the context of the analysed function, so that they are built
from the same resolved callees as the code under analysis.

What this decides is the structural half of "HexaryTrie behaves as a map and yields the canonical node
shapes": which arm is taken under which condition and which value each arm assembles.  It does not decide
the arithmetic inside the helpers (HELP, SIB6 do that part) nor the recursion as a whole."""
import ast

from ..core import rule
from ..model import AnalysisError
from .. import pq
from ..pq import S, rel_norm, truth_norm
from ..sym import C, tstr, State
from ..util import fkey
from .hexary import HEX, NODES, NIB, H, _init_state

N, K, V = ("p", "node"), ("p", "trie_key"), ("p", "value")
SELF = ("self",)
BLANK = C(b"")


class Undecided(Exception):
    def __init__(self, what, term=None):
        Exception.__init__(self, what)
        self.what = what
        self.term = term  # the term whose emptiness the path leaves open (the driver then tries both answers)


class Facts:
    """Semantic queries on one path state."""

    def __init__(self, ctx, f, st):
        self.ctx, self.f, self.st = ctx, f, st
        self.eng = S(ctx)
        self.assumed = {}
        self.truth = {}
        self.rels = []
        for t, pol, _ in st.log:
            r = rel_norm(t, pol)
            if r is not None:
                self.rels.append(r)
            else:
                tt, pp = truth_norm(t, pol)
                self.truth[tt] = pp

    def ref(self, src, **env):
        """term of a reference expression evaluated in the analysed function's context"""
        st = State()
        for k_, v in env.items():
            st.env[k_] = v
        return self.eng.ev(ast.parse(src, mode="eval").body, self.f, st)

    def nonempty(self, t, what):
        if t in self.assumed:
            return self.assumed[t]
        v = self.truth.get(t)
        if v is not None:
            return v
        lo, hi = self.eng.len_of(t, self.st.facts)
        if lo >= 1:
            return True
        if hi == 0:
            return False
        for op, l, r in self.rels:
            if l == t and r in (BLANK, C(())):
                if op == "==":
                    return False
                if op == "!=":
                    return True
        raise Undecided(what, term=t)

    def eq(self, a, b, what):
        for op, l, r in self.rels:
            if (l, r) in ((a, b), (b, a)) and op in ("==", "!="):
                return op == "=="
        raise Undecided(what)

    def kinds(self, t):
        return self.eng.kind_of(t, self.st.facts)

    def node_is_ext(self, what="whether the node is an extension or a leaf"):
        ks = self.kinds(N)
        if ks == frozenset(["EXT"]):
            return True
        if ks == frozenset(["LEAF"]):
            return False
        for name, val in ((NODES + "is_extension_node", True), (NODES + "is_leaf_node", False)):
            v = self.truth.get(("call", name, (N,), ()))
            if v is not None:
                # with the parameter known to be LEAF or EXT, not-leaf is extension and vice versa
                if self.kinds(N) <= frozenset(["LEAF", "EXT"]):
                    return val if v else not val
                if v:
                    return val
        raise Undecided(what)

    def called(self, qual, arg=None):
        for ev in self.st.events:
            if ev.k == "call" and ev.a == "ok" and isinstance(ev.node, ast.Call):
                for t in self.ctx.R.resolve_call(ev.node, self.f, count=False):
                    if t.kind == "def" and t.func.qual == qual:
                        if arg is None:
                            return True
                        a = self.eng.ev(ev.node.args[0], self.f, self.st) if ev.node.args else None
                        if a == arg:
                            return True
        return False


def upd(base, idx, val):
    return ("upd", base, idx, val)


# ---------------------------------------------------------------------------
# reference decision functions: Facts -> (expected return term, [required prune arguments])
def ref_set(q):
    ks = q.kinds(N)
    # (a blank node is not stored, scheduling it is a no-op: only the other kinds have to be scheduled)
    if ks != frozenset(["BLANK"]) and not q.called(HEX + "._prune_node", N):
        raise Mismatch("the visited node is not scheduled for pruning before the dispatch")
    if ks == frozenset(["BLANK"]):
        return q.ref("[compute_leaf_key(trie_key), value]")
    if ks <= frozenset(["LEAF", "EXT"]) and ks:
        return _delegated(q, "self._set_kv_node(node, trie_key, value)", "_set_kv_node", ref_set_kv)
    if ks == frozenset(["BRANCH"]):
        return _delegated(q, "self._set_branch_node(node, trie_key, value)", "_set_branch_node", ref_set_branch)
    raise Undecided("the type of the node")


def ref_delete(q):
    ks = q.kinds(N)
    # (a blank node is not stored, scheduling it is a no-op: only the other kinds have to be scheduled)
    if ks != frozenset(["BLANK"]) and not q.called(HEX + "._prune_node", N):
        raise Mismatch("the visited node is not scheduled for pruning before the dispatch")
    if ks == frozenset(["BLANK"]):
        return BLANK
    if ks <= frozenset(["LEAF", "EXT"]) and ks:
        return _delegated(q, "self._delete_kv_node(node, trie_key)", "_delete_kv_node", ref_delete_kv)
    if ks == frozenset(["BRANCH"]):
        return _delegated(q, "self._delete_branch_node(node, trie_key)", "_delete_branch_node", ref_delete_branch)
    raise Undecided("the type of the node")


def _delegated(q, call_src, name, reff):
    """A row that hands the case to another function of the family: either the call, or - when the work was moved
    into the caller (a function split along its case distinction, the halves inlined) - the value the delegate's
    own table gives under this path's conditions.  Rows decided in place count as rows of the delegate."""
    call = q.ref(call_src)
    if q.st.ret == call:
        return call
    want = reff(q)  # Undecided / Mismatch of the delegate's table apply to this path
    cnt = q.ctx.cache.setdefault("hextab-inplace", {})
    cnt[name] = cnt.get(name, 0) + 1
    return want if isinstance(want, set) else {want}


def ref_set_branch(q):
    if q.nonempty(K, "whether the key is exhausted"):
        return upd(N, q.ref("trie_key[0]"), q.ref("self._persist_node(self._set(self.get_node(node[trie_key[0]]), trie_key[1:], value))"))
    return upd(N, C(-1), V)


def ref_delete_branch(q):
    if not q.nonempty(K, "whether the key is exhausted"):
        return q.ref("self._normalize_branch_node(X)", X=upd(N, C(-1), BLANK))
    enc = q.ref("self._persist_node(self._delete(self.get_node(node[trie_key[0]]), trie_key[1:]))")
    slot = q.ref("node[trie_key[0]]")
    if q.eq(enc, slot, "whether the re-persisted child differs from the stored one"):
        return N
    new = upd(N, q.ref("trie_key[0]"), enc)
    norm = q.ref("self._normalize_branch_node(X)", X=new)
    try:
        blank = q.eq(enc, BLANK, "whether the child became blank")
    except Undecided:
        return {norm}
    # normalising a branch that kept all its items gives the branch back: both spellings are the same function
    return {norm} if blank else {new, norm}


def ref_delete_kv(q):
    ck = q.ref("extract_key(node)")
    ksw = q.truth.get(q.ref("key_starts_with(trie_key, extract_key(node))"))
    if ksw is False:
        return N
    try:
        ext = q.node_is_ext()
    except Undecided:
        if ksw is None:
            raise Undecided("whether the key continues the node's path")
        raise
    if not ext:
        # a leaf goes away exactly when the key is its key (which implies that the key continues its path)
        return BLANK if q.eq(K, ck, "whether the key is exactly the leaf's key") else N
    if ksw is None:
        raise Undecided("whether the key continues the node's path")
    new = q.ref("self._delete(self.get_node(node[1]), trie_key[len(extract_key(node)):])")
    enc = q.ref("self._persist_node(X)", X=new)
    if q.eq(enc, q.ref("node[1]"), "whether the re-persisted child differs from the stored one"):
        return N
    if q.eq(new, BLANK, "whether the child became blank"):
        return BLANK
    ks = q.kinds(new)
    if ks and ks <= frozenset(["LEAF", "EXT"]):
        if not q.called(HEX + "._prune_node", new):
            raise Mismatch("the child absorbed into the extension is not scheduled for pruning")
        return q.ref("[encode_nibbles(extract_key(node) + decode_nibbles(X[0])), X[1]]", X=new)
    if ks == frozenset(["BRANCH"]):
        return q.ref("[encode_nibbles(extract_key(node)), E]", E=enc)
    raise Undecided("the type of the node left below the extension")


def ref_normalize(q):
    anys = [(t, v) for t, v in q.truth.items() if t[0] == "call" and t[1] == "ext:any" and t[2] == (("call", "ext:iter", (N,), ()),)]
    if not anys:
        raise Undecided("how many items of the branch are non-blank (any(it) and any(it) over one iterator)")
    if len(anys) >= 2 and all(v for _, v in anys):
        return N
    if all(v for _, v in anys):
        raise Undecided("whether a second item of the branch is non-blank")
    # at most one item is non-blank
    if q.nonempty(q.ref("node[-1]"), "whether the remaining item is the branch's own value"):
        return q.ref("[compute_leaf_key([]), node[-1]]")
    pick = q.ref("next((idx, v) for idx, v in enumerate(node[:16]) if v)")
    if not q.called(HEX + ".get_node", ("sub", pick, C(1))):
        # second spelling: a for loop over enumerate(node[:16]) that is left by `break` at the first non-blank item
        en = q.ref("enumerate(node[:16])")
        sl16 = q.ref("node[:16]")
        for t, v in q.truth.items():
            if v and t[0] == "sub" and t[2] == C(1) and t[1][0] == "iter" and t[1][1] == en:
                if any(ev.k == "stmt" and isinstance(ev.node, ast.Break) for ev in q.st.events) and q.called(HEX + ".get_node", t):
                    pick = t[1]
            elif v and t[0] == "iter" and t[1] == sl16:
                # (the element enumerate() hands out is written as the element of node[:16] itself)
                if any(ev.k == "stmt" and isinstance(ev.node, ast.Break) for ev in q.st.events) and q.called(HEX + ".get_node", t):
                    pick = ("iter", en, t[2])
    sub = q.ref("self.get_node(X[1])", X=pick)
    ks = q.kinds(sub)
    if ks and ks <= frozenset(["LEAF", "EXT"]):
        if not q.called(HEX + "._prune_node", sub):
            raise Mismatch("the child merged into its parent is not scheduled for pruning")
        return q.ref("[encode_nibbles(tuple(itertools.chain([X[0]], decode_nibbles(S[0])))), S[1]]", X=pick, S=sub)
    if ks == frozenset(["BRANCH"]):
        return q.ref("[encode_nibbles([X[0]]), X[1]]", X=pick)
    raise Undecided("the type of the only remaining child")


def ref_set_kv(q):
    ccp = q.ref("consume_common_prefix(extract_key(node), trie_key)")
    cp, cr, kr = (("sub", ccp, C(i)) for i in range(3))
    cr_ne = q.nonempty(cr, "whether the node's own path is fully matched")
    kr_ne = None
    down = q.ref("self._set(self.get_node(node[1]), R, value)", R=kr)
    leafnew = q.ref("self._persist_node([compute_leaf_key(R[1:]), value])", R=kr)
    if not cr_ne:
        kr_ne = q.nonempty(kr, "whether the key is exhausted")
        if not kr_ne and not q.node_is_ext():
            return q.ref("[node[0], value]")
        if q.node_is_ext():
            new = down
        else:
            new = upd(q.ref("[BLANK_NODE] * 16 + [node[1]]"), q.ref("R[0]", R=kr), leafnew)
    else:
        base = q.ref("[BLANK_NODE] * 17")
        ext = q.node_is_ext()
        one = None
        if ext:
            lo, hi = q.eng.len_of(cr, q.st.facts)
            if lo == hi == 1:
                one = True
            elif lo >= 2:
                one = False
            else:
                raise Undecided("whether exactly one nibble of the extension's path remains")
        if ext and one:
            slot = q.ref("node[1]")
        elif ext:
            slot = q.ref("self._persist_node([compute_extension_key(R[1:]), node[1]])", R=cr)
        else:
            slot = q.ref("self._persist_node([compute_leaf_key(R[1:]), node[1]])", R=cr)
        new = upd(base, q.ref("R[0]", R=cr), slot)
        if q.nonempty(kr, "whether the key is exhausted"):
            new = upd(new, q.ref("R[0]", R=kr), leafnew)
        else:
            new = upd(new, C(-1), V)
    if q.nonempty(cp, "whether a common prefix remains"):
        return q.ref("[compute_extension_key(P), self._persist_node(X)]", P=cp, X=new)
    return new


def ref_persist(q):
    m = q.ref("self._node_to_db_mapping(node)")
    key, val = ("sub", m, C(0)), ("sub", m, C(1))
    stored = q.called(HEX + "._set_db_value")
    isnone = None
    for op, l, r in q.rels:
        if l == val and r == C(None) and op in ("is", "isnot", "==", "!="):
            isnone = op in ("is", "==")
    v = q.truth.get(val)
    if isnone is None and v is not None:
        isnone = not v
    if isnone is None and not stored:
        raise Mismatch("a node reference is handed out without writing the node and without deciding that it is an embedded one (value is None)")
    if isnone is None:
        raise Undecided("whether the node is stored by hash (value is not None)")
    if not isnone and not stored:
        raise Mismatch("a node that is referenced by hash is not written to the database")
    if isnone and stored:
        raise Mismatch("an embedded node is written to the database")
    return key


class Mismatch(Exception):
    pass


TABLE = [
    ("_set", ref_set, 3), ("_delete", ref_delete, 3), ("_set_branch_node", ref_set_branch, 2), ("_delete_branch_node", ref_delete_branch, 3),
    ("_delete_kv_node", ref_delete_kv, 7), ("_normalize_branch_node", ref_normalize, 4), ("_set_kv_node", ref_set_kv, 10), ("_persist_node", ref_persist, 2),
]


def _split_cases(q, reff, u, depth=0):
    """reference values under both answers to the open question(s); None if a question is not a yes / no on a term"""
    if u.term is None or depth > 3:
        return None
    out = []
    for v in (True, False):
        q.assumed[u.term] = v
        try:
            out.append(reff(q))
        except Undecided as u2:
            sub = _split_cases(q, reff, u2, depth + 1)
            if sub is None:
                q.assumed.pop(u.term, None)
                return None
            out += sub
        except Mismatch:
            q.assumed.pop(u.term, None)
            return None
    q.assumed.pop(u.term, None)
    return out


@rule("HEXTAB", ["C01", "C02", "C06"])
def hextab(ctx, pid):
    """Outcome tables of the hexary insert / delete family (see the module docstring)."""
    for name, reff, min_rows in TABLE:
        f = H(ctx, name)
        init = _init_state(ctx, f)
        probs, unsure = [], []
        rows = 0
        for p, st in (pq.states_init(ctx, f, init) if init is not None else pq.states(ctx, f)):
            if p.exit[0] != "return":
                continue
            q = Facts(ctx, f, st)
            try:
                want = reff(q)
            except Undecided as u:
                # the path leaves a case distinction of the table open: fine if the value it returns is the
                # reference's value in every one of the open cases (two rows that were merged)
                alts = _split_cases(q, reff, u)
                if alts is not None and all(st.ret in (w_ if isinstance(w_, set) else {w_}) for w_ in alts):
                    rows += len(alts)
                    continue
                unsure.append((p.exit[1], "a path returns `%s` without deciding %s" % (tstr(st.ret)[:60], u.what)))
                continue
            except Mismatch as m:
                probs.append((p.exit[1], str(m)))
                continue
            rows += 1
            wants = want if isinstance(want, set) else {want}
            want = sorted(wants, key=str)[0]
            if st.ret not in wants:
                probs.append((p.exit[1], "returns `%s`; under the conditions of this path the result has to be `%s`" % (tstr(st.ret)[:120], tstr(want)[:120])))
        c = "outcome-table:%s" % fkey(f)
        if probs:
            node, why = probs[0]
            ctx.bad(c, f.loc(node), why, witness={"problems": sorted({w for _, w in probs})[:6]})
        elif unsure:
            node, why = unsure[0]
            ctx.unsure(c, f.loc(node), why)
        elif rows + ctx.cache.get("hextab-inplace", {}).get(name, 0) < min_rows:
            ctx.unsure(c, f.loc(), "only %d return paths were classified, %d were confirmed by hand" % (rows, min_rows))
        else:
            ctx.ok(c, f.loc(), "%d return paths: every returned value is the one the reference table gives for the path's conditions" % rows)


@rule("DECODE", ["C01", "C02", "C03", "C08"])
def decode(ctx, pid):
    """decode_node, through which every stored reference becomes a node: blank stays blank, an embedded node
    (a list) is returned as it is, anything else is RLP-decoded."""
    f = ctx.P.func(NODES + "decode_node")
    x = ("p", f.params[0])
    rows = set()
    for p, st in pq.states(ctx, f):
        if p.exit[0] != "return":
            continue
        rels, truth = _log(st)
        blank = None
        for op, l, r in rels:
            if (l, r) in ((x, BLANK), (BLANK, x)) and op in ("==", "!="):
                blank = op == "=="
        il = truth.get(("call", "ext:isinstance", (x, ("g", "list")), ()))
        case = "blank" if blank else ("list" if il else ("other" if il is False and blank is False else "?"))
        rows.add((case, st.ret))
    dec = {r for c_, r in rows if c_ == "other"}
    okdec = len(dec) == 1 and next(iter(dec))[0] == "call" and next(iter(dec))[1].startswith("ext:rlp") and next(iter(dec))[2] == (x,)
    c = "table:decode_node"
    if {(c_, r) for c_, r in rows if c_ != "other"} == {("blank", BLANK), ("list", x)} and okdec:
        ctx.ok(c, f.loc(), "b'' -> b''; a list -> itself; otherwise rlp.decode(reference)")
    else:
        ctx.bad(c, f.loc(), "decode_node behaves as %s; expected {blank: b'', list: the list itself, otherwise: rlp.decode(x)}" % sorted((c_, tstr(r)[:40]) for c_, r in rows))


# ---------------------------------------------------------------------------
def _log(st):
    rels, truth = [], {}
    for t, pol, _ in st.log:
        r = rel_norm(t, pol)
        if r is not None:
            rels.append(r)
        else:
            tt, pp = truth_norm(t, pol)
            truth[tt] = pp
    return rels, truth


def _is_none(rels, truth, t):
    """True / False / None: does the path know `t is None`"""
    for op, l, r in rels:
        if l == t and r == C(None):
            if op in ("is", "=="):
                return True
            if op in ("isnot", "!="):
                return False
    return None


@rule("PRUNESTATE", ["C06", "C05", "C01"])
def prunestate(ctx, pid):
    """The bookkeeping state of a pruning trie, as tables: what __init__ installs as the count table per
    (ref_count given?, prune?); what the ref_count accessor hands out; how a mutation session opens
    (_prune_on_success enter); which count entries _complete_pruning keeps or drops; what _set_raw_node
    stores and returns; that the short-root case schedules exactly one prune."""
    eng = S(ctx)
    RC = ("attr", SELF, "_ref_count")
    PEND = ("attr", SELF, "_pending_prune_keys")
    ISP = ("attr", SELF, "is_pruning")
    # ---- __init__
    f = H(ctx, "__init__")
    prm = {n_: ("p", n_) for n_ in f.all_params()}
    if "prune" not in prm or "ref_count" not in prm:
        raise AnalysisError("anchor vanished: parameters of HexaryTrie.__init__")
    probs, seen = [], set()
    for p, st in pq.states(ctx, f):
        if p.exit[0] not in ("return", "fall"):
            continue
        rels, truth = _log(st)
        none = _is_none(rels, truth, prm["ref_count"])
        prune = truth.get(prm["prune"])
        got = st.attrs.get("self._ref_count")
        isp = st.attrs.get("self.is_pruning")
        if isp != prm["prune"]:
            probs.append("is_pruning is set to `%s`, not to the prune argument" % (tstr(isp) if isp else None))
        if none is None or prune is None:
            probs.append("the constructor finishes without distinguishing ref_count None / given and prune on / off")
            continue
        seen.add((none, prune))
        if none and prune:
            ok = got is not None and got[0] == "call" and "defaultdict" in got[1] and got[2] == (("g", "int"),) or (got is not None and got[0] == "call" and "defaultdict" in got[1] and len(got[2]) == 1 and "int" in str(got[2][0]))
            w = "defaultdict(int)"
        elif none:
            ok, w = got == C(None), "None"
        else:
            ok, w = got == prm["ref_count"], "the given ref_count"
        if not ok:
            probs.append("ref_count %s, prune %s: the count table is `%s`, expected %s" % ("None" if none else "given", prune, tstr(got) if got else None, w))
    c = "count-table-init:HexaryTrie.__init__"
    if probs:
        ctx.bad(c, f.loc(), probs[0], witness={"problems": sorted(set(probs))})
    elif seen != {(True, True), (True, False), (False, True)}:
        ctx.unsure(c, f.loc(), "constructor cases found: %s" % sorted(seen))
    else:
        ctx.ok(c, f.loc(), "pruning: a fresh defaultdict(int) or the given table; not pruning: None; is_pruning = prune")
    # ---- ref_count accessor
    f = H(ctx, "ref_count")
    probs = []
    n = 0
    for p, st in pq.states(ctx, f):
        rels, truth = _log(st)
        none = _is_none(rels, truth, RC)
        if p.exit[0] == "return":
            n += 1
            if st.ret != RC:
                probs.append("ref_count returns `%s`, not the table the trie maintains" % tstr(st.ret)[:50])
            if none is not False:
                probs.append("the count table is handed out on a path that does not exclude None")
        elif p.exit[0] == "raise" and pq.local_raise(p) is not None:
            if none is not True:
                probs.append("ref_count refuses although the trie tracks counts")
    c = "reported-counts:HexaryTrie.ref_count"
    if probs:
        ctx.bad(c, f.loc(), probs[0])
    elif not n:
        ctx.bad(c, f.loc(), "ref_count never returns")
    else:
        ctx.ok(c, f.loc(), "returns self._ref_count exactly when it is not None")
    # ---- session enter
    f = H(ctx, "_prune_on_success")
    probs = []
    seen = set()
    for p in ctx.X.paths(f):
        # prefix up to the yield (or the raise before it)
        evs = []
        for ev in p.events:
            if ev.k == "yield":
                break
            evs.append(ev)
        reached_yield = any(ev.k == "yield" for ev in p.events)
        from ..walk import Path
        for st in eng.run(f, Path(evs, ("cut-at", None))):
            rels, truth = _log(st)
            isp = truth.get(ISP)
            none = _is_none(rels, truth, PEND)
            new = st.attrs.get("self._pending_prune_keys")
            if not reached_yield:
                if p.exit[0] == "raise" and pq.local_raise(p) is not None and not (isp is True and none is False):
                    probs.append("the session is refused on a path that does not establish a pruning trie with a session already open")
                if p.exit[0] == "raise" and pq.local_raise(p) is not None:
                    seen.add("refuse")
                continue
            if isp is None:
                probs.append("a session opens without looking at is_pruning")
            elif isp:
                if none is not True:
                    probs.append("a pruning session opens although one is already open (pending prunes would be mixed)")
                if not (new is not None and new[0] == "call" and "defaultdict" in new[1]):
                    probs.append("a pruning session opens with the pending table `%s`, expected a fresh defaultdict(int)" % (tstr(new) if new else "left unset"))
                seen.add("open")
            else:
                if new is not None and new != C(None):
                    probs.append("a non-pruning trie gets a pending-prune table")
                seen.add("plain")
    c = "session-enter:HexaryTrie._prune_on_success"
    if probs:
        ctx.bad(c, f.loc(), probs[0], witness={"problems": sorted(set(probs))})
    elif seen != {"open", "plain", "refuse"}:
        ctx.unsure(c, f.loc(), "session cases found: %s" % sorted(seen))
    else:
        ctx.ok(c, f.loc(), "pruning + no open session: fresh pending table; pruning + open session: ValidationError; not pruning: nothing")
    # ---- _complete_pruning: which count entries are kept
    f = H(ctx, "_complete_pruning")
    probs = []
    n_del = n_keep = 0
    for p, st in pq.states(ctx, f, unroll=1):
        if p.exit[0] not in ("return", "fall"):
            continue
        rels, truth = _log(st)
        def on(t, attr):
            return isinstance(t, ast.Subscript) and isinstance(t.value, ast.Attribute) and t.value.attr == attr \
                and isinstance(t.value.value, ast.Name) and t.value.value.id == f.self_name
        dels = [ev for ev in st.events if ev.k == "stmt" and isinstance(ev.node, ast.Delete) and any(on(t, "_ref_count") for t in ev.node.targets)]
        keeps = [ev for ev in st.events if ev.k == "stmt" and isinstance(ev.node, ast.Assign) and any(on(t, "_ref_count") for t in ev.node.targets)]
        if not dels and not keeps:
            continue
        zero = [r for r in rels if r[0] in ("==", "!=") and r[2] == C(0)]
        dbdel = any(ev.k == "stmt" and isinstance(ev.node, ast.Delete) and any(on(t, "db") for t in ev.node.targets) for ev in st.events)
        if dels:
            n_del += 1
            if keeps:
                probs.append("a count entry is both stored and removed on one path")
            if any(r[0] == "!=" for r in zero) and not dbdel:
                probs.append("a count entry is dropped although the remaining count is not zero")
        else:
            n_keep += 1
            if dbdel:
                probs.append("the count of a node that was just deleted from the db is kept")
            if not any(r[0] == "!=" for r in zero):
                probs.append("a count entry is kept on a path that does not establish a non-zero remaining count (zero entries make the reported table differ from the recount)")
    c = "count-entries:HexaryTrie._complete_pruning"
    if probs:
        ctx.bad(c, f.loc(), probs[0], witness={"problems": sorted(set(probs))})
    elif not (n_del and n_keep):
        ctx.unsure(c, f.loc(), "paths that drop / keep a count entry: %d / %d" % (n_del, n_keep))
    else:
        ctx.ok(c, f.loc(), "an entry is removed when the node was deleted or its remaining count is zero, and kept with the remaining count otherwise")
    # ---- _set_raw_node
    f = H(ctx, "_set_raw_node")
    cm = ctx.P.modules["trie.constants"]
    BNH = C(ctx.P.const(cm, "BLANK_NODE_HASH"))
    m = ("call", HEX + "._node_to_db_mapping", (SELF, ("p", f.params[1])), ())
    key, val = ("sub", m, C(0)), ("sub", m, C(1))
    probs = []
    seen = set()
    for p, st in pq.states(ctx, f):
        if p.exit[0] != "return":
            continue
        rels, truth = _log(st)
        blank = None
        for op, l, r in rels:
            if (l, r) in ((key, BLANK), (BLANK, key)) and op in ("==", "!="):
                blank = op == "=="
        stored = [eng.ev(ev.node, f, st) for ev in st.events if ev.k == "call" and ev.a == "ok" and isinstance(ev.node, ast.Call)
                  and any(t.kind == "def" and t.func.name == "_set_db_value" for t in ctx.R.resolve_call(ev.node, f, count=False))]
        if blank is None:
            probs.append("a root is stored without checking for the blank node")
            continue
        if blank:
            seen.add("blank")
            if st.ret != BNH or stored:
                probs.append("the blank root returns `%s`%s; expected BLANK_NODE_HASH and no write" % (tstr(st.ret)[:30], " after a db write" if stored else ""))
            continue
        none = _is_none(rels, truth, val)
        if none is None:
            probs.append("a non-blank root is stored without distinguishing embedded (value None) from hashed nodes")
            continue
        if none:
            enc = ("call", "ext:rlp.encode", (key,), ())
            encs = [a for a in _subterms(st.ret) if a[0] == "call" and a[1].startswith("ext:") and "keccak" in a[1]]
            want_store = None
            seen.add("short")
            ok = st.ret[0] == "call" and "keccak" in st.ret[1] and len(st.ret[2]) == 1 and st.ret[2][0][0] == "call" and st.ret[2][0][2] == (key,)
            if not ok:
                probs.append("a short root returns `%s`, expected keccak(encode_raw(node))" % tstr(st.ret)[:60])
            elif not any(s_[2][1:] == (st.ret, st.ret[2][0]) for s_ in stored):
                probs.append("a short root is not stored under its keccak")
        else:
            seen.add("hashed")
            if st.ret != key:
                probs.append("a hashed root returns `%s`, expected its hash" % tstr(st.ret)[:60])
            elif not any(s_[2][1:] == (key, val) for s_ in stored):
                probs.append("a hashed root is not stored")
    c = "root-store:HexaryTrie._set_raw_node"
    starred = any(isinstance(nd, ast.Call) and (any(isinstance(a, ast.Starred) for a in nd.args) or any(k.arg is None for k in nd.keywords))
                  and any(t.kind == "def" and t.func.name == "_set_db_value" for t in ctx.R.resolve_call(nd, f, count=False))
                  for nd in ast.walk(f.node))
    if probs and starred and all("not stored" in x for x in probs):
        # _set_db_value(*entry): the rule binds positional key / value arguments only - a refusal, not a verdict
        ctx.unsure(c, f.loc(), "the store call passes its key / value through * or ** unpacking; cannot bind them (%s)" % probs[0])
    elif probs:
        ctx.bad(c, f.loc(), probs[0], witness={"problems": sorted(set(probs))})
    elif seen != {"blank", "short", "hashed"}:
        ctx.unsure(c, f.loc(), "root cases found: %s" % sorted(seen))
    else:
        ctx.ok(c, f.loc(), "blank -> BLANK_NODE_HASH, no write; short -> stored under keccak(rlp); hashed -> stored under its hash")
    # ---- every pending increment is += 1
    bad = None
    n = 0
    for name in ("_prune_node", "_set_root_node"):
        f = H(ctx, name)
        for nd in ast.walk(f.node):
            if isinstance(nd, (ast.AugAssign, ast.Assign)):
                tg = nd.target if isinstance(nd, ast.AugAssign) else nd.targets[0]
                if isinstance(tg, ast.Subscript) and isinstance(tg.value, ast.Attribute) and tg.value.attr == "_pending_prune_keys":
                    n += 1
                    if not (isinstance(nd, ast.AugAssign) and isinstance(nd.op, ast.Add) and isinstance(nd.value, ast.Constant) and nd.value.value == 1):
                        bad = bad or (f, nd)
    c = "pending-increment:HexaryTrie"
    if bad:
        ctx.bad(c, bad[0].loc(bad[1]), "`%s`: a scheduled prune must add exactly one pending reference" % ast.unparse(bad[1]))
    elif n < 2:
        ctx.unsure(c, "trie/hexary.py", "pending increments found: %d" % n)
    else:
        ctx.ok(c, "trie/hexary.py", "%d sites, each `_pending_prune_keys[key] += 1`" % n, nontrivial=False)


def _subterms(t):
    if isinstance(t, tuple) and t and isinstance(t[0], str):
        yield t
    if isinstance(t, tuple):
        for x in t:
            if isinstance(x, tuple):
                yield from _subterms(x)


@rule("MAPTAB", ["C01", "C02", "C06", "C04"])
def maptab(ctx, pid):
    """node -> (db key, db value): blank -> (b'', None); RLP shorter than 32 bytes -> (the node itself, None);
    otherwise (keccak(rlp), rlp).  The LRU-cached detour taken by pruning tries is transparent: it goes through
    tuplify / listify, which are inverse conversions (list <-> tuple at every nesting level), and ends in the same
    mapping function."""
    eng = S(ctx)
    f = H(ctx, "_create_node_to_db_mapping")
    n_ = ("p", f.params[1])
    rlp_ = None
    rows = {}
    probs = []
    for p, st in pq.states(ctx, f):
        if p.exit[0] != "return":
            continue
        rels, truth = _log(st)
        blank = truth.get(("call", NODES + "is_blank_node", (n_,), ()))
        if blank is None:
            for op, l, r in rels:
                if (l, r) in ((n_, BLANK), (BLANK, n_)) and op in ("==", "!="):
                    blank = op == "=="
        if blank is None:
            probs.append("a mapping is returned without testing for the blank node")
            continue
        if blank:
            rows["blank"] = st.ret
            continue
        # the length test is evaluated for encoded lengths 30..34 (so `< 32`, `<= 31`, `32 > len` are one test)
        taken = set()
        found = False
        for L in (30, 31, 32, 33, 34):
            okL = True
            for op, l, r in rels:
                vals = []
                for x in (l, r):
                    if x[0] == "len" and x[1][0] == "call" and "encode" in x[1][1] and x[1][2] == (n_,):
                        rlp_ = x[1]
                        found = True
                        vals.append(L)
                    elif x[0] == "c" and isinstance(x[1], int):
                        vals.append(x[1])
                    else:
                        vals.append(None)
                if None in vals or not (l[0] == "len" or r[0] == "len"):
                    continue
                a, b = vals
                if not {"==": a == b, "!=": a != b, ">": a > b, ">=": a >= b}.get(op, True):
                    okL = False
            if okL:
                taken.add(L)
        if not found:
            probs.append("a non-blank node is mapped without comparing the length of its RLP with 32")
        elif taken == {30, 31}:
            rows["short"] = st.ret
        elif taken == {32, 33, 34}:
            rows["long"] = st.ret
        else:
            probs.append("a mapping arm is taken for encoded lengths %s; the arms are exactly < 32 (embedded) and >= 32 (hashed: a 32-byte encoding is reference-sized)" % sorted(taken))
    c = "mapping-table:HexaryTrie._create_node_to_db_mapping"
    if not probs and rlp_ is not None:
        kec = [t for t in _subterms(rows.get("long", ())) if t[0] == "call" and "keccak" in t[1]]
        want = {"blank": ("tuple", (BLANK, C(None))), "short": ("tuple", (n_, C(None))), "long": ("tuple", (kec[0] if kec else None, rlp_))}
        ok_k = bool(kec) and kec[0][2] == (rlp_,)
        for k_, w in want.items():
            if rows.get(k_) != w or (k_ == "long" and not ok_k):
                probs.append("%s node maps to `%s`, expected `%s`" % (k_, tstr(rows.get(k_))[:60] if rows.get(k_) else None, tstr(w)[:60] if w[1][0] else "(keccak(rlp), rlp)"))
    if probs:
        ctx.bad(c, f.loc(), probs[0], witness={"problems": probs})
    elif set(rows) != {"blank", "short", "long"}:
        ctx.unsure(c, f.loc(), "mapping cases found: %s" % sorted(rows))
    else:
        ctx.ok(c, f.loc(), "blank -> (b'', None); len(rlp) < 32 -> (node, None); else (keccak(rlp), rlp)")
    # ---- transparency of the cached detour
    g = H(ctx, "_node_to_db_mapping")
    h = H(ctx, "_cached_create_node_to_db_mapping")
    gn, hn = ("p", g.params[1]), ("p", h.params[1])
    direct = lambda x: ("call", HEX + "._create_node_to_db_mapping", (SELF, x), ())  # noqa: E731
    tup = ("call", "trie.hexary:tuplify", (gn,), ())
    lst = ("call", "trie.hexary:listify", (hn,), ())
    okg = pq.rets(ctx, g) <= {direct(gn), ("call", HEX + "._cached_create_node_to_db_mapping", (SELF, tup), ())}
    for p, st in pq.states(ctx, g):
        if p.exit[0] == "return" and st.ret != direct(gn):
            rels, truth = _log(st)
            if truth.get(("call", "ext:isinstance", (gn, ("g", "list")), ())) is not True:
                okg = False  # only a list has a tuple form: a blank node (bytes) must take the direct mapping
    rows_h = set()
    for p, st in pq.states(ctx, h):
        if p.exit[0] == "return":
            rels, truth = _log(st)
            rows_h.add((truth.get(("call", "ext:isinstance", (hn, ("g", "tuple")), ())), st.ret))
    okh = rows_h == {(True, direct(lst)), (False, direct(hn))}
    duals = []
    for name, frm, to in (("tuplify", "list", "tuple"), ("listify", "tuple", "list")):
        d = ctx.P.func("trie.hexary:" + name)
        deco = [x for x in d.decos if x.endswith("to_" + to)]
        rows_d = set()
        for p in ctx.X.paths(d, 1):
            pol = None
            ys = []
            for ev in p.events:
                if ev.k == "assume" and isinstance(ev.node, ast.Call) and ast.unparse(ev.node.func) == "isinstance" and len(ev.node.args) == 2:
                    pol = (ast.unparse(ev.node.args[1]), ev.a)
                if ev.k == "yield" and isinstance(ev.node, ast.Yield) and ev.node.value is not None:
                    v = ev.node.value
                    ys.append("recurse" if isinstance(v, ast.Call) and ast.unparse(v.func) == name else ("same" if isinstance(v, ast.Name) else "?"))
            if pol is not None and ys:
                rows_d.add((pol, ys[-1]))
        duals.append(bool(deco) and rows_d == {((frm, True), "recurse"), ((frm, False), "same")})
    c = "cache-transparent:HexaryTrie._node_to_db_mapping"
    if okg and okh and all(duals):
        ctx.ok(c, g.loc(), "direct or cached(tuplify(node)); cached = create(listify(t)) for tuples; tuplify / listify convert every nesting level and are each other's inverse")
    else:
        ctx.bad(c, g.loc(), "the cached mapping is not the plain mapping after a tuple round-trip (dispatch ok: %s, cached body ok: %s, tuplify / listify ok: %s)" % (okg, okh, duals))
