"""HEXTAB: complete outcome tables of the HexaryTrie insert / delete family.

For every return path of `_set`, `_delete`, `_set_kv_node`, `_set_branch_node`, `_delete_kv_node`,
`_delete_branch_node`, `_normalize_branch_node` and `_persist_node` the facts the path establishes (node kind,
emptiness of the key remainders, equalities between the re-persisted child and the old slot) are read off the
path conditions, a reference decision function written over those facts says what the function has to return
in that case, and the returned *term* must be that term.  The reference terms are produced by evaluating small
Python expressions with the same term engine in the context of the analysed function, so that they are built
from the same resolved callees as the code under analysis.

What this decides is the structural half of "HexaryTrie behaves as a map and yields the canonical node
shapes": which arm is taken under which condition and which value each arm assembles.  It does not decide
the arithmetic inside the helpers (HELP, SIB6 do that part) nor the recursion as a whole."""
import ast

from ..core import rule
from ..model import AnalysisError
from .. import pq
from ..pq import S, rel_norm, truth_norm
from ..sym import C, tstr, State
from ..util import fkey
from .hexary import HEX, NODES, NIB, H, _init_state

N, K, V = ("p", "node"), ("p", "trie_key"), ("p", "value")
SELF = ("self",)
BLANK = C(b"")


class Undecided(Exception):
    def __init__(self, what):
        Exception.__init__(self, what)
        self.what = what


class Facts:
    """Semantic queries on one path state."""

    def __init__(self, ctx, f, st):
        self.ctx, self.f, self.st = ctx, f, st
        self.eng = S(ctx)
        self.truth = {}
        self.rels = []
        for t, pol, _ in st.log:
            r = rel_norm(t, pol)
            if r is not None:
                self.rels.append(r)
            else:
                tt, pp = truth_norm(t, pol)
                self.truth[tt] = pp

    def ref(self, src, **env):
        """term of a reference expression evaluated in the analysed function's context"""
        st = State()
        for k_, v in env.items():
            st.env[k_] = v
        return self.eng.ev(ast.parse(src, mode="eval").body, self.f, st)

    def nonempty(self, t, what):
        v = self.truth.get(t)
        if v is not None:
            return v
        lo, hi = self.eng.len_of(t, self.st.facts)
        if lo >= 1:
            return True
        if hi == 0:
            return False
        for op, l, r in self.rels:
            if l == t and r in (BLANK, C(())):
                if op == "==":
                    return False
                if op == "!=":
                    return True
        raise Undecided(what)

    def eq(self, a, b, what):
        for op, l, r in self.rels:
            if (l, r) in ((a, b), (b, a)) and op in ("==", "!="):
                return op == "=="
        raise Undecided(what)

    def kinds(self, t):
        return self.eng.kind_of(t, self.st.facts)

    def node_is_ext(self, what="whether the node is an extension or a leaf"):
        ks = self.kinds(N)
        if ks == frozenset(["EXT"]):
            return True
        if ks == frozenset(["LEAF"]):
            return False
        for name, val in ((NODES + "is_extension_node", True), (NODES + "is_leaf_node", False)):
            v = self.truth.get(("call", name, (N,), ()))
            if v is not None:
                # with the parameter known to be LEAF or EXT, not-leaf is extension and vice versa
                if self.kinds(N) <= frozenset(["LEAF", "EXT"]):
                    return val if v else not val
                if v:
                    return val
        raise Undecided(what)

    def called(self, qual, arg=None):
        for ev in self.st.events:
            if ev.k == "call" and ev.a == "ok" and isinstance(ev.node, ast.Call):
                for t in self.ctx.R.resolve_call(ev.node, self.f, count=False):
                    if t.kind == "def" and t.func.qual == qual:
                        if arg is None:
                            return True
                        a = self.eng.ev(ev.node.args[0], self.f, self.st) if ev.node.args else None
                        if a == arg:
                            return True
        return False


def upd(base, idx, val):
    return ("upd", base, idx, val)


# ---------------------------------------------------------------------------
# reference decision functions: Facts -> (expected return term, [required prune arguments])
def ref_set(q):
    ks = q.kinds(N)
    # (a blank node is not stored, scheduling it is a no-op: only the other kinds have to be scheduled)
    if ks != frozenset(["BLANK"]) and not q.called(HEX + "._prune_node", N):
        raise Mismatch("the visited node is not scheduled for pruning before the dispatch")
    if ks == frozenset(["BLANK"]):
        return q.ref("[compute_leaf_key(trie_key), value]")
    if ks <= frozenset(["LEAF", "EXT"]) and ks:
        return q.ref("self._set_kv_node(node, trie_key, value)")
    if ks == frozenset(["BRANCH"]):
        return q.ref("self._set_branch_node(node, trie_key, value)")
    raise Undecided("the type of the node")


def ref_delete(q):
    ks = q.kinds(N)
    # (a blank node is not stored, scheduling it is a no-op: only the other kinds have to be scheduled)
    if ks != frozenset(["BLANK"]) and not q.called(HEX + "._prune_node", N):
        raise Mismatch("the visited node is not scheduled for pruning before the dispatch")
    if ks == frozenset(["BLANK"]):
        return BLANK
    if ks <= frozenset(["LEAF", "EXT"]) and ks:
        return q.ref("self._delete_kv_node(node, trie_key)")
    if ks == frozenset(["BRANCH"]):
        return q.ref("self._delete_branch_node(node, trie_key)")
    raise Undecided("the type of the node")


def ref_set_branch(q):
    if q.nonempty(K, "whether the key is exhausted"):
        return upd(N, q.ref("trie_key[0]"), q.ref("self._persist_node(self._set(self.get_node(node[trie_key[0]]), trie_key[1:], value))"))
    return upd(N, C(-1), V)


def ref_delete_branch(q):
    if not q.nonempty(K, "whether the key is exhausted"):
        return q.ref("self._normalize_branch_node(X)", X=upd(N, C(-1), BLANK))
    enc = q.ref("self._persist_node(self._delete(self.get_node(node[trie_key[0]]), trie_key[1:]))")
    slot = q.ref("node[trie_key[0]]")
    if q.eq(enc, slot, "whether the re-persisted child differs from the stored one"):
        return N
    new = upd(N, q.ref("trie_key[0]"), enc)
    norm = q.ref("self._normalize_branch_node(X)", X=new)
    try:
        blank = q.eq(enc, BLANK, "whether the child became blank")
    except Undecided:
        return {norm}
    # normalising a branch that kept all its items gives the branch back: both spellings are the same function
    return {norm} if blank else {new, norm}


def ref_delete_kv(q):
    ck = q.ref("extract_key(node)")
    ksw = q.truth.get(q.ref("key_starts_with(trie_key, extract_key(node))"))
    if ksw is None:
        raise Undecided("whether the key continues the node's path")
    if not ksw:
        return N
    if not q.node_is_ext():
        return BLANK if q.eq(K, ck, "whether the key is exactly the leaf's key") else N
    new = q.ref("self._delete(self.get_node(node[1]), trie_key[len(extract_key(node)):])")
    enc = q.ref("self._persist_node(X)", X=new)
    if q.eq(enc, q.ref("node[1]"), "whether the re-persisted child differs from the stored one"):
        return N
    if q.eq(new, BLANK, "whether the child became blank"):
        return BLANK
    ks = q.kinds(new)
    if ks and ks <= frozenset(["LEAF", "EXT"]):
        if not q.called(HEX + "._prune_node", new):
            raise Mismatch("the child absorbed into the extension is not scheduled for pruning")
        return q.ref("[encode_nibbles(extract_key(node) + decode_nibbles(X[0])), X[1]]", X=new)
    if ks == frozenset(["BRANCH"]):
        return q.ref("[encode_nibbles(extract_key(node)), E]", E=enc)
    raise Undecided("the type of the node left below the extension")


def ref_normalize(q):
    anys = [(t, v) for t, v in q.truth.items() if t[0] == "call" and t[1] == "ext:any" and t[2] == (("call", "ext:iter", (N,), ()),)]
    if not anys:
        raise Undecided("how many items of the branch are non-blank (any(it) and any(it) over one iterator)")
    if len(anys) >= 2 and all(v for _, v in anys):
        return N
    if all(v for _, v in anys):
        raise Undecided("whether a second item of the branch is non-blank")
    # at most one item is non-blank
    if q.nonempty(q.ref("node[-1]"), "whether the remaining item is the branch's own value"):
        return q.ref("[compute_leaf_key([]), node[-1]]")
    pick = q.ref("next((idx, v) for idx, v in enumerate(node[:16]) if v)")
    sub = q.ref("self.get_node(X[1])", X=pick)
    ks = q.kinds(sub)
    if ks and ks <= frozenset(["LEAF", "EXT"]):
        if not q.called(HEX + "._prune_node", sub):
            raise Mismatch("the child merged into its parent is not scheduled for pruning")
        return q.ref("[encode_nibbles(tuple(itertools.chain([X[0]], decode_nibbles(S[0])))), S[1]]", X=pick, S=sub)
    if ks == frozenset(["BRANCH"]):
        return q.ref("[encode_nibbles([X[0]]), X[1]]", X=pick)
    raise Undecided("the type of the only remaining child")


def ref_set_kv(q):
    ccp = q.ref("consume_common_prefix(extract_key(node), trie_key)")
    cp, cr, kr = (("sub", ccp, C(i)) for i in range(3))
    cr_ne = q.nonempty(cr, "whether the node's own path is fully matched")
    kr_ne = None
    down = q.ref("self._set(self.get_node(node[1]), R, value)", R=kr)
    leafnew = q.ref("self._persist_node([compute_leaf_key(R[1:]), value])", R=kr)
    if not cr_ne:
        kr_ne = q.nonempty(kr, "whether the key is exhausted")
        if not kr_ne and not q.node_is_ext():
            return q.ref("[node[0], value]")
        if q.node_is_ext():
            new = down
        else:
            new = upd(q.ref("[BLANK_NODE] * 16 + [node[1]]"), q.ref("R[0]", R=kr), leafnew)
    else:
        base = q.ref("[BLANK_NODE] * 17")
        ext = q.node_is_ext()
        one = None
        if ext:
            lo, hi = q.eng.len_of(cr, q.st.facts)
            if lo == hi == 1:
                one = True
            elif lo >= 2:
                one = False
            else:
                raise Undecided("whether exactly one nibble of the extension's path remains")
        if ext and one:
            slot = q.ref("node[1]")
        elif ext:
            slot = q.ref("self._persist_node([compute_extension_key(R[1:]), node[1]])", R=cr)
        else:
            slot = q.ref("self._persist_node([compute_leaf_key(R[1:]), node[1]])", R=cr)
        new = upd(base, q.ref("R[0]", R=cr), slot)
        if q.nonempty(kr, "whether the key is exhausted"):
            new = upd(new, q.ref("R[0]", R=kr), leafnew)
        else:
            new = upd(new, C(-1), V)
    if q.nonempty(cp, "whether a common prefix remains"):
        return q.ref("[compute_extension_key(P), self._persist_node(X)]", P=cp, X=new)
    return new


def ref_persist(q):
    m = q.ref("self._node_to_db_mapping(node)")
    key, val = ("sub", m, C(0)), ("sub", m, C(1))
    stored = q.called(HEX + "._set_db_value")
    isnone = None
    for op, l, r in q.rels:
        if l == val and r == C(None) and op in ("is", "isnot", "==", "!="):
            isnone = op in ("is", "==")
    v = q.truth.get(val)
    if isnone is None and v is not None:
        isnone = not v
    if isnone is None:
        raise Undecided("whether the node is stored by hash (value is not None)")
    if not isnone and not stored:
        raise Mismatch("a node that is referenced by hash is not written to the database")
    if isnone and stored:
        raise Mismatch("an embedded node is written to the database")
    return key


class Mismatch(Exception):
    pass


TABLE = [
    ("_set", ref_set, 3), ("_delete", ref_delete, 3), ("_set_branch_node", ref_set_branch, 2), ("_delete_branch_node", ref_delete_branch, 3),
    ("_delete_kv_node", ref_delete_kv, 7), ("_normalize_branch_node", ref_normalize, 4), ("_set_kv_node", ref_set_kv, 10), ("_persist_node", ref_persist, 2),
]


@rule("HEXTAB", ["C01", "C02", "C06"])
def hextab(ctx, pid):
    """Outcome tables of the hexary insert / delete family (see the module docstring)."""
    for name, reff, min_rows in TABLE:
        f = H(ctx, name)
        init = _init_state(ctx, f)
        probs, unsure = [], []
        rows = 0
        for p, st in (pq.states_init(ctx, f, init) if init is not None else pq.states(ctx, f)):
            if p.exit[0] != "return":
                continue
            q = Facts(ctx, f, st)
            try:
                want = reff(q)
            except Undecided as u:
                unsure.append((p.exit[1], "a path returns `%s` without deciding %s" % (tstr(st.ret)[:60], u.what)))
                continue
            except Mismatch as m:
                probs.append((p.exit[1], str(m)))
                continue
            rows += 1
            wants = want if isinstance(want, set) else {want}
            want = sorted(wants, key=str)[0]
            if st.ret not in wants:
                probs.append((p.exit[1], "returns `%s`; under the conditions of this path the result has to be `%s`" % (tstr(st.ret)[:120], tstr(want)[:120])))
        c = "outcome-table:%s" % fkey(f)
        if probs:
            node, why = probs[0]
            ctx.bad(c, f.loc(node), why, witness={"problems": sorted({w for _, w in probs})[:6]})
        elif unsure:
            node, why = unsure[0]
            ctx.unsure(c, f.loc(node), why)
        elif rows < min_rows:
            ctx.unsure(c, f.loc(), "only %d return paths were classified, %d were confirmed by hand" % (rows, min_rows))
        else:
            ctx.ok(c, f.loc(), "%d return paths: every returned value is the one the reference table gives for the path's conditions" % rows)
