"""SparseMerkleTree / SparseMerkleProof rules (C14, C15): PROV2, PROV13, SIB5, PROV10, SIB12, ORD2s, EFF1s,
ORD6, REL2, EFF5, AL3, PROV11."""
import ast

from ..core import rule
from ..model import walk_shallow, AnalysisError
from .. import util, pq
from ..pq import S, rel_norm, truth_norm
from ..sym import C, tstr, is_c, INF
from ..util import fkey, Trace

SMT = "trie.smt:SparseMerkleTree"
PROOF = "trie.smt:SparseMerkleProof"
KECCAK = "ext:eth_utils.keccak"


def _subterms(t):
    if isinstance(t, tuple) and t and isinstance(t[0], str):
        yield t
    if isinstance(t, tuple):
        for x in t:
            if isinstance(x, tuple):
                yield from _subterms(x)


def _from_lin(form):
    """linear form ({atom: coeff}, const) -> term"""
    atoms, const = form
    t = None
    for a, co in sorted(atoms.items(), key=lambda kv: -kv[1]):
        x = a if abs(co) == 1 else ("bin", "*", C(abs(co)), a)
        if t is None:
            t = x if co > 0 else ("un", "-", x)
        else:
            t = ("bin", "+" if co > 0 else "-", t, x)
    if t is None:
        return C(const)
    if const:
        t = ("bin", "+" if const > 0 else "-", t, C(abs(const)))
    return t


@rule("PROV2", ["C14", "C15"])
def prov2(ctx, pid):
    """delete is set(key, <configured default>); the default is assigned once from the constructor
    parameter; from_db forwards its configuration to the constructor."""
    eng = S(ctx)
    c = ctx.P.cls(SMT)
    f = c.methods["delete"]
    rets = set()
    for p, st in pq.states(ctx, f):
        if p.exit[0] == "return":
            rets.add(st.ret)
        elif p.exit[0] == "fall":
            rets.add(C(None))
    want = ("call", SMT + ".set", (("self",), ("p", "key"), ("attr", ("self",), "_default")), ())
    cst = "delete-writes-default:SparseMerkleTree.delete"
    if rets == {want}:
        ctx.ok(cst, f.loc(), "every path returns self.set(key, self._default)")
    else:
        other = [r for r in rets if r != want]
        ctx.bad(cst, f.loc(), "delete returns `%s`; it must be the result of set(key, self._default) on every path" % tstr(other[0])[:70],
                witness={"returns": [tstr(r) for r in rets]})
    # _default assigned once, from the ctor parameter
    stores = []
    for g in util.class_functions(ctx, SMT):
        for e in ctx.E.primitives(g):
            if e.op == "SET" and e.loc[1] and e.loc[1][-1] == "_default":
                stores.append((g, e))
    cst = "default-provenance:SparseMerkleTree"
    init = c.methods["__init__"]
    ok = len(stores) == 1 and stores[0][0] is init and isinstance(stores[0][1].value, ast.Name) and stores[0][1].value.id == "default"
    if ok:
        ctx.ok(cst, stores[0][1].where(), "_default is assigned once, in __init__, from the `default` parameter")
    else:
        ctx.bad(cst, init.loc(), "_default is assigned %d time(s) (%s); it must be the constructor's `default` only"
                % (len(stores), ", ".join("%s: %s" % (fkey(g), util.norm_src(e.node)) for g, e in stores)))
    # (that the initial tree is folded up from the default leaf is decided by SMTINIT, on terms)
    # PROV13 from_db forwards key_size / default, installs db and root
    g = c.methods["from_db"]
    ctor = [n for n in walk_shallow(g.node) if isinstance(n, ast.Call) and any(t.kind == "ctor" and t.cls is c for t in ctx.R.resolve_call(n, g, count=False))]
    cst = "from-db-config:SparseMerkleTree.from_db"
    if len(ctor) != 1:
        ctx.bad(cst, g.loc(), "from_db does not construct exactly one tree", rule="PROV13")
    else:
        amap = ctx.E.bind_args(ctor[0], init, skip_self=True)
        miss = [pn for pn in ("key_size", "default") if not (isinstance(amap.get(pn), ast.Name) and amap[pn].id == pn)]
        if miss:
            ctx.bad(cst, g.loc(ctor[0]), "from_db does not forward `%s` to the constructor: a reopened tree would use the built-in default" % ", ".join(miss), rule="PROV13")
        else:
            ctx.ok(cst, g.loc(ctor[0]), "key_size and default are forwarded to the constructor", rule="PROV13")
        st_db = [e for e in ctx.E.primitives(g) if e.op == "SET" and e.loc[1] and e.loc[1][-1] == "db" and isinstance(e.value, ast.Name) and e.value.id == "db"]
        st_root = [e for e in ctx.E.primitives(g) if e.op == "SET" and e.loc[1] and e.loc[1][-1] == "root_hash" and isinstance(e.value, ast.Name) and e.value.id == "root_hash"]
        if st_db and st_root:
            ctx.ok("from-db-state:SparseMerkleTree.from_db", g.loc(), "the given db and root hash are installed on the new tree", rule="PROV13")
        else:
            ctx.bad("from-db-state:SparseMerkleTree.from_db", g.loc(), "from_db does not install the given db / root hash", rule="PROV13")
    # EFF1s: nothing is ever deleted from the db, readers keep no state
    Ssum = ctx.E.summaries()
    bad = None
    for g in util.class_functions(ctx, SMT):
        for e in Ssum[g.qual]:
            if e.state == "DB" and e.op == "D" and util.real(e):
                bad = bad or (g, e)
    if bad:
        ctx.bad("no-delete:SparseMerkleTree", bad[1].where(), "`%s` removes an entry from the node db; nodes are content-addressed and shared between keys"
                % util.norm_src(bad[1].node), rule="EFF1")
    else:
        ctx.ok("no-delete:SparseMerkleTree", "trie/smt.py", "no method of SparseMerkleTree deletes from the db", rule="EFF1")
    # SIB1 (smt): dunders forward, exists is "get did not raise KeyError"
    for dn, mn in (("__getitem__", "get"), ("__setitem__", "set"), ("__delitem__", "delete"), ("__contains__", "exists")):
        d = c.methods.get(dn)
        if d is None:
            raise AnalysisError("anchor vanished: SparseMerkleTree.%s" % dn)
        calls = [n for n in walk_shallow(d.node) if isinstance(n, ast.Call)]
        ok = len(calls) == 1 and any(t.kind == "def" and t.func is c.methods[mn] for t in ctx.R.resolve_call(calls[0], d, count=False)) \
            and [a.id if isinstance(a, ast.Name) else None for a in calls[0].args] == d.params[1:]
        if ok:
            ctx.ok("dunder:SparseMerkleTree.%s" % dn, d.loc(), "forwards its arguments in order to %s" % mn, nontrivial=False, rule="SIB1")
        else:
            ctx.bad("dunder:SparseMerkleTree.%s" % dn, d.loc(), "%s does not simply forward to %s" % (dn, mn), rule="SIB1")


def _bit_names(f, testnode):
    """(name of the moving bit variable, names assigned in the arms of the `if path & bit`) found from the
    syntax around the tested expression, so that the rule does not depend on what the locals are called."""
    src = testnode
    if isinstance(testnode, ast.Name):
        # `hit = path & bit; if hit:` - the tested local is the bit test
        for n in walk_shallow(f.node):
            if isinstance(n, ast.Assign) and len(n.targets) == 1 and isinstance(n.targets[0], ast.Name) and n.targets[0].id == testnode.id \
                    and isinstance(n.value, ast.BinOp) and isinstance(n.value.op, ast.BitAnd):
                src = n.value
    ops = [n.id for n in ast.walk(src) if isinstance(n, ast.Name)]
    bitvar = None
    for n in walk_shallow(f.node):
        if isinstance(n, ast.AugAssign) and isinstance(n.target, ast.Name) and n.target.id in ops and isinstance(n.op, (ast.LShift, ast.RShift)):
            bitvar = n.target.id
        if isinstance(n, ast.Assign) and len(n.targets) == 1 and isinstance(n.targets[0], ast.Name) and n.targets[0].id in ops \
                and isinstance(n.value, ast.BinOp) and n.targets[0].id in [x.id for x in ast.walk(n.value) if isinstance(x, ast.Name)]:
            bitvar = n.targets[0].id  # x = x << 1, x = x * 2, ..
    assigned = []
    for n in walk_shallow(f.node):
        if isinstance(n, ast.If) and (n.test is testnode or util.contains(n.test, testnode)):
            for arm in (n.body, n.orelse):
                for s_ in arm:
                    if isinstance(s_, ast.Assign) and isinstance(s_.targets[0], ast.Name):
                        assigned.append(s_.targets[0].id)
    nodevar = assigned[0] if assigned and len(set(assigned)) == 1 else None
    if nodevar is None:
        # `sibling, cur = (left, right)` in both arms: the node variable is the one the loop reads the db with
        for lp in walk_shallow(f.node):
            if isinstance(lp, (ast.For, ast.While)):
                for n in ast.walk(lp):
                    if isinstance(n, ast.Subscript) and isinstance(n.ctx, ast.Load) and isinstance(n.slice, ast.Name) \
                            and isinstance(n.value, ast.Attribute) and n.value.attr == "db":
                        nodevar = n.slice.id
    return bitvar, nodevar


@rule("SIB5", ["C14", "C15"])
def sib5(ctx, pid):
    """Bit direction and sibling orientation agree in _get / set / calc_root: a set bit means the
    current node is the right child; root->leaf pairs with MSB->LSB, leaf->root with LSB->MSB."""
    eng = S(ctx)
    # ---- _get
    f = ctx.P.func(SMT + "._get")
    probs = []
    seen = 0
    for p, st in pq.states(ctx, f, unroll=1):
        tb0 = None
        bit = None
        for t, pol, node in st.log:
            tt, pp = truth_norm(t, pol)
            if tt[0] == "bin" and tt[1] == "&":
                bit = (tt, pp)
                bitvar, nodevar = _bit_names(f, node)
        if bit is None:
            continue
        seen += 1
        tt, pp = bit
        node_t = None
        # the node read in this iteration
        apps = []
        for ev in st.events:
            if ev.k == "call" and ev.a == "ok":
                tg = ctx.R.resolve_call(ev.node, f, count=False)[0]
                if tg.kind == "cmeth" and tg.meth == "append":
                    apps.append(eng.ev(ev.node.args[0], f, st))
            if ev.k == "stmt" and isinstance(ev.node, ast.AugAssign) and isinstance(ev.node.op, ast.Add) and isinstance(ev.node.target, ast.Name) \
                    and isinstance(ev.node.value, ast.List) and len(ev.node.value.elts) == 1:
                apps.append(eng.ev(ev.node.value.elts[0], f, st))  # xs += [x] is xs.append(x)
        nh = st.env.get(nodevar)
        if not apps or nh is None or nh[0] != "slice" or apps[0][0] != "slice":
            probs.append("cannot interpret the descent step")
            continue
        sib, nxt = apps[0], nh
        sib_left = (sib[2], sib[3]) == (None, C(32))
        nxt_right = (nxt[2], nxt[3]) == (C(32), None)
        sib_right = (sib[2], sib[3]) == (C(32), None)
        nxt_left = (nxt[2], nxt[3]) == (None, C(32))
        if pp and not (sib_left and nxt_right):
            probs.append("bit set: sibling `%s`, next `%s`; expected sibling = left half, next = right half" % (tstr(sib)[-12:], tstr(nxt)[-12:]))
        if not pp and not (sib_right and nxt_left):
            probs.append("bit clear: sibling `%s`, next `%s`; expected sibling = right half, next = left half" % (tstr(sib)[-12:], tstr(nxt)[-12:]))
        # bit operands: path = to_int(key); first bit is 1 << (depth - 1), then >>= 1
        a, b = tt[2], tt[3]
        if b == ("call", "ext:eth_utils.to_int", (("p", "key"),), ()):
            a, b = b, a  # `&` is commutative
        if a != ("call", "ext:eth_utils.to_int", (("p", "key"),), ()):
            probs.append("the tested path is `%s`, not to_int(key)" % tstr(a)[:40])
        want_tb = ("bin", "<<", C(1), ("bin", "-", ("attr", ("self",), "depth"), C(1)))
        if b != want_tb:
            probs.append("first tested bit is `%s`, expected 1 << (depth - 1) (MSB first, root -> leaf)" % tstr(b)[:50])
        tb_after = st.env.get(bitvar)
        if tb_after != ("bin", ">>", want_tb, C(1)):
            probs.append("the tested bit moves by `%s`, expected >>= 1" % tstr(tb_after)[:50])
    c = "direction:SparseMerkleTree._get"
    concrete = [x for x in probs if not x.startswith("cannot interpret")]
    if concrete:
        ctx.bad(c, f.loc(), concrete[0], witness={"problems": sorted(set(probs))})
    elif probs:
        # the step is written in a shape the table does not read (benign/smtf-2: siblings collected as
        # (sibling, child) pairs): a refusal, not a verdict
        ctx.unsure(c, f.loc(), probs[0] + ": sibling / next-hash are not plain halves of the node on this path; direction table not decided")
    elif seen < 2:
        ctx.bad(c, f.loc(), "no bit test found in the descent loop")
    else:
        ctx.ok(c, f.loc(), "MSB first; bit set -> go right, collect the left sibling; bit clear -> go left, collect the right sibling")
    # what _get hands back as the value is what the db holds under the hash the walk ended at - not a function of it
    # (`stored or default` turns a stored b"" into the default while the tree still commits to keccak(b""))
    vals = set()
    for p, st in pq.states(ctx, f, unroll=1):
        if p.exit[0] == "return" and st.ret is not None:
            r = st.ret
            vals.add(r[1][0] if r[0] == "tuple" and len(r[1]) == 2 else r)
    okv = bool(vals) and all(v[0] == "sub" and v[1] == ("attr", ("self",), "db") for v in vals)
    if okv:
        ctx.ok("leaf-read:SparseMerkleTree._get", f.loc(), "the value returned is the db entry under the hash the walk ended at", rule="PROV10")
    else:
        ctx.bad("leaf-read:SparseMerkleTree._get", f.loc(), "_get hands back `%s` as the value, expected the db entry under the leaf hash unchanged"
                % "; ".join(tstr(v)[:60] for v in sorted(vals, key=str)[:2]), rule="PROV10")
    # ---- set / calc_root (leaf -> root)
    for q in (SMT + ".set", "trie.smt:calc_root"):
        f = ctx.P.func(q)
        probs = []
        unsure = []
        seen = 0
        # the fold is the last loop (in execution order) that tests a bit: when the walk that collects the branch
        # was inlined into `set`, its own bit tests (MSB first) are not the fold's
        def loops_in_order(block, acc):
            for s_ in block:
                if isinstance(s_, (ast.For, ast.While)):
                    acc.append(s_)
                for fld in ("body", "orelse", "finalbody"):
                    sub = getattr(s_, fld, None)
                    if isinstance(sub, list) and sub and isinstance(sub[0], ast.stmt):
                        loops_in_order(sub, acc)
                if isinstance(s_, ast.Try):
                    for h in s_.handlers:
                        loops_in_order(h.body, acc)
            return acc
        bit_loops = [lp for lp in loops_in_order(f.node.body, []) if any(isinstance(n_, ast.BinOp) and isinstance(n_.op, ast.BitAnd) for n_ in ast.walk(lp))]
        fold_ids = {id(n_) for n_ in ast.walk(bit_loops[-1])} if bit_loops else None
        for p, st in pq.states(ctx, f, unroll=1):
            bit = None
            for t, pol, node in st.log:
                tt, pp = truth_norm(t, pol)
                if tt[0] == "bin" and tt[1] == "&" and (fold_ids is None or id(node) in fold_ids):
                    bit = (tt, pp)
                    bitvar, nodevar = _bit_names(f, node)
            if bit is None:
                continue
            seen += 1
            tt, pp = bit
            if tt[3] == ("call", "ext:eth_utils.to_int", (("p", "key"),), ()):
                tt = (tt[0], tt[1], tt[3], tt[2])  # `&` is commutative
            if bitvar is None:
                # second spelling: `(path >> i) & 1` with i, sibling from enumerate(reversed(branch)) - bit i for the
                # i-th sibling from the leaf end is LSB first by construction
                shifted, one = tt[2], tt[3]
                if one != C(1) and shifted == C(1):
                    shifted, one = one, shifted
                okshift = False
                if one == C(1) and shifted[0] == "bin" and shifted[1] == ">>" and shifted[2] == ("call", "ext:eth_utils.to_int", (("p", "key"),), ()):
                    ix = shifted[3]
                    if ix[0] == "sub" and ix[2] == C(0) and ix[1][0] == "iter" and ix[1][1][0] == "call" and ix[1][1][1] == "ext:enumerate" \
                            and ix[1][1][2] and ix[1][1][2][0][0] == "call" and ix[1][1][2][0][1] == "ext:reversed":
                        okshift = True
                        sib_term = eng.mk_sub(ix[1], C(1))
                if not okshift:
                    unsure.append("the bit test `%s` is neither the moving-mask form nor (path >> i) & 1 over enumerate(reversed(branch))" % tstr(tt)[:60])
                    continue
                cat = None
                for v_ in st.env.values():
                    w_ = v_
                    if isinstance(w_, tuple) and w_ and w_[0] == "call" and w_[1] == KECCAK and w_[2]:
                        w_ = w_[2][0]
                    if isinstance(w_, tuple) and len(w_) == 4 and w_[0] == "bin" and w_[1] == "+" and (w_[2] == sib_term) != (w_[3] == sib_term):
                        cat = w_
                if cat is None:
                    unsure.append("cannot interpret the parent construction of the enumerate form")
                    continue
                sib_first = cat[2] == sib_term
                if pp and not sib_first:
                    probs.append("bit set: parent is `%s`; expected sibling + node (the current node is the right child)" % tstr(cat)[:60])
                if not pp and sib_first:
                    probs.append("bit clear: parent is `%s`; expected node + sibling (the current node is the left child)" % tstr(cat)[:60])
                continue
            if tt[3] != C(1):
                probs.append("first tested bit is `%s`, expected 1 (LSB first, leaf -> root)" % tstr(tt[3])[:40])
            if st.env.get(bitvar) != ("bin", "<<", C(1), C(1)) and st.env.get(bitvar) != C(2):
                probs.append("the tested bit moves by `%s`, expected <<= 1" % (tstr(st.env.get(bitvar))[:40] if bitvar else None))
            if tt[2] != ("call", "ext:eth_utils.to_int", (("p", "key"),), ()):
                probs.append("the tested path is `%s`, not to_int(key)" % tstr(tt[2])[:40])
            nv = st.env.get(nodevar)
            # set: node = sibling + node_hash ; calc_root: node_hash = keccak(sibling + node_hash)
            cat = nv
            if cat is not None and cat[0] == "call" and cat[1] == KECCAK:
                cat = cat[2][0]
            if cat is None or cat[0] != "bin" or cat[1] != "+":
                # whatever the locals are called and however the two halves are selected (`left, right = ..` in
                # the arms, one shared concatenation after them): the parent is the one concatenation of a
                # sibling taken from the branch with something else that a local holds at the end of the round
                cands = set()
                for v_ in st.env.values():
                    w_ = v_
                    if isinstance(w_, tuple) and w_ and w_[0] == "call" and w_[1] == KECCAK and w_[2]:
                        w_ = w_[2][0]
                    if isinstance(w_, tuple) and len(w_) == 4 and w_[0] == "bin" and w_[1] == "+" and (w_[2][0] == "iter") != (w_[3][0] == "iter"):
                        cands.add(w_)
                cat = next(iter(cands)) if len(cands) == 1 else None
            if cat is None or cat[0] != "bin" or cat[1] != "+":
                unsure.append("cannot interpret the parent construction `%s`" % tstr(nv)[:60])
                continue
            left, right = cat[2], cat[3]
            sib_first = left[0] == "iter"
            sib_last = right[0] == "iter"
            if pp and not (sib_first and not sib_last):
                probs.append("bit set: parent is `%s`; expected sibling + node (the current node is the right child)" % tstr(cat)[:60])
            if not pp and not (sib_last and not sib_first):
                probs.append("bit clear: parent is `%s`; expected node + sibling (the current node is the left child)" % tstr(cat)[:60])
            it = left if sib_first else right
            if it[0] == "iter" and not (it[1][0] == "call" and it[1][1] == "ext:reversed"):
                probs.append("siblings are consumed as `%s`, expected reversed(branch) (leaf -> root)" % tstr(it[1])[:40])
        c = "direction:%s" % fkey(f)
        if probs:
            ctx.bad(c, f.loc(), probs[0], witness={"problems": sorted(set(probs))})
        elif unsure:
            ctx.unsure(c, f.loc(), unsure[0])
        elif seen < 2:
            ctx.bad(c, f.loc(), "no bit test found in the fold loop")
        else:
            ctx.ok(c, f.loc(), "LSB first over reversed(branch); bit set -> sibling + node, bit clear -> node + sibling")
    # calc_root starts the fold at keccak(value)
    cr = ctx.P.func("trie.smt:calc_root")
    starts = set()
    for p, st in pq.states(ctx, cr, unroll=1):
        if p.exit[0] == "return" and not any(ev.k == "loop" for ev in st.events):
            starts.add(st.ret)
    wstart = ("call", KECCAK, (("p", cr.params[1]),), ())
    if starts == {wstart}:
        ctx.ok("fold-start:calc_root", cr.loc(), "the fold starts at keccak(value)", rule="SIB5")
    else:
        ctx.bad("fold-start:calc_root", cr.loc(), "with an empty branch calc_root returns `%s`, expected keccak(value)" % "; ".join(tstr(x)[:50] for x in starts), rule="SIB5")
    # PROV10: set returns the hashes root -> leaf
    f = ctx.P.func(SMT + ".set")
    rets = set()
    apps = set()
    # the list that is returned (reversed): tuple(reversed(<name>))
    pu = None
    for n in walk_shallow(f.node):
        if isinstance(n, ast.Return) and n.value is not None:
            nm = [x.id for x in ast.walk(util.ret_deref(f, n)) if isinstance(x, ast.Name) and x.id not in ("tuple", "reversed", "list")]
            if len(nm) == 1:
                pu = nm[0]
    for p, st in pq.states(ctx, f, unroll=1):
        if p.exit[0] == "return":
            rets.add(st.ret)
        for ev in st.events:
            if ev.k == "call" and ev.a == "ok":
                tg = ctx.R.resolve_call(ev.node, f, count=False)[0]
                if tg.kind == "cmeth" and tg.meth == "append" and isinstance(tg.recv, ast.Name) and (tg.recv.id == pu or (pu is not None and st.env.get(tg.recv.id) is not None and st.env.get(tg.recv.id) == st.env.get(pu))):
                    apps.add(eng.ev(ev.node.args[0], f, st))
    # the leaf that is written is the given value itself
    leafs = set()
    for p, st in pq.states(ctx, f, unroll=1):
        if p.exit[0] != "return":
            continue
        first = None
        for ev in st.events:
            if ev.k == "call" and ev.a == "ok":
                tg = ctx.R.resolve_call(ev.node, f, count=False)[0]
                if tg.kind == "cmeth" and tg.meth == "append" and isinstance(tg.recv, ast.Name) and (tg.recv.id == pu or (pu is not None and st.env.get(tg.recv.id) is not None and st.env.get(tg.recv.id) == st.env.get(pu))) and first is None:
                    first = eng.ev(ev.node.args[0], f, st)
        if first is not None:
            leafs.add(first)
    wleaf = ("call", KECCAK, (("p", f.params[2]),), ())
    if leafs and leafs != {wleaf}:
        # with one unrolled iteration the appended hash is the leaf's
        ctx.bad("leaf-is-value:SparseMerkleTree.set", f.loc(), "the leaf written by set is `%s`, expected keccak(value) for exactly the given value (a blank value is stored as blank, not replaced)" % "; ".join(tstr(x)[:60] for x in leafs), rule="PROV10")
    elif leafs:
        ctx.ok("leaf-is-value:SparseMerkleTree.set", f.loc(), "the first hashed node is the given value", rule="PROV10")
    c = "returned-order:SparseMerkleTree.set"
    good_ret = rets and all(r[0] == "call" and r[1] == "ext:tuple" and r[2][0][0] == "call" and r[2][0][1] == "ext:reversed" for r in rets)
    good_app = apps and all(a[0] == "call" and a[1] == KECCAK for a in apps)
    if good_ret and good_app:
        ctx.ok(c, f.loc(), "hashes are appended leaf -> root and returned as tuple(reversed(...)), i.e. root -> leaf", rule="PROV10")
    elif not good_ret and any(util.opaque_heads(r, ("gen",)) for r in rets):
        ctx.unsure(c, f.loc(), "set returns `%s`: a comprehension this rule does not read; order of the returned hashes not decided" % "; ".join(tstr(r)[:50] for r in rets), rule="PROV10")
    elif not good_ret:
        ctx.bad(c, f.loc(), "set returns `%s`; the leaf -> root list must be reversed before it is returned" % "; ".join(tstr(r)[:50] for r in rets), rule="PROV10")
    else:
        ctx.bad(c, f.loc(), "the returned list does not hold the keccak of each rebuilt node", rule="PROV10")
    # ORD2s: the read of the branch precedes the first db write in set
    tr = Trace(ctx, f)
    bad = None
    for p in ctx.X.paths(f):
        wrote = False
        for ev in p.events:
            if ev.k in ("call", "src") and ev.a != "ok":
                continue
            for e in tr.at(ev):
                if e.state == "DB" and util.is_self_root(e):
                    if e.op == "W":
                        wrote = True
                    elif e.op == "R" and wrote:
                        bad = bad or e
    if bad:
        ctx.bad("reads-before-writes:SparseMerkleTree.set", bad.where(), "a db read follows a db write inside set: a missing node would leave a half-written path", rule="ORD2")
    else:
        ctx.ok("reads-before-writes:SparseMerkleTree.set", f.loc(), "every db read of set precedes its first db write", rule="ORD2")
    # SIB12: get and branch apply the same blank test
    c_ = ctx.P.cls(SMT)
    tests = {}
    for name in ("get", "branch"):
        g = c_.methods[name]
        rows = set()
        for p, st in pq.states(ctx, g):
            lr = pq.local_raise(p)
            conds = frozenset(rel_norm(t, pol) or ("truth",) + truth_norm(t, pol) for t, pol, _ in st.log)
            if lr is not None:
                rows.add(("raise:" + p.exit[1], conds))
            elif p.exit[0] == "return":
                rows.add(("return:%s" % ("value" if st.ret[2] == C(0) else "branch" if st.ret[0] == "sub" else tstr(st.ret)), conds))
        tests[name] = rows
    vcall = ("call", SMT + "._get", (("self",), ("p", "key")), ())
    blank = ("==", ("sub", vcall, C(0)), C(b""))
    nblank = ("!=", ("sub", vcall, C(0)), C(b""))
    want_get = {("raise:KeyError", frozenset([blank])), ("return:value", frozenset([nblank]))}
    want_br = {("raise:KeyError", frozenset([blank])), ("return:branch", frozenset([nblank]))}
    cst = "blank-is-absent:SparseMerkleTree"
    if tests["get"] == want_get and tests["branch"] == {("raise:KeyError", frozenset([blank])), ("return:value", frozenset([nblank]))} - {("return:value", frozenset([nblank]))} | {r for r in tests["branch"] if r[0].startswith("return")} and \
            all(r[1] == frozenset([nblank]) for r in tests["branch"] if r[0].startswith("return")):
        ctx.ok(cst, c_.methods["get"].loc(), "get and branch raise KeyError exactly when the stored value is blank", rule="SIB12")
    else:
        ctx.bad(cst, c_.methods["get"].loc(), "get / branch do not share the blank test: get %s, branch %s"
                % (sorted((o, sorted(map(str, cs))) for o, cs in tests["get"])[:2], sorted((o, sorted(map(str, cs))) for o, cs in tests["branch"])[:2]), rule="SIB12")
    # exists is "get did not raise KeyError"
    ex = c_.methods["exists"]
    outs = set()
    for p in ctx.X.paths(ex):
        if p.exit[0] == "return":
            caught = any(ev.k == "handler" and ev.a == "KeyError" for ev in p.events)
            rv = util.path_deref(p, p.exit[1].value)
            outs.add((caught, rv.value if isinstance(rv, ast.Constant) else "?"))
    if outs == {(False, True), (True, False)}:
        ctx.ok("exists:SparseMerkleTree.exists", ex.loc(), "exists is True iff get(key) does not raise KeyError", rule="SIB1")
    else:
        ctx.bad("exists:SparseMerkleTree.exists", ex.loc(), "exists is not `get did not raise KeyError`: %s" % sorted(outs, key=str), rule="SIB1")


# ---------------------------------------------------------------------------
def _hb_forms(eng, st, pd, size):
    """Accepted linear forms of the branch point: (size - 1) - highest set bit of path_diff."""
    from ..sym import linform
    forms = []
    # (i) scan: bit iterates reversed(range(size)) and the path assumes path_diff & (1 << bit) > 0
    scan = ("call", "ext:reversed", (("call", "ext:range", (size,), ()),), ())
    for t, pol, tnode in st.log:
        tt, pp = truth_norm(t, pol)
        if pp and tt[0] == "bin" and tt[1] == "&":
            for a, b in ((tt[2], tt[3]), (tt[3], tt[2])):
                if a == pd and b[0] == "bin" and b[1] == "<<" and b[2] == C(1) and b[3][0] == "iter" and b[3][1] == scan:
                    # the scan runs from the top bit down: the hit is the *highest* set bit only if the scan stops there
                    stops = False
                    at = [i for i, ev in enumerate(st.events) if ev.k == "assume" and ev.node is tnode]
                    for ev in st.events[at[-1] + 1:] if at else []:
                        if ev.k == "stmt" and isinstance(ev.node, ast.Break) or ev.k == "return":
                            stops = True
                            break
                        if ev.k in ("loopexit", "loop") or (ev.k == "stmt" and isinstance(ev.node, ast.Continue)):
                            break
                    if stops:
                        forms.append((({size: 1, b[3]: -1}, -1), ({b[3]: -1}, -1)))
    # (ii) bit_length: highest set bit = path_diff.bit_length() - 1
    bl = ("call", "m:bit_length", (pd,), ())
    forms.append((({size: 1, bl: -1}, 0), ({bl: -1}, 0)))
    return forms


@rule("ORD6", ["C15"])
def ord6(ctx, pid):
    """SparseMerkleProof.update: the shortness check dominates the only branch write and is the
    exact bound (REL2); same-key path writes only the value, other-key path exactly one branch slot
    (EFF5); copies in and out (AL3); the root is derived on demand (PROV11)."""
    from ..sym import linform, _lin
    eng = S(ctx)
    f = ctx.P.func(PROOF + ".update")
    tr = Trace(ctx, f)
    nu = ("p", f.params[3])
    size = ("attr", ("self",), "_branch_size")
    probs = []
    n_same = n_other = n_refuse = 0
    # path_diff term (whatever the local is called): to_int(tracked key) ^ to_int(update key)
    a1 = ("call", "ext:eth_utils.to_int", (("attr", ("self",), "key"),), ())
    a2 = ("call", "ext:eth_utils.to_int", (("attr", ("self",), "_key"),), ())
    b1 = ("call", "ext:eth_utils.to_int", (("p", f.params[1]),), ())
    pds = [eng.mk_bin("^", x, b1) for x in (a1, a2)]
    locals_ = set(ctx.E.bindings(f))

    def unbound(st_):
        """the path uses a local that no statement on it has bound (the bit scan found nothing):
        impossible for path_diff != 0 within branch_size bits (the key length is validated)"""
        for t_, pol_, _n in st_.log:
            if any(x[0] == "g" and x[1] in locals_ for x in _subterms(t_)):
                return True
        for ev_ in st_.events:
            if ev_.k == "stmt" and isinstance(ev_.node, ast.Assign):
                for nm in ast.walk(ev_.node):
                    if isinstance(nm, ast.Name) and isinstance(nm.ctx, ast.Load) and nm.id in locals_ and nm.id not in st_.env and nm.id not in f.all_params():
                        return True
        return False

    for p, st in pq.states(ctx, f, unroll=1):
        if unbound(st):
            continue
        effs = []
        for ev in st.events:
            if ev.k in ("call", "src") and ev.a != "ok":
                continue
            for e in tr.at(ev):
                if e.state == "PRF" and e.op in ("W", "SET", "D", "M") and util.is_self_root(e):
                    effs.append((ev, e))
        pd = next((v for v in st.env.values() if v in pds), None)
        same = None
        if pd is not None:
            if st.facts.eq.get(pd) == 0:
                same = True
            elif 0 in st.facts.ne.get(pd, ()):
                same = False
            elif st.facts.truth.get(pd) is not None:
                same = not st.facts.truth.get(pd)  # `if not path_diff:` - the truth of an int is `!= 0`
        lr = pq.local_raise(p)
        if lr is not None and p.exit[1].endswith("ValidationError") and same is False:
            n_refuse += 1
            # the refusal must imply len(node_updates) <= branch point (any accepted form)
            okr = False
            for (formA, formB) in _hb_forms(eng, st, pd, size):
                base, k = _lin(_from_lin(formA))
                lo, hi = st.facts.offs.get((nu, base), (-INF, INF))
                if hi <= k:
                    okr = True
            if not okr:
                probs.append(("REL2", "the refusal is taken on a path that does not imply len(node_updates) <= branch point (offsets known: %s)"
                              % {tstr(kk[1])[:40]: v for kk, v in st.facts.offs.items() if kk[0] == nu}))
            if effs:
                probs.append(("ORD6", "the proof is modified before the refusal"))
            continue
        if p.exit[0] == "raise":
            if effs:
                probs.append(("ORD6", "the proof is modified on a path that ends in %s" % p.exit[1]))
            continue
        if same is True:
            n_same += 1
            kinds = [(e.op, e.loc[1][-1]) for ev, e in effs]
            if kinds != [("SET", "_value")]:
                probs.append(("EFF5", "same-key update has proof effects %s, expected exactly the store of _value" % kinds))
            else:
                e = effs[0][1]
                if not (isinstance(e.value, ast.Name) and e.value.id == f.params[2]):
                    probs.append(("EFF5", "same-key update stores `%s`, not the given value" % ast.unparse(e.value)))
        elif same is False:
            kinds = [(e.op, e.loc[1][-1]) for ev, e in effs]
            if not effs:
                # the bit scan ended without finding a differing bit: impossible for path_diff != 0
                continue
            n_other += 1
            if kinds != [("W", "_branch")]:
                probs.append(("EFF5", "other-key update has proof effects %s, expected exactly one store into _branch" % kinds))
                continue
            ev, e = effs[0]
            kt = eng.ev(e.key, f, st)
            vt = eng.ev(e.value, f, st)
            if not (vt[0] == "sub" and vt[1] == nu):
                probs.append(("EFF5", "the stored sibling is `%s`, not an element of node_updates" % tstr(vt)[:40]))
                continue
            it = vt[2]
            lk, li = linform(kt), linform(it)
            forms = _hb_forms(eng, st, pd, size)
            ok_k = lk is not None and any(lk == fa or lk == fb for fa, fb in forms)
            ok_i = li is not None and any(li == fa for fa, fb in forms)
            if not ok_k:
                probs.append(("EFF5", "the branch slot written is `%s`; expected (branch_size - 1) - highest differing bit" % tstr(kt)[:60]))
            if not ok_i:
                neg = li is not None and any(li == fb for fa, fb in forms)
                probs.append(("EFF5", "the sibling is read from node_updates[%s]%s; node_updates is root->leaf and may be shorter than the branch, so it must be indexed by the non-negative depth (branch_size - 1) - highest differing bit"
                              % (tstr(it)[:50], " - an index counted from the END of the list" if neg else "")))
            if ok_i:
                base, k = _lin(it)
                lo, hi = st.facts.offs.get((nu, base), (-INF, INF))
                if lo < k + 1:
                    probs.append(("REL2", "node_updates[%s] is read on a path that only guarantees len(node_updates) - index >= %s; the guard must refuse len(node_updates) <= branch point"
                                  % (tstr(it)[:40], "-inf" if lo <= -INF else lo - k)))
        else:
            if effs:
                probs.append(("EFF5", "the proof is modified on a path that does not decide whether the key is the tracked key"))
    ctx.expect_min("update paths (same key / other key / refusal)", min(n_same, n_other, n_refuse), 1, "all three outcomes exist")
    by_rule = {}
    for r, w in probs:
        by_rule.setdefault(r, []).append(w)
    for r, cst, okmsg in (("ORD6", "check-before-touch:SparseMerkleProof.update", "the proof is untouched on every raising path; the refusal precedes the branch write"),
                          ("REL2", "exact-bound:SparseMerkleProof.update", "refused iff len(node_updates) <= branch_point; the subscript is in range on the write path"),
                          ("EFF5", "effect-sets:SparseMerkleProof.update", "same key: only _value := value; other key: only _branch[bp] := node_updates[bp], bp from the highest differing bit")):
        counting_loop = any(isinstance(n_, ast.While) for n_ in ast.walk(f.node))
        if r in by_rule and counting_loop and r in ("REL2", "EFF5"):
            # the highest differing bit is found by a hand-written counting loop: the rule knows the scan over
            # reversed(range(size)) and bit_length(), and says so rather than calling the other shape wrong
            ctx.unsure(cst, f.loc(), "the branch point is computed by a `while` loop the rule cannot interpret (%s)" % by_rule[r][0][:80], rule=r)
        elif r in by_rule:
            # a branch point taken from a floating-point logarithm is wrong as such (log2 of an int beyond 2**53 is
            # rounded): the report does not depend on reading the rest of the expression
            firm = any("log2(" in w_ or "log(" in w_ for w_ in by_rule[r]) or any(isinstance(n_, ast.Attribute) and n_.attr in ("log2", "log") for n_ in ast.walk(f.node))
            ctx.bad(cst, f.loc(), by_rule[r][0], rule=r, witness={"problems": sorted(set(by_rule[r])), "firm": firm})
        else:
            ctx.ok(cst, f.loc(), okmsg, rule=r)
    # path_diff provenance
    for p, st in pq.states(ctx, f, unroll=1):
        pd = next((v for v in st.env.values() if isinstance(v, tuple) and v and v[0] == "bin" and v[1] == "^"), None)
        if pd is not None:
            a = ("call", "ext:eth_utils.to_int", (("attr", ("self",), "key"),), ())
            a2 = ("call", "ext:eth_utils.to_int", (("attr", ("self",), "_key"),), ())
            b = ("call", "ext:eth_utils.to_int", (("p", f.params[1]),), ())
            if pd in (("bin", "^", a, b), ("bin", "^", b, a), ("bin", "^", a2, b), ("bin", "^", b, a2)):
                ctx.ok("path-diff:SparseMerkleProof.update", f.loc(), "path_diff is to_int(tracked key) ^ to_int(update key)", rule="EFF5")
            else:
                ctx.bad("path-diff:SparseMerkleProof.update", f.loc(), "path_diff is `%s`" % tstr(pd)[:60], rule="EFF5")
            break
    # AL3 / PROV11
    c = ctx.P.cls(PROOF)
    init = c.methods["__init__"]
    st_b = [e for e in ctx.E.primitives(init) if e.op == "SET" and e.loc[1][-1] == "_branch"]
    if len(st_b) == 1 and ctx.E.is_fresh_expr(st_b[0].value, init) and not isinstance(st_b[0].value, ast.Name):
        ctx.ok("copy-in:SparseMerkleProof.__init__", st_b[0].where(), "the caller's branch is copied (`%s`)" % ast.unparse(st_b[0].value), rule="AL3")
    else:
        ctx.bad("copy-in:SparseMerkleProof.__init__", init.loc(), "the proof keeps the caller's branch object (later updates would write through to it)", rule="AL3")
    br = c.methods["branch"]
    rets = [n for n in walk_shallow(br.node) if isinstance(n, ast.Return)]
    if rets and all(ctx.E.is_fresh_expr(r.value, br) and not isinstance(r.value, ast.Attribute) for r in rets):
        ctx.ok("copy-out:SparseMerkleProof.branch", br.loc(), "branch returns a fresh tuple", rule="AL3")
    else:
        ctx.bad("copy-out:SparseMerkleProof.branch", br.loc(), "branch hands out the internal list", rule="AL3")
    rh = c.methods["root_hash"]
    rets = set()
    for p, st in pq.states(ctx, rh):
        if p.exit[0] == "return":
            rets.add(st.ret)
    def acc(n):
        return {("call", "%s.%s" % (PROOF, n), (("self",),), ()), ("attr", ("self",), "_" + n), ("attr", ("self",), n)}
    ok = rets and all(r[0] == "call" and r[1] == "trie.smt:calc_root" and len(r[2]) == 3 and r[2][0] in acc("key") and r[2][1] in acc("value")
                      and (r[2][2] in acc("branch") or r[2][2] == ("call", "ext:tuple", (("attr", ("self",), "_branch"),), ())) for r in rets)
    if ok:
        ctx.ok("root-on-demand:SparseMerkleProof.root_hash", rh.loc(), "root_hash is calc_root(key, value, branch) computed at every access", rule="PROV11")
    else:
        ctx.bad("root-on-demand:SparseMerkleProof.root_hash", rh.loc(), "root_hash returns `%s` instead of recomputing calc_root(key, value, branch)" % "; ".join(tstr(r)[:50] for r in rets), rule="PROV11")
    # value / key accessors
    for name in ("key", "value"):
        g = c.methods[name]
        rets = set()
        for p, st in pq.states(ctx, g):
            if p.exit[0] == "return":
                rets.add(st.ret)
        if rets == {("attr", ("self",), "_" + name)}:
            ctx.ok("accessor:SparseMerkleProof.%s" % name, g.loc(), "returns the tracked %s" % name, nontrivial=False, rule="PROV11")
        else:
            ctx.bad("accessor:SparseMerkleProof.%s" % name, g.loc(), "accessor returns `%s`" % "; ".join(tstr(r) for r in rets), rule="PROV11")


@rule("SMTINIT", ["C14"])
def smtinit(ctx, pid):
    """The empty tree: depth = 8 * key_size levels folded up from the default leaf, every level stored under
    its keccak, the root stored last."""
    eng = S(ctx)
    f = ctx.P.func(SMT + ".__init__")
    ks = ("p", f.params[1])
    probs = []
    seen = False
    for p, st in pq.states(ctx, f, unroll=1):
        if p.exit[0] == "raise":
            continue
        seen = True
        depth = st.attrs.get("self.depth")
        if depth != eng.mk_bin("*", ks, C(8)):
            probs.append("depth is `%s`, expected key_size * 8" % (tstr(depth) if depth else None))
        loops = [ev for ev in st.events if ev.k == "bind" and ev.a == "for"]
        for ev in loops:
            it = eng.ev(ev.b, f, st)
            if it != ("call", "ext:range", (eng.mk_bin("*", ks, C(8)),), ()) and it != ("call", "ext:range", (("attr", ("self",), "depth"),), ()):
                probs.append("the fold loop runs over `%s`, expected range(depth)" % tstr(it)[:40])
        root = st.attrs.get("self.root_hash")
        node = root[2][0] if root is not None and root[0] == "call" and root[1] == KECCAK and len(root[2]) == 1 else None
        dflt = (("p", f.params[2]), ("attr", ("self",), "_default"))
        if not loops and node is not None and node not in dflt:
            probs.append("with no level the top node is `%s`, not the default leaf" % tstr(node)[:40])
        if loops and node is not None:
            # after one iteration: node = h + h with h = keccak(previous node)
            if not (node[0] == "bin" and node[1] == "+" and node[2] == node[3] and node[2][0] == "call" and node[2][1] == KECCAK):
                probs.append("a level is built as `%s`, expected keccak(node) + keccak(node)" % tstr(node)[:60])
            else:
                inner = node[2][2][0]
                if inner != ("p", f.params[2]) and inner != ("attr", ("self",), "_default"):
                    probs.append("the fold starts from `%s`, not from the default leaf" % tstr(inner)[:40])
        if root is None or node is None:
            probs.append("root_hash is `%s`, expected keccak of the top node" % (tstr(root)[:50] if root else None))
    c = "empty-tree:SparseMerkleTree.__init__"
    if probs:
        ctx.bad(c, f.loc(), probs[0], witness={"problems": sorted(set(probs))})
    elif not seen:
        ctx.bad(c, f.loc(), "constructor has no successful path")
    else:
        ctx.ok(c, f.loc(), "depth = 8 * key_size; each level is keccak(node) + keccak(node) starting from the default leaf; root_hash = keccak(top)")
