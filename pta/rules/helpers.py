"""Helper semantics the other rules rely on (HELP), key-consumption conservation in the hexary mutation
family (ABS4h), and the short-root special case of pruning (PENDG2)."""
import ast

from ..core import rule
from ..model import walk_shallow, AnalysisError
from .. import util, pq
from ..pq import S, rel_norm, truth_norm
from ..sym import C, tstr, is_c, State, ALLK, INF
from ..util import fkey
from .hexary import HEX, NODES, NIB, H, _init_state, FAMILY

CCP = NODES + "consume_common_prefix"
KSW = NODES + "key_starts_with"


def _symc(t):
    """canonical form modulo the symmetry of == / != (terms and normalised relations alike)"""
    if isinstance(t, (tuple, frozenset, list, set)):
        items = [_symc(x) for x in t]
        if isinstance(t, (frozenset, set)):
            return frozenset(items)
        if isinstance(t, list):
            return items
        if len(items) == 3 and items[0] in ("==", "!="):
            a, b = sorted(items[1:], key=repr)
            return (items[0], a, b)
        if len(items) == 4 and items[0] == "cmp" and items[1] in ("==", "!="):
            a, b = sorted(items[2:], key=repr)
            return ("cmp", items[1], a, b)
        return tuple(items)
    return t


@rule("HELP", ["C01", "C08", "C10", "C12", "C07"])
def helpers(ctx, pid):
    """The path helpers have the semantics the path rules assume: key_starts_with is the prefix test,
    consume_common_prefix cuts all three results at one offset, get_common_prefix_length is the index of
    the first mismatch (or the shorter length)."""
    eng = S(ctx)
    # ---- key_starts_with(full, partial)
    f = ctx.P.func(KSW)
    a, b = ("p", f.params[0]), ("p", f.params[1])
    rows = set()
    for p, st in pq.states(ctx, f):
        if p.exit[0] != "return":
            continue
        conds = frozenset(rel_norm(t, pol) or truth_norm(t, pol) for t, pol, _ in st.log)
        rows.add((conds, st.ret))
    zipt = ("call", "ext:zip", (a, b), ())
    allc = ("call", "ext:all", (("gen", ("cmp", "==", ("sub", ("iter", zipt, "c"), C(0)), ("sub", ("iter", zipt, "c"), C(1))), (zipt,), ()),), ())
    want = {(frozenset({(">", ("len", b), ("len", a))}), C(False)), (frozenset({(">=", ("len", a), ("len", b))}), allc)}
    alt = {(frozenset(), ("cmp", "==", ("slice", a, None, ("len", b)), b))}
    c = "prefix-test:key_starts_with"
    if not (_symc(rows) == _symc(want) or _symc(rows) == _symc(alt)):
        # third spelling: the `all(..)` written as a loop that leaves with False at the first differing pair and
        # answers True when zip(full, partial) is exhausted (two rounds are looked at)
        rows2 = set()
        for p, st in pq.states(ctx, f, unroll=2):
            if p.exit[0] == "return":
                rows2.add((tuple(rel_norm(t, pol) or truth_norm(t, pol) for t, pol, _ in st.log), st.ret))
        shorter, ok_len = (">", ("len", b), ("len", a)), (">=", ("len", a), ("len", b))

        def pr(k, op):
            e = ("iter", zipt, k)
            return (op, ("sub", e, C(0)), ("sub", e, C(1)))
        want2 = {((shorter,), C(False)), ((ok_len,), C(True)), ((ok_len, pr(0, "!=")), C(False)), ((ok_len, pr(0, "==")), C(True)),
                 ((ok_len, pr(0, "=="), pr(1, "!=")), C(False)), ((ok_len, pr(0, "=="), pr(1, "==")), C(True))}
        if _symc(rows2) == _symc(want2):
            rows = want
    if _symc(rows) == _symc(want) or _symc(rows) == _symc(alt):
        ctx.ok(c, f.loc(), "key_starts_with(full, partial): False if full is shorter, else element-wise equality over zip(full, partial)")
    else:
        ctx.unsure(c, f.loc(), "key_starts_with has a body the rule does not recognise as the prefix test: %s" % sorted((sorted(map(str, cs)), tstr(r)[:60]) for cs, r in rows)[:2])
    # ---- get_common_prefix_length
    g = ctx.P.func(NODES + "get_common_prefix_length")
    l, r = ("p", g.params[0]), ("p", g.params[1])
    ok = False
    rets = set()
    for p, st in pq.states(ctx, g, unroll=1):
        if p.exit[0] == "return":
            conds = [rel_norm(t, pol) for t, pol, _ in st.log]
            rets.add((tuple(conds), st.ret))
    en = ("call", "ext:enumerate", (("call", "ext:zip", (l, r), ()),), ())
    it = ("iter", en, 0)
    pair = eng.mk_sub(it, C(1))
    want = {
        ((("!=", ("sub", pair, C(0)), ("sub", pair, C(1))),), ("sub", it, C(0))),
        ((), ("call", "ext:min", (("len", l), ("len", r)), ())),
        ((("==", ("sub", pair, C(0)), ("sub", pair, C(1))),), ("call", "ext:min", (("len", l), ("len", r)), ())),
    }
    c = "first-mismatch:get_common_prefix_length"
    if _symc(rets) != _symc(want):
        # second spelling: a counter that starts at 0 and goes up by one per equal pair of zip(left, right), left by
        # `break` at the first difference; running off the shorter key gives min(len, len).  Two rounds are looked at.
        zt = ("call", "ext:zip", (l, r), ())
        rets2 = set()
        for p, st in pq.states(ctx, g, unroll=2):
            if p.exit[0] == "return":
                rets2.add((tuple(rel_norm(t, pol) for t, pol, _ in st.log), st.ret))
        mn = ("call", "ext:min", (("len", l), ("len", r)), ())

        def pr(k, op):
            e = ("iter", zt, k)
            return (op, ("sub", e, C(0)), ("sub", e, C(1)))
        want2 = {((), mn), ((pr(0, "!="),), C(0)), ((pr(0, "=="),), mn), ((pr(0, "=="), pr(1, "!=")), C(1)), ((pr(0, "=="), pr(1, "==")), mn)}
        if _symc(rets2) == _symc(want2):
            rets = want
    if _symc(rets) == _symc(want):
        ctx.ok(c, g.loc(), "index of the first differing position of zip(left, right), else min(len(left), len(right))")
    else:
        ctx.unsure(c, g.loc(), "get_common_prefix_length has a body the rule does not recognise: %s" % sorted((str(cs), tstr(rv)[:50]) for cs, rv in rets)[:3])
    # ---- consume_common_prefix: three slices, one offset
    h = ctx.P.func(CCP)
    l, r = ("p", h.params[0]), ("p", h.params[1])
    n = ("call", NODES + "get_common_prefix_length", (l, r), ())
    rets = pq.rets(ctx, h)
    want = ("tuple", (("slice", l, None, n), ("slice", l, n, None), ("slice", r, n, None)))
    c = "one-offset:consume_common_prefix"
    if rets == {want}:
        ctx.ok(c, h.loc(), "(left[:n], left[n:], right[n:]) with n = get_common_prefix_length(left, right)")
    else:
        ctx.bad(c, h.loc(), "consume_common_prefix returns `%s`; the common prefix and both remainders must be cut at the same offset" % "; ".join(tstr(x)[:90] for x in rets))


@rule("ABS4h", ["C01"])
def abs4h(ctx, pid):
    """Key-consumption conservation in the insert / delete family: every recursion passes the key minus exactly
    what the path condition consumed, and every new leaf / branch slot is addressed by the nibble that was cut off."""
    eng = S(ctx)
    probs = []
    n = 0
    K = ("p", "trie_key")
    node = ("p", "node")
    ek = ("call", NODES + "extract_key", (node,), ())
    ccp = ("call", CCP, (ek, K), ())
    common, cur_rem, key_rem = ("sub", ccp, C(0)), ("sub", ccp, C(1)), ("sub", ccp, C(2))
    # ---- branch family: child = node[K[0]], residual K[1:], under K non-empty
    for name, rec in (("_set_branch_node", "_set"), ("_delete_branch_node", "_delete")):
        f = H(ctx, name)
        init = _init_state(ctx, f)
        for p, st in pq.states_init(ctx, f, init):
            for ev in st.events:
                if ev.k == "call" and ev.a == "ok" and isinstance(ev.node, ast.Call):
                    tg = ctx.R.resolve_call(ev.node, f, count=False)[0]
                    if tg.kind == "def" and tg.func.name == rec:
                        n += 1
                        args = [eng.ev(a, f, st) for a in ev.node.args]
                        want0 = ("call", HEX + ".get_node", (("self",), ("sub", node, ("sub", K, C(0)))), ())
                        if args[0] != want0 or args[1] != ("slice", K, C(1), None):
                            probs.append((f, ev.node, "recursion passes (%s, %s); expected the child at node[trie_key[0]] with trie_key[1:]" % (tstr(args[0])[:40], tstr(args[1])[:30])))
                        lo, hi = eng.len_of(K, st.facts)
                        if lo < 1:
                            probs.append((f, ev.node, "recursion below a branch without establishing that the key is non-empty"))
        # the slot that is written is the one that was read
        for p, st in pq.states_init(ctx, f, init):
            t = st.env.get("node")
            while t is not None and t[0] == "upd":
                idx = t[2]
                n += 1
                lo, hi = eng.len_of(K, st.facts)
                if idx in (C(-1), C(16)):
                    if hi != 0:
                        probs.append((f, f.node, "the value slot of a branch is written although the key is not exhausted"))
                elif idx != ("sub", K, C(0)):
                    probs.append((f, f.node, "branch slot `%s` is written, expected the slot of the key's next nibble" % tstr(idx)[:30]))
                t = t[1]
    # ---- _delete_kv_node: residual K[len(P):] under key_starts_with(K, P)
    f = H(ctx, "_delete_kv_node")
    init = _init_state(ctx, f)
    for p, st in pq.states_init(ctx, f, init):
        for ev in st.events:
            if ev.k == "call" and ev.a == "ok" and isinstance(ev.node, ast.Call):
                tg = ctx.R.resolve_call(ev.node, f, count=False)[0]
                if tg.kind == "def" and tg.func.name == "_delete":
                    n += 1
                    args = [eng.ev(a, f, st) for a in ev.node.args]
                    if args[1] != ("slice", K, ("len", ek), None):
                        probs.append((f, ev.node, "recursion passes `%s`, expected trie_key[len(extension path):]" % tstr(args[1])[:40]))
                    if not any(truth_norm(t, pol) == (("call", KSW, (K, ek), ()), True) for t, pol, _ in st.log):
                        probs.append((f, ev.node, "recursion below an extension without key_starts_with(trie_key, extension path)"))
        if p.exit[0] == "return" and st.ret == C(b""):
            n += 1
            # a leaf disappears only on an exact match
            if not any(rel_norm(t, pol) in (("==", K, ek), ("==", ek, K)) for t, pol, _ in st.log) and \
                    not any(v == b"" for t, v in st.facts.eq.items() if t[0] == "call" and t[1] == HEX + "._delete"):
                probs.append((f, p.exit[1], "a kv node is replaced by blank without trie_key == its key (leaf) or an emptied child (extension)"))
    # ---- _set_kv_node: the three arms
    f = H(ctx, "_set_kv_node")
    init = _init_state(ctx, f)
    for p, st in pq.states_init(ctx, f, init):
        for ev in st.events:
            if ev.k == "call" and ev.a == "ok" and isinstance(ev.node, ast.Call):
                tg = ctx.R.resolve_call(ev.node, f, count=False)[0]
                if tg.kind == "def" and tg.func.name == "_set":
                    n += 1
                    args = [eng.ev(a, f, st) for a in ev.node.args]
                    if args[1] != key_rem:
                        probs.append((f, ev.node, "recursion passes `%s`, expected the key remainder of consume_common_prefix" % tstr(args[1])[:50]))
                    if eng.len_of(cur_rem, st.facts) != (0, 0):
                        probs.append((f, ev.node, "recursion below an extension whose path is not fully matched"))
        # the branch built by a split: the local holding an updated list (whatever it is called)
        upds = [v for k_, v in st.env.items() if k_ not in f.params and isinstance(v, tuple) and v and v[0] == "upd"]
        nn = upds[0] if upds else None
        t = nn
        while t is not None and t[0] == "upd":
            idx, val = t[2], t[3]
            n += 1
            okslot = False
            if idx == ("sub", cur_rem, C(0)):
                # old content moves under the first nibble of its remainder; what is stored there is
                # either the old child (one-nibble extension remainder) or a kv node keyed by the rest
                if val == ("sub", node, C(1)):
                    okslot = eng.len_of(cur_rem, st.facts) == (1, 1)
                elif val[0] == "call" and val[1] == HEX + "._persist_node":
                    inner = val[2][1]
                    okslot = inner[0] == "list" and inner[1][0][0] == "call" and inner[1][0][2] == (("slice", cur_rem, C(1), None),) and inner[1][1] == ("sub", node, C(1))
            elif idx == ("sub", key_rem, C(0)):
                if val[0] == "call" and val[1] == HEX + "._persist_node":
                    inner = val[2][1]
                    okslot = inner[0] == "list" and inner[1][0] == ("call", NODES + "compute_leaf_key", (("slice", key_rem, C(1), None),), ()) and inner[1][1] == ("p", "value")
            elif idx in (C(-1), C(16)):
                okslot = val == ("p", "value") and eng.len_of(key_rem, st.facts)[1] == 0
            if not okslot:
                probs.append((f, f.node, "new branch slot `%s` receives `%s`: slot nibble and stored key must be the first nibble / the rest of the same remainder" % (tstr(idx)[:40], tstr(val)[:60])))
            t = t[1]
        if p.exit[0] == "return" and st.ret is not None and st.ret[0] == "list" and len(st.ret[1]) == 2:
            k = st.ret[1][0]
            if k[0] == "call" and k[1] == NODES + "compute_extension_key":
                n += 1
                if k[2] != (common,):
                    probs.append((f, p.exit[1], "the new extension is keyed by `%s`, expected the common prefix" % tstr(k[2][0])[:40]))
    # blank arm of _set: leaf keyed by the whole remaining key
    f = H(ctx, "_set")
    for p, st in pq.states(ctx, f):
        if p.exit[0] == "return" and st.ret is not None and st.ret[0] == "list":
            n += 1
            want = ("list", (("call", NODES + "compute_leaf_key", (K,), ()), ("p", "value")))
            if st.ret != want:
                probs.append((f, p.exit[1], "the leaf created in an empty slot is `%s`, expected [leaf_key(trie_key), value]" % tstr(st.ret)[:60]))
    c = "key-conservation:HexaryTrie"
    ctx.expect_min("descents / slot writes examined", n, 15, "branch and kv arms of insert and delete")
    if probs:
        f, node_, why = probs[0]
        ctx.bad(c, f.loc(node_), why, witness={"problems": sorted({w for _, _, w in probs})})
    else:
        ctx.ok(c, "trie/hexary.py", "every recursion consumes exactly the matched nibbles and every slot is addressed by the nibble that was cut off (%d sites)" % n)


@rule("PENDG2", ["C06"])
def pendg2(ctx, pid):
    """Short-root special case: the old root is scheduled for pruning exactly when it was stored although short."""
    eng = S(ctx)
    f = H(ctx, "_set_root_node")
    incs = [e for e in ctx.E.primitives(f) if e.state == "PEND" and e.op == "W" and e.meth == "aug"]
    c = "short-root-prune:HexaryTrie._set_root_node"
    if len(incs) != 1:
        ctx.bad(c, f.loc(), "expected exactly one pending increment for the old short root, found %d" % len(incs))
        return
    inc = incs[0]
    conds = set()
    kt = None
    for p, st in pq.states(ctx, f, until=lambda ev: ev.node is inc.node and ev.k == "stmt"):
        cs_ = [(rel_norm(t, pol) or truth_norm(t, pol)) for t, pol, _ in st.log]
        # `found = None; try: found = get_node(..) ...; if found is not None`: get_node never returns None, the test
        # only says that the read succeeded (which the path already says)
        cs_ = [c_ for c_ in cs_ if not (len(c_) == 3 and c_[0] == "isnot" and c_[2] == C(None) and isinstance(c_[1], tuple) and c_[1][0] == "call"
                                        and c_[1][1] == HEX + ".get_node")]
        conds.add(frozenset(cs_))
        kt = eng.ev(inc.key, f, st)
    root = ("attr", ("self",), "root_hash")
    cm = ctx.P.modules["trie.constants"]
    BNH = ctx.P.const(cm, "BLANK_NODE_HASH")
    oldnode = ("call", HEX + ".get_node", (("self",), root), ())
    mapping = ("call", HEX + "._node_to_db_mapping", (("self",), oldnode), ())
    want = frozenset({(("attr", ("self",), "is_pruning"), True), ("!=", root, C(BNH)), ("is", ("sub", mapping, C(1)), C(None)),
                      ("in", root, ("attr", ("self",), "db"))})
    if conds == {want} and kt == root:
        ctx.ok(c, inc.where(), "pending[old root] += 1 exactly under {pruning, old root not blank, old root node is short (not hashed by the mapping), old root present in the db}")
    else:
        got = sorted(sorted(str(x) for x in cs)[:6] for cs in conds)
        ctx.bad(c, inc.where(), "the short-root prune is guarded by %s (key `%s`)" % (got[:1], tstr(kt)[:30] if kt else None))


DEFAULTS = {
    # qual -> {param: expected default (python value or constant name in trie.constants)}
    "trie.hexary:HexaryTrie.__init__": {"root_hash": "BLANK_NODE_HASH", "prune": False, "ref_count": None},
    "trie.hexary:HexaryTrie._get_proof": {"proven_len": 0, "last_proof": ()},
    "trie.binary:BinaryTrie.__init__": {"root_hash": "BLANK_HASH"},
    "trie.binary:BinaryTrie._set": {"if_delete_subtrie": False},
    "trie.binary:BinaryTrie._set_kv_node": {"if_delete_subtrie": False},
    "trie.binary:BinaryTrie._set_branch_node": {"if_delete_subtrie": False},
    "trie.smt:SparseMerkleTree.__init__": {"key_size": 32, "default": "BLANK_NODE"},
    "trie.smt:SparseMerkleTree.from_db": {"key_size": 32, "default": "BLANK_NODE"},
    "trie.utils.db:ScratchDB.batch_commit": {"do_deletes": False},
    "trie.fog:HexaryTrieFog.nearest_unknown": {"key_input": ()},
    "trie.iter:NodeIterator.next": {"key_bytes": None},
    "trie.exceptions:MissingTrieNode.__init__": {"prefix": None},
}
DEFAULT_PROPS = {
    "C01": ["trie.hexary:HexaryTrie.__init__"], "C02": ["trie.hexary:HexaryTrie.__init__"], "C04": ["trie.hexary:HexaryTrie.__init__"],
    "C03": ["trie.hexary:HexaryTrie._get_proof", "trie.hexary:HexaryTrie.__init__"],
    "C06": ["trie.hexary:HexaryTrie.__init__", "trie.utils.db:ScratchDB.batch_commit"],
    "C05": ["trie.utils.db:ScratchDB.batch_commit"], "C17": ["trie.utils.db:ScratchDB.batch_commit"],
    "C07": ["trie.exceptions:MissingTrieNode.__init__"],
    "C12": ["trie.binary:BinaryTrie.__init__", "trie.binary:BinaryTrie._set", "trie.binary:BinaryTrie._set_kv_node", "trie.binary:BinaryTrie._set_branch_node"],
    "C13": ["trie.binary:BinaryTrie.__init__"],
    "C14": ["trie.smt:SparseMerkleTree.__init__", "trie.smt:SparseMerkleTree.from_db"],
    "C10": ["trie.iter:NodeIterator.next"], "C11": ["trie.fog:HexaryTrieFog.nearest_unknown"],
}
CONSTANTS = {
    "BLANK_NODE": b"",
    "BLANK_HASH": bytes.fromhex("c5d2460186f7233c927e7db2dcc703c0e500b653ca82273b7bfad8045d85a470"),
    "BLANK_NODE_HASH": bytes.fromhex("56e81f171bcc55a6ff8345e692c0f86e5b48e01b996cadc001622fb5e363b421"),
    "NIBBLE_TERMINATOR": 16, "HP_FLAG_2": 2, "HP_FLAG_0": 0,
    "NODE_TYPE_BLANK": 0, "NODE_TYPE_LEAF": 1, "NODE_TYPE_EXTENSION": 2, "NODE_TYPE_BRANCH": 3,
    "KV_TYPE": 0, "BRANCH_TYPE": 1, "LEAF_TYPE": 2, "BYTE_0": bytes([0]), "BYTE_1": bytes([1]),
}
CONST_PROPS = {
    "C01": ["BLANK_NODE", "BLANK_NODE_HASH"], "C02": ["BLANK_NODE", "BLANK_NODE_HASH", "NIBBLE_TERMINATOR", "HP_FLAG_2", "HP_FLAG_0"],
    "C12": ["BLANK_HASH", "BYTE_0", "BYTE_1", "KV_TYPE", "BRANCH_TYPE", "LEAF_TYPE"], "C13": ["BLANK_HASH", "BYTE_0", "BYTE_1"],
    "C14": ["BLANK_NODE"], "C16": ["NIBBLE_TERMINATOR", "HP_FLAG_2", "HP_FLAG_0", "KV_TYPE", "BRANCH_TYPE", "LEAF_TYPE",
                                   "NODE_TYPE_BLANK", "NODE_TYPE_LEAF", "NODE_TYPE_EXTENSION", "NODE_TYPE_BRANCH"],
    "C08": ["NODE_TYPE_BLANK", "NODE_TYPE_LEAF", "NODE_TYPE_EXTENSION", "NODE_TYPE_BRANCH"],
}


@rule("DEFAULTS", sorted(set(DEFAULT_PROPS) | set(CONST_PROPS)))
def defaults(ctx, pid):
    """Default arguments of the entry points and the values of the protocol constants (what a call without the
    argument means, what the blank hashes / type bytes / flags are) - values no shape rule looks at."""
    from ..model import UNKNOWN
    cm = ctx.P.modules.get("trie.constants")
    for q in DEFAULT_PROPS.get(pid, []):
        if q == "trie.hexary:HexaryTrie._get_proof" and util.proof_walker(ctx)[1] == "gen":
            ctx.ok("default:HexaryTrie._get_proof(last_proof)", util.proof_walker(ctx)[0].loc(), "the proof is collected by a generator: there is no accumulator parameter whose default could be shared", nontrivial=False)
            continue
        f = ctx.P.func(q)
        ds = f.defaults()
        for pn, want in DEFAULTS[q].items():
            c = "default:%s(%s)" % (fkey(f), pn)
            d = ds.get(pn)
            if pn not in f.all_params():
                ctx.unsure(c, f.loc(), "parameter `%s` no longer exists" % pn)
                continue
            if d is None:
                ctx.bad(c, f.loc(), "`%s` has no default any more (expected %r)" % (pn, want))
                continue
            got = ctx.P.fold(f.module, d)
            if isinstance(want, str):
                wv = ctx.P.const(cm, want)
                ok = got is not UNKNOWN and got == wv and type(got) is type(wv)
                ws = want
            else:
                ok = got is not UNKNOWN and got == want and type(got) is type(want) or (want == () and ast.unparse(d) in ("()", "tuple()"))
                ws = repr(want)
            if ok:
                ctx.ok(c, f.loc(), "default is %s" % ws, nontrivial=False)
            else:
                ctx.bad(c, f.loc(), "default of `%s` is `%s`, expected %s: a call that omits it changes meaning" % (pn, ast.unparse(d), ws))
    for name in CONST_PROPS.get(pid, []):
        got = ctx.P.const(cm, name)
        c = "constant:%s" % name
        want = CONSTANTS[name]
        if got is not UNKNOWN and got == want and type(got) is type(want):
            ctx.ok(c, "trie/constants.py", "%s = %r" % (name, want if not isinstance(want, bytes) or len(want) < 8 else want.hex()), nontrivial=False)
        else:
            ctx.bad(c, "trie/constants.py", "%s is %r, expected %r (protocol constant)" % (name, got, want))


# ---------------------------------------------------------------------------
def _ident_ok(ctx, f, cmp_, i):
    """is operand pair (left_i, right_i) of an `is` / `is not` comparison a legitimate identity test?"""
    from ..model import Sentinel
    ops = [cmp_.left] + list(cmp_.comparators)
    a, b = ops[i], ops[i + 1]
    for x, y in ((a, b), (b, a)):
        if isinstance(x, ast.Constant) and (x.value is None or x.value is True or x.value is False or x.value is Ellipsis):
            return True
        if isinstance(x, ast.Name):
            v = ctx.P.const(f.module, x.id)
            if isinstance(v, Sentinel):
                return True
            # a class object compared with type(..)
            if isinstance(y, ast.Call) and isinstance(y.func, ast.Name) and y.func.id == "type" and len(y.args) == 1:
                if x.id in f.module.classes or x.id in f.module.imports or x.id in ("bytes", "int", "str", "tuple", "list", "dict", "bool"):
                    return True
    return False


@rule("IDENT", ["C01", "C02", "C03", "C04", "C05", "C06", "C07", "C08", "C10", "C11", "C12", "C13", "C14", "C15", "C16", "C17", "C18"])
def ident(ctx, pid):
    """Identity comparisons: `is` / `is not` may only test None / True / False, a module-level sentinel
    object() (db.DELETED) or a class against type(..).  `x is <bytes / int / tuple value>` depends on object
    identity, which equal values read back from a db, decoded or recomputed do not share."""
    from ..core import prop_scope
    scope = prop_scope(pid)
    n = 0
    bad = []
    for f in util.all_functions(ctx, include_tools=False):
        if scope is not None and f.module.rel not in scope:
            continue
        if f.parent is not None:
            continue  # nested defs are walked with their parent
        for c_ in ast.walk(f.node):
            if isinstance(c_, ast.Compare):
                for i, op in enumerate(c_.ops):
                    if isinstance(op, (ast.Is, ast.IsNot)):
                        n += 1
                        if not _ident_ok(ctx, f, c_, i):
                            bad.append((f, c_))
    for f, c_ in bad:
        ctx.bad("identity-test:%s:%s" % (fkey(f), util.norm_src(c_)), f.loc(c_),
                "`%s` compares object identity of values; equal bytes / ints that were decoded, read from the db or recomputed are not the same object (use == / !=)" % util.norm_src(c_))
    if not bad:
        ctx.ok("identity-tests", "trie/", "%d `is` / `is not` comparisons in scope, all against None / True / False / a sentinel object / a class" % n, nontrivial=bool(n))


# (caller, callee, parameter) -> how the same-named, defaulted parameter must be passed on
#   "same": the caller's own parameter, unchanged   "explicit": some explicit argument   "default": relying on the default is intended
FWD = {
    ("trie.binary:BinaryTrie._set", "trie.binary:BinaryTrie._set_kv_node", "if_delete_subtrie"): "same",
    ("trie.binary:BinaryTrie._set", "trie.binary:BinaryTrie._set_branch_node", "if_delete_subtrie"): "same",
    ("trie.binary:BinaryTrie._set_kv_node", "trie.binary:BinaryTrie._set", "if_delete_subtrie"): "same",
    ("trie.binary:BinaryTrie._set_branch_node", "trie.binary:BinaryTrie._set", "if_delete_subtrie"): "same",
    ("trie.branches:if_branch_valid", "trie.binary:BinaryTrie.__init__", "root_hash"): "same",
    # the verifier trie starts empty; the claimed root is applied through at_root (TS5 checks that)
    ("trie.hexary:HexaryTrie.get_from_proof", "trie.hexary:HexaryTrie.__init__", "root_hash"): "default",
    ("trie.hexary:HexaryTrie._get_proof", "trie.hexary:HexaryTrie._get_proof", "proven_len"): "explicit",
    ("trie.hexary:HexaryTrie._get_proof", "trie.hexary:HexaryTrie._get_proof", "last_proof"): "explicit",
    ("trie.smt:SparseMerkleTree.from_db", "trie.smt:SparseMerkleTree.__init__", "key_size"): "same",
    ("trie.smt:SparseMerkleTree.from_db", "trie.smt:SparseMerkleTree.__init__", "default"): "same",
}
FWD_PROPS = {"C12": "trie/binary.py", "C13": "trie/branches.py", "C03": "trie/hexary.py", "C14": "trie/smt.py", "C15": "trie/smt.py"}
FWD_MIN = {"C12": 5, "C13": 1, "C03": 2, "C14": 2, "C15": 2}


@rule("FWD", sorted(FWD_PROPS))
def fwd(ctx, pid):
    """A call from f to g that share a parameter name which g defaults: leaving the argument out silently
    replaces the caller's value by the default (a recursion that forgets its mode flag).  Every such call site
    passes the parameter explicitly; flags are forwarded unchanged."""
    rel = FWD_PROPS[pid]
    n = 0
    for f in util.all_functions(ctx, include_tools=False):
        if f.module.rel != rel:
            continue
        for c_ in ast.walk(f.node):
            if not isinstance(c_, ast.Call):
                continue
            try:
                tgs = ctx.R.resolve_call(c_, f, count=False)
            except AnalysisError:
                continue
            for t in tgs:
                if t.kind == "def":
                    g = t.func
                elif t.kind == "ctor" and getattr(t, "cls", None) is not None and hasattr(t.cls, "methods"):
                    g = t.cls.methods.get("__init__")
                else:
                    g = None
                if g is None:
                    continue
                dg = g.defaults()
                common = [p for p in g.all_params() if p in f.all_params() and p not in ("self", "cls") and p in dg]
                if not common:
                    continue
                skip = t.kind == "ctor" or (g.cls is not None and not isinstance(c_.func, ast.Name) and not g.is_static)
                amap = ctx.E.bind_args(c_, g, skip_self=skip)
                for p in common:
                    n += 1
                    mode = FWD.get((f.qual, g.qual, p), "explicit")
                    a = amap.get(p)
                    cst = "forward:%s->%s(%s)" % (fkey(f), fkey(g), p)
                    if mode == "default":
                        ctx.ok(cst, f.loc(c_), "relying on the default is intended here", nontrivial=False)
                    elif a is None:
                        ctx.bad(cst, f.loc(c_), "`%s` is called without `%s`: the caller's own `%s` is silently replaced by the default `%s`"
                                % (util.norm_src(c_.func), p, p, ast.unparse(dg[p])))
                    elif mode == "same" and not (isinstance(a, ast.Name) and a.id == p):
                        ctx.bad(cst, f.loc(c_), "`%s` is passed as `%s`, expected the caller's own `%s` unchanged" % (p, util.norm_src(a), p))
                    else:
                        ctx.ok(cst, f.loc(c_), "`%s` is passed on as `%s`" % (p, util.norm_src(a)), nontrivial=False)
    if pid == "C03" and util.proof_walker(ctx)[1] == "gen":
        n += 2  # the two accumulator parameters of _get_proof do not exist in the generator form
    if n < FWD_MIN[pid]:
        ctx.unsure("forward-instances:%s" % rel, rel, "only %d forwarding site(s) found, %d were confirmed by hand" % (n, FWD_MIN[pid]))


@rule("ARGX", ["C01", "C02", "C03", "C04", "C05", "C06", "C07", "C08", "C10", "C11", "C12", "C13", "C14", "C15", "C16", "C17", "C18"])
def argx(ctx, pid):
    """Crossed arguments at calls inside the package: parameter `a` of the callee receives the caller's
    variable `b`, where `b` is the name of another parameter of the same callee which in turn receives
    something else (`_set_kv_node(node, value, trie_key)`).  Each side of such a pair contradicts the other."""
    from ..core import prop_scope
    scope = prop_scope(pid)
    n = 0
    bad = []
    for f in util.all_functions(ctx, include_tools=False):
        if scope is not None and f.module.rel not in scope:
            continue
        for c_ in ast.walk(f.node):
            if not isinstance(c_, ast.Call):
                continue
            for t in ctx.R.resolve_call(c_, f, count=False):
                if t.kind == "def":
                    g = t.func
                    skip = g.cls is not None and not g.is_static and (t.recv is not None or g.is_classmethod)
                elif t.kind == "ctor" and getattr(t, "cls", None) is not None and hasattr(t.cls, "methods"):
                    g = t.cls.methods.get("__init__") or t.cls.methods.get("__new__")
                    skip = True
                else:
                    g = None
                if g is None:
                    continue
                amap = ctx.E.bind_args(c_, g, skip_self=skip)
                names = {p: (a.id if isinstance(a, ast.Name) else None) for p, a in amap.items()}
                for p, b in names.items():
                    n += 1
                    if b and b != p and b in names and names.get(b) != b:
                        bad.append((f, c_, g, p, b, amap[b]))
    seen = set()
    for f, c_, g, p, b, other in bad:
        key = (f.qual, c_.lineno, frozenset((p, b)))
        if key in seen:
            continue
        seen.add(key)
        ctx.bad("crossed-arguments:%s->%s(%s)" % (fkey(f), fkey(g), p), f.loc(c_),
                "`%s`: parameter `%s` of %s receives the caller's `%s`, while its own parameter `%s` receives `%s`"
                % (util.norm_src(c_)[:70], p, g.name, b, b, util.norm_src(other)[:30]))
    if not bad:
        ctx.ok("argument-roles", "trie/", "%d argument bindings at package-internal calls in scope: no parameter receives a variable named like a sibling parameter that is bound differently" % n, nontrivial=bool(n))


# ---------------------------------------------------------------------------
# MUTDEF  a mutable default argument that is stored, handed out or modified is state shared between calls
# ---------------------------------------------------------------------------
_COPYING = {"len", "dict", "list", "tuple", "set", "frozenset", "sorted", "iter", "enumerate", "isinstance", "bool", "any", "all", "sum", "min", "max",
            "reversed", "zip", "map", "filter", "repr", "str", "bytes", "type", "id"}
_MUTATORS = {"append", "extend", "insert", "pop", "remove", "clear", "update", "setdefault", "add", "discard", "popitem", "sort", "reverse", "appendleft"}


def _mutable_default(d):
    if isinstance(d, (ast.Dict, ast.List, ast.Set, ast.ListComp, ast.DictComp, ast.SetComp)):
        return True
    if isinstance(d, ast.Call):
        nm = d.func.attr if isinstance(d.func, ast.Attribute) else (d.func.id if isinstance(d.func, ast.Name) else "")
        return nm in ("dict", "list", "set", "defaultdict", "OrderedDict", "bytearray", "deque", "SortedSet", "Counter")
    return False


@rule("MUTDEF", ["C01", "C02", "C03", "C04", "C05", "C06", "C07", "C08", "C10", "C11", "C12", "C13", "C14", "C15", "C16", "C17", "C18"])
def mutdef(ctx, pid):
    """Default values are evaluated once.  A parameter whose default is a mutable container and that is stored in
    an object, returned, yielded, modified in place or handed to code that may keep it is one object shared by
    every call that omits the argument: what one call (or one trie / cache / iterator) puts there, the next sees."""
    from ..core import prop_scope
    scope = prop_scope(pid)
    n = 0
    bad = None
    for f in util.all_functions(ctx, include_tools=False):
        if scope is not None and f.module.rel not in scope:
            continue
        for pn, d in f.defaults().items():
            n += 1
            if not _mutable_default(d):
                continue
            names = {pn}
            for s_ in walk_shallow(f.node):
                if isinstance(s_, ast.Assign) and isinstance(s_.value, ast.Name) and s_.value.id in names:
                    names |= {t.id for t in s_.targets if isinstance(t, ast.Name)}
            why = None
            for x in walk_shallow(f.node):
                if isinstance(x, (ast.Assign, ast.AnnAssign)) and getattr(x, "value", None) is not None:
                    tg = x.targets if isinstance(x, ast.Assign) else [x.target]
                    if any(isinstance(t, (ast.Attribute, ast.Subscript)) for t in tg) and any(isinstance(y, ast.Name) and y.id in names for y in ast.walk(x.value)):
                        why = why or (x, "is stored in an object")
                    if any(isinstance(t, ast.Subscript) and isinstance(t.value, ast.Name) and t.value.id in names for t in tg):
                        why = why or (x, "is written to")
                elif isinstance(x, ast.AugAssign) and isinstance(x.target, ast.Name) and x.target.id in names:
                    why = why or (x, "is modified in place")
                elif isinstance(x, ast.Delete) and any(isinstance(t, ast.Subscript) and isinstance(t.value, ast.Name) and t.value.id in names for t in x.targets):
                    why = why or (x, "is modified in place")
                elif isinstance(x, (ast.Return, ast.Yield)) and x.value is not None and any(isinstance(y, ast.Name) and y.id in names for y in ast.walk(x.value)) \
                        and not (isinstance(x.value, ast.Call) and isinstance(x.value.func, ast.Name) and x.value.func.id in _COPYING):
                    why = why or (x, "is handed out to the caller")
                elif isinstance(x, ast.Call):
                    if isinstance(x.func, ast.Attribute) and isinstance(x.func.value, ast.Name) and x.func.value.id in names and x.func.attr in _MUTATORS:
                        why = why or (x, "is modified in place")
                    elif not (isinstance(x.func, ast.Name) and x.func.id in _COPYING) and \
                            any(isinstance(a, ast.Name) and a.id in names for a in list(x.args) + [k.value for k in x.keywords]):
                        why = why or (x, "is passed on to code that may keep or modify it")
            if why is not None:
                bad = bad or (f, pn, d, why)
    c = "no-shared-mutable-default:%s" % pid
    if bad:
        f, pn, d, (node, what) = bad
        ctx.bad(c, f.loc(node), "parameter `%s` of %s defaults to the mutable `%s` and %s: the one default object is shared by every call that omits the argument"
                % (pn, fkey(f), ast.unparse(d)[:30], what), witness={"function": f.qual, "parameter": pn})
    else:
        ctx.ok(c, "trie/", "no default argument is a mutable container that is stored, handed out or modified (%d defaults looked at)" % n, nontrivial=n > 0)
