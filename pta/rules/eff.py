"""Effect rules: EFF1 (who may write / pairing), EFF2 (deletes only when pruning),
EFF3 (content addressing), EFF4 (readers do not write), ORD1 (root pointer last)."""
import ast

from ..core import rule
from ..model import AnalysisError, walk_shallow
from ..sym import SymEngine, tstr, is_c
from .. import util
from ..util import Trace, fkey

HEX = "trie.hexary:HexaryTrie"
BIN = "trie.binary:BinaryTrie"
SMT = "trie.smt:SparseMerkleTree"
SDB = "trie.utils.db:ScratchDB"

TRACKED = {"DB", "WDB", "ROOT", "RC", "PEND", "CACHE", "FOG", "PRF", "CFG", "FCACHE"}
KECCAK = {"ext:eth_hash.auto.keccak", "ext:eth_utils.keccak"}


def sym(ctx):
    if "sym" not in ctx.cache:
        ctx.cache["sym"] = SymEngine(ctx)
    return ctx.cache["sym"]


# ---------------------------------------------------------------------------
# EFF2
# ---------------------------------------------------------------------------
def _is_pruning_expr(ctx, e, f):
    """expression is `<self>.is_pruning` of an object whose class declares it CFG."""
    if isinstance(e, ast.Attribute) and e.attr == "is_pruning":
        l = ctx.E.loc(e, f)
        if l is not None and l[1] and l[1][-1] == "is_pruning":
            return True
    if isinstance(e, ast.Name):
        from ..excflow import alias_of
        al = alias_of(e.id, f)
        if al is not None and al is not e:
            return _is_pruning_expr(ctx, al, f)
    return False


def delete_status(ctx):
    """qual -> set of statuses {'UNGUARDED', ('PARAM', p)} : how a delete on a
    db-like store that outlives the activation can be reached in the function."""
    if "delstat" in ctx.cache:
        return ctx.cache["delstat"]
    S = ctx.E.summaries()
    funcs = [f for f in util.all_functions(ctx)
             if any(e.op == "D" and e.state in ("DB", "WDB") for e in S.get(f.qual, ()))]
    status = {f.qual: {} for f in util.all_functions(ctx)}  # status -> witness text
    traces = {}
    changed = True
    rounds = 0
    while changed and rounds < 10:
        changed = False
        rounds += 1
        for f in funcs:
            tr = traces.setdefault(f.qual, Trace(ctx, f))
            new = dict(status[f.qual])
            for p in ctx.X.paths(f):
                pruning = False
                gparams = set()
                for ev in p.events:
                    if ev.k == "assume":
                        t = ev.node
                        if _is_pruning_expr(ctx, t, f) and ev.a is True:
                            pruning = True
                        if isinstance(t, ast.Name) and t.id in f.all_params() and ev.a is True:
                            gparams.add(t.id)
                        continue
                    if ev.k not in ("call", "stmt", "src") or ev.a not in ("ok", None):
                        continue
                    # primitive deletes at this event
                    for e in tr.by_node.get(id(ev.node), ()):
                        if e.op == "D" and e.state in ("DB", "WDB") and util.real(e):
                            _add_status(new, pruning, gparams, "%s at %s" % (util.norm_src(e.node), e.where()))
                    if ev.k == "call" and isinstance(ev.node, ast.Call):
                        for tg in ctx.R.resolve_call(ev.node, f, count=False):
                            if tg.kind != "def":
                                continue
                            g = tg.func
                            gs = status.get(g.qual)
                            if not gs:
                                continue
                            # relevant only if the callee's delete concerns an object that is not fresh here
                            rel = [e2 for e2 in tr.lifted(ev.node) if e2.op == "D" and e2.state in ("DB", "WDB")]
                            if not rel:
                                continue
                            amap = ctx.E.bind_args(ev.node, g, skip_self=g.cls is not None and not g.is_static)
                            for stt, wit in gs.items():
                                wit2 = "%s -> %s" % (f.loc(ev.node), wit)
                                if stt == "UNGUARDED":
                                    _add_status(new, pruning, gparams, wit2)
                                else:
                                    arg = amap.get(stt[1])
                                    if arg is None:
                                        d = g.defaults().get(stt[1])
                                        arg = d
                                    if arg is None:
                                        _add_status(new, pruning, gparams, wit2)
                                    elif isinstance(arg, ast.Constant) and not arg.value:
                                        pass  # deletes switched off at this call
                                    elif _is_pruning_expr(ctx, arg, f):
                                        pass  # guarded by the trie's own pruning flag
                                    elif isinstance(arg, ast.Name) and arg.id in f.all_params():
                                        if not pruning and ("PARAM", arg.id) not in new:
                                            new[("PARAM", arg.id)] = wit2
                                    else:
                                        _add_status(new, pruning, gparams, wit2 + " with %s=%s" % (stt[1], ast.unparse(arg)))
            if new.keys() != status[f.qual].keys():
                status[f.qual] = new
                changed = True
    ctx.cache["delstat"] = status
    return status


def _add_status(new, pruning, gparams, wit):
    if pruning:
        return
    if gparams:
        for p in sorted(gparams):
            new.setdefault(("PARAM", p), wit)
        return
    new.setdefault("UNGUARDED", wit)


@rule("EFF2", ["C04", "C05"])
def eff2(ctx, pid):
    """Every call chain from a public entry to a db delete passes the true arm of a test on is_pruning."""
    st = delete_status(ctx)
    # primitive delete sites that exist at all (informational inventory + anchor)
    prim = []
    for f in util.all_functions(ctx):
        for e in ctx.E.primitives(f):
            if e.op == "D" and e.state in ("DB", "WDB") and util.real(e):
                prim.append(e)
    ctx.expect_min("db delete sites", len(prim), 2, "`del self.db[key]` in _complete_pruning, `wrapped_db.pop` in batch_commit")
    for e in prim:
        s = st[e.func.qual]
        ctx.info("delete-site:%s" % fkey(e.func), e.where(), "primitive delete `%s`; local guard status %s"
                 % (util.norm_src(e.node), sorted(map(str, s)) or "none"))
    entries = util.public_entries(ctx, HEX)
    ctx.expect_min("HexaryTrie public entries", len(entries), 15, "get/set/delete/exists/traverse*/proof/dunders/context APIs")
    for f in entries:
        s = st.get(f.qual, {})
        if "UNGUARDED" in s:
            ctx.bad("entry:%s" % fkey(f), f.loc(), "a db delete is reachable without passing `if self.is_pruning`: %s" % s["UNGUARDED"],
                    witness={"entry": f.qual, "chain": s["UNGUARDED"]})
        elif any(isinstance(k, tuple) for k in s):
            k = [k for k in s if isinstance(k, tuple)][0]
            ctx.bad("entry:%s" % fkey(f), f.loc(), "a db delete is controlled by caller-supplied parameter `%s` instead of is_pruning: %s" % (k[1], s[k]),
                    witness={"entry": f.qual, "chain": s[k]})
        else:
            ctx.ok("entry:%s" % fkey(f), f.loc(), "no db delete reachable outside the is_pruning arm", nontrivial=bool(_reaches_delete(ctx, f)))
    # the configuration flag itself is assigned only by the constructor
    for f in util.class_functions(ctx, HEX):
        for e in ctx.E.primitives(f):
            if e.op == "SET" and e.state in ("CFG",) and util.is_self_root(e) and f.name != "__init__":
                ctx.bad("cfg-store:%s" % fkey(f), e.where(), "`%s` reassigns the pruning flag outside __init__" % util.norm_src(e.node))
            if e.op == "SET" and e.state == "DB" and util.is_self_root(e) and f.name != "__init__":
                ctx.bad("db-rebind:%s" % fkey(f), e.where(), "`%s` rebinds self.db outside __init__ (history would be lost)" % util.norm_src(e.node))
    ctx.ok("cfg-stores", "trie/hexary.py", "is_pruning and db are assigned only in __init__", nontrivial=False)


def _reaches_delete(ctx, f):
    S = ctx.E.summaries()
    return [e for e in S.get(f.qual, ()) if e.op == "D" and e.state in ("DB", "WDB")]


# ---------------------------------------------------------------------------
# EFF3 content addressing
# ---------------------------------------------------------------------------
def _bound(S, kt, vt):
    """key term is keccak(value term)"""
    return kt[0] == "call" and kt[1] in KECCAK and len(kt[2]) == 1 and kt[2][0] == vt


SPLIT_MAPPING = {
    "trie.hexary:HexaryTrie._node_to_db_mapping",
    "trie.hexary:HexaryTrie._cached_create_node_to_db_mapping",
    "trie.hexary:HexaryTrie._create_node_to_db_mapping",
}


def _check_store_bound(ctx, f, stmt_or_call, key_expr, val_expr, construct, depth=0):
    """On every feasible path through f reaching the store, Bound(key, value)."""
    S = sym(ctx)
    n_paths = 0
    bad = None
    need_params = None
    for p in ctx.X.paths(f):
        if not any(ev.node is stmt_or_call and ev.a in ("ok", None) and ev.k in ("stmt", "call") for ev in p.events):
            continue
        # truncate path at the store event
        idx = max(i for i, ev in enumerate(p.events) if ev.node is stmt_or_call and ev.k in ("stmt", "call"))
        from ..walk import Path
        pre = Path(p.events[:idx], ("fall",))
        for st in S.run(f, pre, split=SPLIT_MAPPING):
            n_paths += 1
            kt = S.ev(key_expr, f, st)
            vt = S.ev(val_expr, f, st)
            if _bound(S, kt, vt):
                continue
            if kt[0] == "p" and vt[0] == "p":
                need_params = (kt[1], vt[1])
                continue
            bad = (kt, vt, st)
    ctx.paths_enumerated += n_paths
    return n_paths, bad, need_params


@rule("EFF3", ["C04", "C12", "C13", "C14", "C03"])
def eff3(ctx, pid):
    """At every db write D[k] = v the key is keccak(v) on all paths."""
    scope = {
        "C04": ["trie.hexary"], "C03": ["trie.hexary"], "C12": ["trie.binary"], "C13": ["trie.branches"],
        "C14": ["trie.smt"],
    }[pid]
    sites = []
    for f in util.all_functions(ctx, include_tools=False):
        if f.module.name not in scope:
            continue
        for e in ctx.E.primitives(f):
            if e.op == "W" and e.state == "DB" and e.meth != "aug" and isinstance(e.node, (ast.Assign,)):
                sites.append(e)
    mins = {"C04": 1, "C03": 1, "C12": 1, "C13": 0, "C14": 4}
    ctx.expect_min("db write sites in %s" % ",".join(scope), len(sites), mins[pid], "confirmed by reading")
    pending = []  # (func, (kparam, vparam)) obligations moved to call sites
    for e in sites:
        f = e.func
        tgt = e.node.targets[0]
        key_expr, val_expr = tgt.slice, e.node.value
        c = "dbwrite:%s:%s" % (fkey(f), util.norm_src(e.node))
        n, bad, need = _check_store_bound(ctx, f, e.node, key_expr, val_expr, c)
        if bad is not None and (util.opaque_heads(bad[0]) or util.opaque_heads(bad[1])):
            ctx.unsure(c, e.where(), "db key `%s` / stored value `%s` are elements of an accumulator the engine does not track: cannot decide key = keccak(value)" % (tstr(bad[0])[:60], tstr(bad[1])[:60]))
        elif bad is not None:
            ctx.bad(c, e.where(), "db key `%s` is not keccak of the stored value `%s`" % (tstr(bad[0])[:60], tstr(bad[1])[:60]),
                    witness={"key": tstr(bad[0]), "value": tstr(bad[1])})
        elif n == 0:
            ctx.unsure(c, e.where(), "no feasible path reaches the store")
        elif need is not None:
            pending.append((f, need, e))
            ctx.ok(c, e.where(), "key and value are parameters (%s, %s): obligation moved to the call sites" % need, nontrivial=True)
        else:
            ctx.ok(c, e.where(), "key is keccak(value) on all %d feasible paths" % n)
    # call sites of parameter-carried writers
    for g, (kp, vp), e in pending:
        ncalls = 0
        for f in util.all_functions(ctx, include_tools=False):
            for n in walk_shallow(f.node):
                if isinstance(n, ast.Call):
                    tgs = ctx.R.resolve_call(n, f, count=False)
                    if any(t.kind == "def" and t.func is g for t in tgs):
                        ncalls += 1
                        amap = ctx.E.bind_args(n, g, skip_self=g.cls is not None and not g.is_static)
                        ka, va = amap.get(kp), amap.get(vp)
                        c = "dbwrite-call:%s->%s" % (fkey(f), fkey(g))
                        if ka is None or va is None:
                            ctx.unsure(c, f.loc(n), "cannot bind key/value arguments")
                            continue
                        cnt, bad, need = _check_store_bound(ctx, f, n, ka, va, c)
                        if bad is not None:
                            ctx.bad(c, f.loc(n), "argument `%s` is not keccak of argument `%s`" % (tstr(bad[0])[:60], tstr(bad[1])[:60]),
                                    witness={"key": tstr(bad[0]), "value": tstr(bad[1])})
                        elif need is not None:
                            ctx.unsure(c, f.loc(n), "key/value forwarded through a second parameter layer")
                        elif cnt == 0:
                            ctx.unsure(c, f.loc(n), "no feasible path reaches the call")
                        else:
                            ctx.ok(c, f.loc(n), "Bound(key, value) holds at the call on all %d feasible paths" % cnt)
        if ncalls == 0:
            ctx.info("dbwrite-call:none->%s" % fkey(g), g.loc(), "writer has no call site")
    # dict displays / comprehensions handed to a trie constructor as its db
    for f in util.all_functions(ctx, include_tools=False):
        if f.module.name not in scope:
            continue
        for n in walk_shallow(f.node):
            if not isinstance(n, ast.Call):
                continue
            tgs = ctx.R.resolve_call(n, f, count=False)
            if not any(t.kind == "ctor" and t.cls.qual in (HEX, BIN) for t in tgs):
                continue
            cls = tgs[0].cls
            amap = ctx.E.bind_args(n, cls.methods["__init__"], skip_self=True)
            dbarg = amap.get("db")
            if dbarg is None:
                continue
            src = dbarg
            if isinstance(src, ast.Name):
                bs = ctx.E.bindings(f).get(src.id)
                if bs and len(bs) == 1 and isinstance(bs[0], ast.AST):
                    src = bs[0]
            c = "verifier-db:%s" % fkey(f)
            if isinstance(src, ast.Dict) and not src.keys:
                ctx.ok(c, f.loc(n), "verifier db starts as an empty dict display", nontrivial=False)
            elif isinstance(src, ast.DictComp):
                k, v = src.key, src.value
                ok = (isinstance(k, ast.Call) and len(k.args) == 1 and ast.dump(k.args[0]) == ast.dump(v)
                      and any(t.kind == "ext" and "ext:" + t.name in KECCAK for t in ctx.R.resolve_call(k, f, count=False)))
                if ok and not src.generators[0].ifs:
                    ctx.ok(c, f.loc(n), "db comprehension maps keccak(node) -> node for every element")
                elif ok:
                    ctx.ok(c, f.loc(n), "db comprehension maps keccak(node) -> node (filtered)")
                else:
                    ctx.bad(c, f.loc(n), "db comprehension key `%s` is not keccak of value `%s`" % (ast.unparse(k), ast.unparse(v)))
            elif isinstance(src, ast.Dict):
                badkv = None
                for k_, v_ in zip(src.keys, src.values):
                    okkv = (k_ is not None and isinstance(k_, ast.Call) and len(k_.args) == 1 and ast.dump(k_.args[0]) == ast.dump(v_)
                            and any(t.kind == "ext" and "ext:" + t.name in KECCAK for t in ctx.R.resolve_call(k_, f, count=False)))
                    if not okkv:
                        badkv = (k_, v_)
                if badkv:
                    ctx.bad(c, f.loc(n), "the verifier db is pre-filled with an entry whose key `%s` is not keccak of its value" % (ast.unparse(badkv[0]) if badkv[0] is not None else "**"))
                else:
                    ctx.ok(c, f.loc(n), "every entry of the db display is keccak(value) -> value")


# ---------------------------------------------------------------------------
# EFF4 readers do not write
# ---------------------------------------------------------------------------
READERS = {
    "C01": [HEX + ".get", HEX + ".exists", HEX + ".__getitem__", HEX + ".__contains__", HEX + "._get"],
    "C03": [HEX + ".get_proof", HEX + "._get_proof"],
    "C08": [HEX + ".traverse", HEX + ".traverse_from", HEX + ".root_node", HEX + "._traverse", HEX + "._traverse_from"],
    "C10": ["trie.iter:NodeIterator.next", "trie.iter:NodeIterator.keys", "trie.iter:NodeIterator.items",
            "trie.iter:NodeIterator.values", "trie.iter:NodeIterator.nodes"],
    "C13": ["trie.branches:check_if_branch_exist", "trie.branches:get_branch", "trie.branches:if_branch_valid",
            "trie.branches:get_trie_nodes", "trie.branches:get_witness_for_key_prefix"],
    "C12": [BIN + ".get", BIN + ".exists", BIN + ".__getitem__", BIN + ".__contains__"],
    "C14": [SMT + ".get", SMT + ".exists", SMT + ".branch", SMT + "._get", SMT + ".__getitem__", SMT + ".__contains__",
            "trie.smt:calc_root"],
    "C17": [SDB + ".__getitem__", SDB + ".__contains__", SDB + ".copy"],
    # what a read reports about a missing node must not depend on what was read before
    "C07": [HEX + ".get", HEX + ".exists", HEX + ".traverse", HEX + ".traverse_from", HEX + "._traverse", HEX + "._traverse_from", HEX + ".root_node"],
    # the lookups of C02 / C05 / C06 see the trie, not a memo of it
    "C05": [HEX + ".get", HEX + ".exists", HEX + "._get"],
    # "every historical root reads back exactly what it held": reads see the database, not a memo of it
    "C04": [HEX + ".get", HEX + ".exists", HEX + "._get", HEX + ".get_node"],
}


def _reader(ctx, q):
    if q == HEX + "._get_proof":
        return util.proof_walker(ctx)[0]  # the accumulating recursion, or the generator that replaced it
    return ctx.P.func(q)


@rule("EFF4", list(READERS))
def eff4(ctx, pid):
    """The transitive effect summary of a reader contains no write on an object that outlives the call."""
    S = ctx.E.summaries()
    for q in READERS[pid]:
        f = _reader(ctx, q)
        effs = [e for e in S[f.qual] if e.op != "R" and util.real(e) and e.loc[0][0] != "local"]
        # 'local' roots are objects whose origin the alias layer could not classify: report separately
        loc_effs = [e for e in S[f.qual] if e.op != "R" and e.loc is not None and e.loc[0][0] in ("local", "unknown")
                    and e.state in TRACKED]
        c = "reader:%s" % fkey(f)
        if effs:
            e = effs[0]
            ctx.bad(c, f.loc(), "reader has write effect %s %s on %s at %s%s" % (
                e.op, e.state, _l(e), e.where(), (" via " + " > ".join(e.chain)) if e.chain else ""),
                witness={"effects": [repr(x) for x in effs[:8]]})
        elif loc_effs:
            ctx.unsure(c, f.loc(), "write effect on an object of unknown origin: %r" % loc_effs[0])
        else:
            n_calls = len(ctx.E.call_edges(f))
            ctx.ok(c, f.loc(), "no write effect in the transitive summary (%d resolved calls)" % n_calls, nontrivial=n_calls > 0)


def _l(e):
    from ..effects import _locstr
    return _locstr(e.loc)


# ---------------------------------------------------------------------------
# ORD1 root pointer last
# ---------------------------------------------------------------------------
@rule("ORD1", {"C04": {"cls": HEX}, "C12": {"cls": BIN}})
def ord1(ctx, pid, cls):
    """In every mutator the store to root_hash is not followed by a db write on any path."""
    fs = [f for f in util.class_functions(ctx, cls) if f.name != "__init__"]
    n_root = 0
    for f in fs:
        tr = Trace(ctx, f)
        has_root = any(e.op == "SET" and e.state == "ROOT" and util.is_self_root(e) for e in ctx.E.summaries()[f.qual])
        if not has_root:
            continue
        n_root += 1
        viol = None
        npaths = 0
        for p in ctx.X.paths(f):
            npaths += 1
            root_at = None
            for ev in p.events:
                if ev.k == "call" and ev.a != "ok":
                    continue
                effs = [e for e in tr.at(ev) if util.is_self_root(e)]
                # a callee that both writes and assigns the root is checked on its own
                # paths: at the call, its writes are ordered before its root store
                for e in effs:
                    if root_at is not None and e.op == "W" and e.state == "DB":
                        viol = (root_at, ev, e)
                        break
                if viol:
                    break
                for e in effs:
                    if e.op == "SET" and e.state == "ROOT":
                        root_at = (ev, e)
            if viol:
                break
        ctx.paths_enumerated += npaths
        c = "root-last:%s" % fkey(f)
        if viol:
            (rev, re_), wev, we = viol
            ctx.bad(c, f.loc(rev.node), "root_hash is assigned at line %d and a db write follows at %s (an aborted write would leave a root pointing at missing nodes)"
                    % (rev.node.lineno, we.where()), witness={"root_store": re_.where(), "later_write": we.where(), "via": list(we.chain)})
        else:
            ctx.ok(c, f.loc(), "on all %d paths no db write follows the root_hash store" % npaths)
    ctx.expect_min("functions assigning root_hash in %s" % cls.split(":")[1], n_root, 3, "set/delete/_set_root_node/squash_changes or set/delete/delete_subtrie/setter")


# ---------------------------------------------------------------------------
# RSRC  readers answer from the known state only
# ---------------------------------------------------------------------------
def _mutable_display(e):
    if isinstance(e, (ast.Dict, ast.List, ast.Set, ast.DictComp, ast.ListComp, ast.SetComp)):
        return True
    if isinstance(e, ast.Call):
        nm = e.func.attr if isinstance(e.func, ast.Attribute) else (e.func.id if isinstance(e.func, ast.Name) else "")
        return nm in ("dict", "list", "set", "defaultdict", "OrderedDict", "bytearray", "deque", "SortedSet", "Counter", "WeakValueDictionary", "WeakKeyDictionary")
    return False


@rule("RSRC", list(READERS))
def rsrc(ctx, pid):
    """A reader (and everything it calls) consults only the declared state of its object (db, root, configuration):
    an answer that comes from any other attribute is a cache / memo whose freshness nothing in the property covers."""
    from .. import spec
    seen_funcs = set()
    work = [_reader(ctx, q) for q in READERS[pid]]
    while work:
        f = work.pop()
        if f.qual in seen_funcs:
            continue
        seen_funcs.add(f.qual)
        for call, tg in ctx.E.call_edges(f):
            if tg.kind == "def" and tg.func.module.name.startswith("trie") and not tg.func.module.is_tools:
                work.append(tg.func)
            elif tg.kind == "ctor":
                for n in ("__init__", "__new__"):
                    g = tg.cls.methods.get(n)
                    if g is not None:
                        work.append(g)
    bad = None
    n_loads = 0
    for q in sorted(seen_funcs):
        f = ctx.P.funcs[q]
        for node in walk_shallow(f.node):
            if not (isinstance(node, ast.Attribute) and isinstance(node.ctx, ast.Load)):
                continue
            t = ctx.R.type_of(node.value, f)
            if not t or t[0] not in ("inst", "cls"):
                continue
            cls = t[1]
            if not hasattr(cls, "class_attrs"):
                continue
            # a class-level attribute that holds a mutable container is shared by every instance: read through
            # the instance or through the class, it is state outside (db, root, configuration)
            cav = cls.class_attrs.get(node.attr)
            if cav is not None and _mutable_display(cav) and node.attr not in cls.methods:
                n_loads += 1
                bad = bad or (f, node, cls, node.attr)
                continue
            if t[0] == "cls":
                continue
            if not any(k[0] == cls.qual for k in spec.STATE):
                continue  # classes without declared state (exceptions, named tuples)
            n_loads += 1
            a = node.attr
            if (cls.qual, a) in spec.STATE or a in cls.methods or a in cls.setters or a in cls.class_attrs or a in cls.annotations:
                continue
            if f.name == "__init__" and f.cls is cls:
                continue
            bad = bad or (f, node, cls, a)
    c = "known-state-only:%s" % pid
    if bad:
        f, node, cls, a = bad
        ctx.bad(c, f.loc(node), "%s reads `%s.%s`, which is not part of the declared state of %s (db / root / configuration): the answer can come from a memo instead of the content-addressed store"
                % (fkey(f), ast.unparse(node.value), a, cls.name), witness={"function": f.qual, "attribute": a})
    else:
        ctx.ok(c, "trie/", "the %d functions reachable from the readers load only declared state attributes (%d attribute loads)" % (len(seen_funcs), n_loads))
    # memoising decorators: results of a reader would be remembered across changes of the db / root
    PURE_MEMO_OK = {"trie.hexary:HexaryTrie._cached_create_node_to_db_mapping"}  # pure function of the node contents
    mbad = None
    for q in sorted(seen_funcs):
        f = ctx.P.funcs[q]
        if q in PURE_MEMO_OK:
            continue
        for d in f.decos:
            if d.split(".")[-1] in ("lru_cache", "cache", "cached_property") or "memoize" in d:
                # a module-level function that touches nothing but its (hashable, hence immutable) arguments
                # is a pure function of them: remembering its results changes no answer
                effs = [e for e in ctx.E.summaries().get(q, ()) if e.loc is not None and e.loc[0][0] != "local"]
                if f.cls is None and not effs and d.split(".")[-1] != "cached_property":
                    continue
                mbad = mbad or (f, d)
    if mbad:
        ctx.bad("no-memoised-reader:%s" % pid, mbad[0].loc(), "%s is wrapped in `%s`: its result would be remembered although it depends on the db / root, which change" % (fkey(mbad[0]), mbad[1]))
    # global (module-level) mutable tables consulted by readers must be constant tables
    gbad = None
    for q in sorted(seen_funcs):
        f = ctx.P.funcs[q]
        for e in ctx.E.primitives(f):
            if e.loc is not None and e.loc[0][0] == "global" and e.op in ("W", "D", "M", "SET"):
                gbad = gbad or (f, e)
    if gbad:
        ctx.bad("no-global-memo:%s" % pid, gbad[1].where(), "%s writes the module-level object `%s` (a process-wide memo shared by all tries and databases)" % (fkey(gbad[0]), gbad[1].loc[0][1]))
