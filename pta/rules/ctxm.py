"""Context-manager ordering rules (ORD3/ORD4/ORD5), batch isolation (AL2a/AL2b),
ScratchDB provenance and decision tables (PROV4/8/12, ABS7), snapshot views (AL3/AL4/AL5)."""
import ast

from ..core import rule
from ..model import walk_shallow, AnalysisError, UNKNOWN
from .. import util, spec
from ..util import Trace, fkey
from .eff import HEX, SDB, sym, _is_pruning_expr

WRITE_STATES = {"DB", "WDB", "ROOT", "RC", "PEND", "CACHE"}


def _yield_index(p):
    for i, ev in enumerate(p.events):
        if ev.k == "yield":
            return i, ev
    return None, None


def _effects_after(ctx, f, p, start, tr):
    out = []
    for ev in p.events[start:]:
        if ev.k in ("call", "src") and ev.a != "ok":
            continue
        for e in tr.at(ev):
            out.append((ev, e))
    return out


# ---------------------------------------------------------------------------
@rule("ORD4", ["C17", "C05", "C06"])
def ord4(ctx, pid):
    """ScratchDB.batch_commit: wrapped db written only on the resumed-normally outcome of the
    yield; the throw outcome re-raises; the cache is reset on every exit."""
    f = ctx.P.func(SDB + ".batch_commit")
    if not f.is_ctxmgr:
        raise AnalysisError("anchor vanished: batch_commit is no longer a generator context manager")
    tr = Trace(ctx, f)
    paths = ctx.X.paths(f)
    ctx.paths_enumerated += len(paths)
    n_throw = n_resume = 0
    v_a = v_b = v_c = v_d = None
    commit_writes = 0
    for p in paths:
        yi, yev = _yield_index(p)
        if yi is None:
            # exit before reaching the yield (argument errors): must not write either
            for ev, e in _effects_after(ctx, f, p, 0, tr):
                if e.state == "WDB" and e.op in ("W", "D"):
                    v_d = v_d or (ev, e)
            continue
        for ev, e in _effects_after(ctx, f, p, 0, tr)[:0]:
            pass
        # (d) before the yield
        for ev in p.events[:yi]:
            for e in tr.at(ev):
                if e.state == "WDB" and e.op in ("W", "D"):
                    v_d = v_d or (ev, e)
        after = _effects_after(ctx, f, p, yi + 1, tr)
        if yev.a == "throw":
            n_throw += 1
            for ev, e in after:
                if e.state == "WDB" and e.op in ("W", "D"):
                    v_a = v_a or (ev, e)
            if p.exit[0] != "raise":
                v_b = v_b or p
        else:
            n_resume += 1
            commit_writes += sum(1 for ev, e in after if e.state == "WDB" and e.op == "W")
        # (c) last CACHE effect is a store of a fresh empty dict
        cache_effs = [(ev, e) for ev, e in after if e.state == "CACHE" and e.op in ("W", "D", "SET", "M")]
        ok_c = False
        if cache_effs:
            ev, e = cache_effs[-1]
            if e.op == "SET" and isinstance(e.value, ast.Dict) and not e.value.keys:
                ok_c = True
            elif e.op == "SET" and isinstance(e.value, ast.Call) and ast.unparse(e.value.func) == "dict" and not e.value.args:
                ok_c = True
        if not ok_c:
            v_c = v_c or (p, cache_effs[-1] if cache_effs else None)
    ctx.expect_min("batch_commit paths through the throw outcome of yield", n_throw, 1, "except arm")
    ctx.expect_min("batch_commit paths through the resume outcome of yield", n_resume, 2, "else arm with the commit loop")
    loc = f.loc()
    if v_a:
        ctx.bad("commit-on-exception:ScratchDB.batch_commit", v_a[1].where(), "wrapped db is written (`%s`) on a path that starts at the exception outcome of the batch body" % util.norm_src(v_a[1].node))
    else:
        ctx.ok("commit-on-exception:ScratchDB.batch_commit", loc, "no wrapped-db write on any of the %d paths from the throw outcome of the yield" % n_throw)
    if v_b:
        ctx.bad("swallow:ScratchDB.batch_commit", loc, "a path from the exception outcome of the batch body ends without re-raising (exit %s)" % (v_b.exit[0],))
    else:
        ctx.ok("swallow:ScratchDB.batch_commit", loc, "every path from the throw outcome ends in a raise")
    if v_c:
        ctx.bad("cache-reset:ScratchDB.batch_commit", loc, "a path to exit `%s` does not end with `self.cache = {}` as its last cache effect" % (v_c[0].exit[0],))
    else:
        ctx.ok("cache-reset:ScratchDB.batch_commit", loc, "on all paths after the yield the last cache effect is a store of a fresh empty dict")
    if v_d:
        ctx.bad("write-before-yield:ScratchDB.batch_commit", v_d[1].where(), "wrapped db is written before the batch body runs")
    else:
        ctx.ok("write-before-yield:ScratchDB.batch_commit", loc, "no wrapped-db write before the yield")
    if commit_writes == 0:
        ctx.bad("commit-missing:ScratchDB.batch_commit", loc, "no path from the normal outcome of the yield writes the buffer to the wrapped db")
    else:
        ctx.ok("commit-missing:ScratchDB.batch_commit", loc, "the resume outcome reaches the commit loop")
    # EFF1 for ScratchDB: the dict API touches only the cache
    S = ctx.E.summaries()
    for name, allowed in (("__setitem__", {("W", "CACHE")}), ("__delitem__", {("W", "CACHE")}), ("__init__", None)):
        g = ctx.P.cls(SDB).methods.get(name)
        if g is None:
            raise AnalysisError("anchor vanished: ScratchDB.%s" % name)
        if allowed is None:
            continue
        effs = {(e.op, e.state) for e in S[g.qual] if e.op != "R" and util.real(e)}
        c = "buffer-only:ScratchDB.%s" % name
        extra = effs - allowed
        if extra:
            ctx.bad(c, g.loc(), "effects %s besides buffering in the cache" % sorted(extra), rule="EFF1")
        elif not effs:
            ctx.bad(c, g.loc(), "does not record the action in the cache", rule="EFF1")
        else:
            ctx.ok(c, g.loc(), "only effect is a store into self.cache", nontrivial=False).rule = "EFF1"
    for g in util.class_functions(ctx, SDB):
        if g.name in ("batch_commit",):
            continue
        bad = [e for e in S[g.qual] if e.state == "WDB" and e.op in ("W", "D", "M") and util.real(e)]
        if bad:
            ctx.bad("wrapped-write:ScratchDB.%s" % g.name, bad[0].where(), "wrapped db is modified outside batch_commit", rule="EFF1")
    # __delitem__ must buffer the DELETED marker, __setitem__ the value
    _check_buffer_values(ctx)


def _check_buffer_values(ctx):
    c = ctx.P.cls(SDB)
    si, di = c.methods["__setitem__"], c.methods["__delitem__"]
    for g, want in ((si, "value"), (di, "DELETED")):
        stores = [e for e in ctx.E.primitives(g) if e.op == "W" and e.state == "CACHE"]
        cst = "buffer-value:ScratchDB.%s" % g.name
        # every call records its action: the store is on every path
        def _same(a, b):
            return a is b or (isinstance(a, ast.Expr) and a.value is b) or (isinstance(b, ast.Expr) and b.value is a)
        missing = [p for p in ctx.X.paths(g) if p.exit[0] != "raise" and not any(
            ev.k in ("stmt", "call") and any(_same(e.node, ev.node) for e in stores) for ev in p.events)]
        if stores and missing:
            ctx.bad("buffer-always:ScratchDB.%s" % g.name, g.loc(), "a path through %s returns without recording the action in the cache (last-write-wins would be lost)" % g.name, rule="EFF1")
        elif stores:
            ctx.ok("buffer-always:ScratchDB.%s" % g.name, g.loc(), "the action is recorded on every path", rule="EFF1")
        if len(stores) != 1:
            ctx.unsure(cst, g.loc(), "expected exactly one cache store, found %d" % len(stores))
            continue
        e = stores[0]
        ekey, evalue = getattr(e, "key", None), getattr(e, "value", None)
        call = e.node.value if isinstance(e.node, ast.Expr) else e.node
        if isinstance(call, ast.Call) and isinstance(call.func, ast.Attribute):
            # a store spelled as a dict method: cache.update({k: v}) with one literal pair is cache[k] = v
            # (benign/scratchf-1); any other method form is not read by this table - a refusal, not a verdict
            a = call.args
            if call.func.attr == "update" and len(a) == 1 and not call.keywords and isinstance(a[0], ast.Dict) \
                    and len(a[0].keys) == 1 and a[0].keys[0] is not None:
                ekey, evalue = a[0].keys[0], a[0].values[0]
            else:
                ctx.unsure(cst, e.where(), "`%s`: a cache store through a dict method this table does not read" % util.norm_src(e.node), rule="EFF1")
                continue
        key_ok = isinstance(ekey, ast.Name) and ekey.id == g.params[1]
        if want == "value":
            val_ok = isinstance(evalue, ast.Name) and len(g.params) > 2 and evalue.id == g.params[2]
        else:
            val_ok = isinstance(evalue, ast.Name) and _is_deleted_marker(ctx, evalue, g)
        if key_ok and val_ok:
            ctx.ok(cst, e.where(), "cache[key] = %s" % want, nontrivial=False).rule = "EFF1"
        else:
            ctx.bad(cst, e.where(), "`%s` does not buffer %s under the given key" % (util.norm_src(e.node), want), rule="EFF1")


def _is_deleted_marker(ctx, e, f):
    from ..model import Sentinel
    if not isinstance(e, ast.Name):
        return False
    v = ctx.P.const(f.module, e.id)
    return isinstance(v, Sentinel)


# ---------------------------------------------------------------------------
@rule("PROV12", ["C17", "C04", "C06"])
def prov12(ctx, pid):
    """Commit loop: iterates cache.items() unfiltered; a write happens iff the value is not the
    DELETED marker; a delete only for the marker and only under do_deletes."""
    f = ctx.P.func(SDB + ".batch_commit")
    tr = Trace(ctx, f)
    S = sym(ctx)
    loops = [n for n in walk_shallow(f.node) if isinstance(n, ast.For)]
    commit = None
    for lp in loops:
        if any(e.state == "WDB" for e in ctx.E.primitives(f) if util.contains(lp, e.node)):
            commit = lp
    if commit is None:
        raise AnalysisError("anchor vanished: commit loop in batch_commit")
    it = commit.iter
    ok_iter = (isinstance(it, ast.Call) and isinstance(it.func, ast.Attribute) and it.func.attr == "items" and not it.args
               and util.self_attr(it.func.value, f, "cache"))
    c = "commit-iterates-cache"
    if ok_iter and isinstance(commit.target, ast.Tuple) and len(commit.target.elts) == 2:
        ctx.ok(c, f.loc(commit), "commit loop is `for key, value in self.cache.items()`", nontrivial=False)
    else:
        ctx.bad(c, f.loc(commit), "commit loop does not iterate over every (key, value) of self.cache: `%s`" % ast.unparse(it))
        return
    kname, vname = (x.id if isinstance(x, ast.Name) else None for x in commit.target.elts)
    # path conditions of every WDB effect inside the loop (one iteration)
    w_ok = d_ok = True
    seen_w = seen_d = False
    why = ""
    for p in ctx.X.paths(f):
        conds = []
        in_loop = False
        for ev in p.events:
            if ev.k == "loop" and ev.node is commit:
                in_loop = True
                conds = []
            elif ev.k == "loopexit" and ev.node is commit:
                in_loop = False
            if not in_loop:
                continue
            if ev.k == "assume":
                conds.append((ast.unparse(ev.node), ev.a, ev.node))
            for e in tr.at(ev) if not (ev.k in ("call", "src") and ev.a != "ok") else ():
                if e.state != "WDB":
                    continue
                marker = _marker_cond(ctx, f, conds, vname)
                dd = any(isinstance(n, ast.Name) and n.id == "do_deletes" and pol is True for _, pol, n in conds)
                if e.op == "W":
                    seen_w = True
                    kk = isinstance(e.key, ast.Name) and e.key.id == kname and isinstance(e.value, ast.Name) and e.value.id == vname
                    if marker is not False or not kk:
                        w_ok = False
                        why = "write `%s` under conditions %s" % (util.norm_src(e.node), [(c_, p_) for c_, p_, _ in conds])
                elif e.op == "D":
                    seen_d = True
                    kk = isinstance(e.key, ast.Name) and e.key.id == kname
                    if marker is not True or not dd or not kk:
                        d_ok = False
                        why = "delete `%s` under conditions %s" % (util.norm_src(e.node), [(c_, p_) for c_, p_, _ in conds])
    if not seen_w:
        ctx.bad("commit-write-guard", f.loc(commit), "commit loop never writes buffered values")
    elif w_ok:
        ctx.ok("commit-write-guard", f.loc(commit), "wrapped_db[key] = value exactly on the paths where value is not the DELETED marker")
    else:
        ctx.bad("commit-write-guard", f.loc(commit), why)
    if not seen_d:
        ctx.info("commit-delete-guard", f.loc(commit), "commit loop never deletes")
    elif d_ok:
        ctx.ok("commit-delete-guard", f.loc(commit), "wrapped delete only for the DELETED marker and only under do_deletes")
    else:
        ctx.bad("commit-delete-guard", f.loc(commit), why)
    # the default of do_deletes is False
    d = f.defaults().get("do_deletes")
    if d is None or not (isinstance(d, ast.Constant) and d.value is False):
        ctx.bad("do-deletes-default", f.loc(), "do_deletes does not default to False")
    else:
        ctx.ok("do-deletes-default", f.loc(), "do_deletes defaults to False", nontrivial=False)


def _marker_cond(ctx, f, conds, vname):
    """True: path assumes value is DELETED; False: assumes it is not; None: unknown."""
    res = None
    for src, pol, n in conds:
        if isinstance(n, ast.Compare) and len(n.ops) == 1 and isinstance(n.left, ast.Name) and n.left.id == vname \
                and _is_deleted_marker(ctx, n.comparators[0], f):
            if isinstance(n.ops[0], ast.Is):
                res = pol
            elif isinstance(n.ops[0], ast.IsNot):
                res = not pol
    return res


# ---------------------------------------------------------------------------
@rule("ABS7", ["C17"])
def abs7(ctx, pid):
    """Decision tables of ScratchDB.__getitem__ / __contains__."""
    c = ctx.P.cls(SDB)
    for name in ("__getitem__", "__contains__"):
        f = c.methods.get(name)
        if f is None:
            raise AnalysisError("anchor vanished: ScratchDB.%s" % name)
        key = f.params[1]
        rows = {}
        problems = []
        from .. import pq as _pq
        feasible = {}
        for p, st in _pq.states(ctx, f):
            feasible[id(p)] = p
        for p in feasible.values():  # (paths the term engine refutes - a test on a value just assigned - are not rows)
            if p.exit[0] != "return":
                continue
            incache = None
            live = None
            for ev in p.events:
                if ev.k == "src" and isinstance(ev.node, ast.Subscript) and util.self_attr(ev.node.value, f, "cache") \
                        and isinstance(ev.node.slice, ast.Name) and ev.node.slice.id == key and ev.a in ("ok", "KeyError") \
                        and any(isinstance(t_, ast.Try) and util.contains(t_, ev.node) and any(h.type is not None and "KeyError" in ast.unparse(h.type) for h in t_.handlers)
                                for t_ in ast.walk(f.node)):
                    incache = ev.a == "ok"  # try: v = self.cache[key] except KeyError: ..  is the test `key in self.cache`
                    if not incache:
                        live = None
                if ev.k != "assume":
                    continue
                n = ev.node
                if isinstance(n, ast.Compare) and len(n.ops) == 1 and isinstance(n.ops[0], (ast.In, ast.NotIn)) \
                        and isinstance(n.left, ast.Name) and n.left.id == key and util.self_attr(n.comparators[0], f, "cache"):
                    incache = ev.a if isinstance(n.ops[0], ast.In) else not ev.a
                elif isinstance(n, ast.Compare) and len(n.ops) == 1 and isinstance(n.ops[0], (ast.Is, ast.IsNot)) \
                        and _is_deleted_marker(ctx, n.comparators[0], f):
                    is_del = ev.a if isinstance(n.ops[0], ast.Is) else not ev.a
                    live = not is_del
            rv = util.path_deref(p, p.exit[1].value)
            src = _answer_source(ctx, f, rv, key)
            if isinstance(rv, ast.Constant) and isinstance(rv.value, bool):
                # `if key in self.wrapped_db: return True / return False` answers from the container it tested last
                tests = [ev for ev in p.events if ev.k == "assume" and isinstance(ev.node, ast.Compare) and len(ev.node.ops) == 1
                         and isinstance(ev.node.ops[0], (ast.In, ast.NotIn)) and isinstance(ev.node.left, ast.Name) and ev.node.left.id == key]
                if tests:
                    last = tests[-1]
                    pol = last.a if isinstance(last.node.ops[0], ast.In) else not last.a
                    if pol == rv.value and util.self_attr(last.node.comparators[0], f, "wrapped_db"):
                        src = "wrapped"
            if incache is True and live is True:
                row = "in-live"
            elif incache is True and live is False:
                row = "in-deleted"
            elif incache is False:
                row = "out"
            elif incache is True and live is None:
                row = "in-?"
            else:
                row = "?"
            rows.setdefault(row, set()).add(src)
        if "?" in rows:
            alt = _abs7_rows_terms(ctx, f, key)
            if alt is not None:
                rows = alt
        want = {"in-live": "cache", "in-deleted": "wrapped", "out": "wrapped"}
        for row, w in want.items():
            got = rows.get(row)
            cst = "table:ScratchDB.%s:%s" % (name, row)
            if got is None and "?" in rows and "in-?" not in rows:
                # some path could not be put in a row (a combined boolean expression, `cache.get(key, DELETED)`):
                # the missing row may be that path
                ctx.unsure(cst, f.loc(), "no interpreted path answers the case key %s (there are paths with uninterpreted cache conditions)" % row)
            elif got is None:
                ctx.bad(cst, f.loc(), "no path answers the case key %s" % row)
            elif got == {w}:
                ctx.ok(cst, f.loc(), "answer comes from the %s" % w)
            else:
                ctx.bad(cst, f.loc(), "case %s is answered from %s, expected %s (read-through)" % (row, sorted(got), w))
        for row in rows:
            if row not in want:
                ctx.unsure("table:ScratchDB.%s:%s" % (name, row), f.loc(), "path with uninterpreted cache conditions")
    # AL3: copy() returns a fresh mapping
    g = c.methods.get("copy")
    if g is None:
        raise AnalysisError("anchor vanished: ScratchDB.copy")
    rets = [n for n in walk_shallow(g.node) if isinstance(n, ast.Return) and n.value is not None]
    fresh = bool(rets) and all(ctx.E.is_fresh_expr(r.value, g) for r in rets)
    if g.is_generator and any(d.endswith(("to_dict", "to_tuple", "to_list", "to_set")) for d in g.decos) and not rets:
        fresh = True  # the decorator builds a new container from what the generator yields
    if fresh:
        ctx.ok("copy-fresh:ScratchDB.copy", g.loc(), "copy() builds a new mapping (merge + valfilter)", nontrivial=True).rule = "AL3"
    else:
        ctx.bad("copy-fresh:ScratchDB.copy", g.loc(), "copy() may return an object shared with the ScratchDB", rule="AL3")


def _abs7_rows_terms(ctx, f, key):
    """The decision table of a ScratchDB reader from the terms of its paths (boolean returns split by short-circuit
    evaluation): understands `key in cache`, `cache[key] is [not] DELETED`, a guarded `cache[key]` read, and
    `cache.get(key, DELETED) is [not] DELETED` (DELETED stands for "not in the cache or deleted there").
    -> {row: {source}} or None when a path cannot be read."""
    from .. import pq as _pq
    from ..pq import rel_norm, truth_norm
    from ..sym import C
    from ..model import Sentinel
    K = ("p", key)
    CACHE, WRAPPED = ("attr", ("self",), "cache"), ("attr", ("self",), "wrapped_db")

    def is_del(t):
        return t[0] == "c" and isinstance(t[1], Sentinel)

    def is_getd(t):
        return t[0] == "call" and t[1] == "m:get" and len(t[2]) == 3 and t[2][0] == CACHE and t[2][1] == K and is_del(t[2][2])
    rows = {}
    for p, st in _pq.states(ctx, f, fork_returns=True):
        if p.exit[0] != "return":
            continue
        incache = live = None
        rowset = None
        wrapped_in = None
        if f.name == "__getitem__" and st.ret is not None and st.ret[0] == "bool" and st.ret[1] in ("or", "and"):
            # `buffered or wrapped[key]` hands out one of its operands: a buffered value that is falsy (b"" is a
            # legitimate value) is skipped and the wrapped db answers instead
            rows.setdefault("in-live", set()).add("`%s` of two values (a falsy buffered value such as b'' is lost)" % st.ret[1])
            continue
        for t, pol, _ in st.log:
            r = rel_norm(t, pol)
            if r is None:
                continue
            op, a, b = r
            if op in ("in", "notin") and a == K and b == CACHE:
                incache = op == "in"
            elif op in ("in", "notin") and a == K and b == WRAPPED:
                wrapped_in = op == "in"
            elif op in ("is", "isnot") and is_del(b) and a == ("sub", CACHE, K):
                live = op == "isnot"
                incache = True if incache is None else incache
            elif op in ("is", "isnot") and is_del(b) and is_getd(a):
                rowset = {"in-deleted", "out"} if op == "is" else {"in-live"}
            elif op in ("is", "isnot") and is_del(b) and a[0] == "call" and a[1] == "m:get" and len(a[2]) == 2 and a[2][0] == CACHE and a[2][1] == K:
                # cache.get(key) without a default is None for a key the cache does not hold - and None is not DELETED
                rowset = {"in-deleted"} if op == "is" else {"in-live", "out"}
        if rowset is None:
            if incache is True and live is True:
                rowset = {"in-live"}
            elif incache is True and live is False:
                rowset = {"in-deleted"}
            elif incache is False:
                rowset = {"out"}
            elif incache is True:
                rowset = {"in-?"}
            else:
                return None
        rv = _pq.ret_term(st)
        if rv == ("sub", CACHE, K) or is_getd(rv):
            src = "cache"
        elif rv == ("sub", WRAPPED, K):
            src = "wrapped"
        elif rv[0] == "c" and isinstance(rv[1], bool):
            if wrapped_in is not None and wrapped_in == rv[1]:
                src = "wrapped"
            elif rv[1] is True:
                src = "cache"
            else:
                src = "const:False"
        else:
            src = "other"
        for row in rowset:
            rows.setdefault(row, set()).add(src)
    return rows


def _answer_source(ctx, f, rv, key):
    """Where a returned value comes from: 'cache' | 'wrapped' | 'const:...'"""
    if isinstance(rv, ast.Constant):
        return "cache" if rv.value is True else "const:%r" % (rv.value,)
    if isinstance(rv, ast.Name):
        bs = ctx.E.bindings(f).get(rv.id)
        if bs and len(bs) == 1 and isinstance(bs[0], ast.AST):
            return _answer_source(ctx, f, bs[0], key)
    if isinstance(rv, ast.Subscript):
        if util.self_attr(rv.value, f, "cache"):
            return "cache"
        if util.self_attr(rv.value, f, "wrapped_db"):
            return "wrapped"
    if isinstance(rv, ast.Compare) and len(rv.ops) == 1 and isinstance(rv.ops[0], ast.In):
        if util.self_attr(rv.comparators[0], f, "wrapped_db"):
            return "wrapped"
        if util.self_attr(rv.comparators[0], f, "cache"):
            return "cache"
    return "other:" + ast.unparse(rv)[:30]


# ---------------------------------------------------------------------------
def _squash(ctx):
    f = ctx.P.func(HEX + ".squash_changes")
    if not f.is_ctxmgr:
        raise AnalysisError("anchor vanished: squash_changes is no longer a generator context manager")
    withs = [n for n in walk_shallow(f.node) if isinstance(n, ast.With)]
    commit_with = None
    for w in withs:
        for it in w.items:
            if isinstance(it.context_expr, ast.Call):
                for t in ctx.R.resolve_call(it.context_expr, f, count=False):
                    if t.kind == "def" and t.func.qual == SDB + ".batch_commit":
                        commit_with = (w, it.context_expr)
    if commit_with is None:
        raise AnalysisError("anchor vanished: `with <ScratchDB>.batch_commit(...)` in squash_changes")
    ys = [n for n in walk_shallow(f.node) if isinstance(n, ast.Yield)]
    if len(ys) != 1 or ys[0].value is None:
        raise AnalysisError("anchor vanished: single `yield <batch trie>` in squash_changes")
    y = ys[0]
    ctor = None
    yv = y.value
    if isinstance(yv, ast.Name):
        cc = ctx.E.ctor_call_of(yv.id, f)
        if cc:
            ctor = cc
    elif isinstance(yv, ast.Call):
        for t in ctx.R.resolve_call(yv, f, count=False):
            if t.kind == "ctor":
                ctor = (t.cls, yv)
    if ctor is None:
        raise AnalysisError("anchor vanished: the yielded batch trie is not built by a resolved constructor call")
    return f, commit_with, y, ctor


@rule("ORD5", ["C05", "C01"])
def ord5(ctx, pid):
    """squash_changes: every effect on the outer trie lies on paths on which the commit
    completed normally; the batch is built and yielded inside the commit block."""
    f, (w, cm_call), y, (bcls, bcall) = _squash(ctx)
    tr = Trace(ctx, f)
    paths = ctx.X.paths(f)
    ctx.paths_enumerated += len(paths)
    viol = None
    n_after = 0
    for p in paths:
        committed = False
        for ev in p.events:
            if ev.k == "with_exit" and ev.node is w:
                committed = ev.a == "normal"
                continue
            if ev.k in ("call", "src") and ev.a != "ok":
                continue
            if ev.k == "call" and ev.node is cm_call:
                continue  # the commit itself (its discipline is ORD4)
            for e in tr.at(ev):
                if e.op == "R" or not util.is_self_root(e) or e.state not in WRITE_STATES:
                    continue
                if committed:
                    n_after += 1
                else:
                    viol = viol or (ev, e)
    c = "adopt-after-commit:HexaryTrie.squash_changes"
    if viol:
        ev, e = viol
        ctx.bad(c, f.loc(ev.node), "outer trie state (%s %s) is modified at %s before the commit has completed normally"
                % (e.op, e.state, e.where()), witness={"effect": repr(e)})
    else:
        ctx.ok(c, f.loc(), "all %d effect occurrences on the outer trie follow the normal exit of the commit block" % n_after)
    if n_after == 0:
        ctx.bad("adopt-missing:HexaryTrie.squash_changes", f.loc(), "the outer root is never assigned after the commit")
    # yield and construction inside the commit block
    if util.contains(w, y) and util.contains(w, bcall):
        ctx.ok("batch-inside-commit:HexaryTrie.squash_changes", f.loc(y), "batch trie is built and yielded inside the commit block", nontrivial=False)
    else:
        ctx.bad("batch-inside-commit:HexaryTrie.squash_changes", f.loc(y), "the batch trie is yielded outside `with batch_commit(...)`: its writes would never be committed atomically")
    # adopted root is the batch's root
    roots = [e for e in ctx.E.primitives(f) if e.op == "SET" and e.state == "ROOT" and util.is_self_root(e)]
    S = sym(ctx)
    byv = y.value.id if isinstance(y.value, ast.Name) else None
    for e in roots:
        v = e.value
        ok = False
        if isinstance(v, ast.Attribute) and v.attr == "root_hash" and isinstance(v.value, ast.Name) and v.value.id == byv:
            ok = True
        elif isinstance(v, ast.Call):
            # root re-derived by storing the batch's root node
            srcs = {n.id for n in ast.walk(v) if isinstance(n, ast.Name)}
            ok = True if byv in srcs or any(_derives_from_batch(ctx, f, n, byv) for n in srcs) else False
        cst = "adopt-source:%s" % util.norm_src(e.node)
        if ok:
            ctx.ok(cst, e.where(), "adopted root derives from the batch trie's root")
        else:
            ctx.bad(cst, e.where(), "root assigned after the batch does not come from the batch trie")


@rule("ADOPT", ["C05", "C06", "C01", "C07"])
def adopt(ctx, pid):
    """squash_changes and the reference counts: the batch gets None exactly when the outer trie keeps no counts
    and a copy of them otherwise; after a committed batch the outer trie adopts the batch's counts exactly
    when it is pruning."""
    from .. import pq
    from ..pq import rel_norm, truth_norm
    from ..sym import C, tstr
    f, (w, cm_call), y, (bcls, bcall) = _squash(ctx)
    eng = sym(ctx)
    RC = ("attr", ("self",), "_ref_count")
    ISP = ("attr", ("self",), "is_pruning")
    init = bcls.methods["__init__"]
    probs = []
    seen = set()
    for p, st in pq.states(ctx, f):
        if p.exit[0] not in ("return", "fall"):
            continue
        none = isp = None
        for t, pol, _ in st.log:
            r = rel_norm(t, pol)
            if r is not None and r[1] == RC and r[2] == C(None) and r[0] in ("is", "isnot", "==", "!="):
                none = r[0] in ("is", "==")
            elif r is None:
                tt, pp = truth_norm(t, pol)
                if tt == ISP:
                    isp = pp
        amap = ctx.E.bind_args(bcall, init, skip_self=True)
        a = amap.get("ref_count")
        at = eng.ev(a, f, st) if a is not None else C(None)
        if none is None:
            probs.append("the batch's reference counts do not depend on whether the outer trie keeps counts")
        elif none and at != C(None):
            probs.append("outer trie without counts: the batch is given `%s`, expected None" % tstr(at)[:40])
        elif not none and not (at[0] == "call" and at[1] in ("m:copy", "ext:copy.copy", "ext:dict", "ext:collections.defaultdict") and RC in at[2]):
            probs.append("outer trie with counts: the batch is given `%s`, expected a copy of self._ref_count" % tstr(at)[:40])
        got = st.attrs.get("self._ref_count")
        if isp is None:
            probs.append("after the commit the counts are handled without looking at is_pruning")
            continue
        seen.add(isp)
        if isp and got is None:
            probs.append("a pruning trie does not adopt the batch's reference counts after the commit: its counts describe the old trie")
        if isp and got is not None and (got == RC or got == at):
            probs.append("a pruning trie adopts `%s` after the commit, not the counts the batch ended up with" % tstr(got)[:40])
        if not isp and got is not None:
            probs.append("a non-pruning trie is given reference counts after a batch")
    c = "adopt-counts:HexaryTrie.squash_changes"
    if probs:
        ctx.bad(c, f.loc(), probs[0], witness={"problems": sorted(set(probs))})
    elif seen != {True, False}:
        ctx.unsure(c, f.loc(), "committed paths found for is_pruning in %s" % sorted(seen))
    else:
        ctx.ok(c, f.loc(), "batch counts: None iff the outer trie has none, else a copy; adopted after the commit iff the outer trie prunes")


def _derives_from_batch(ctx, f, name, byv):
    bs = ctx.E.bindings(f).get(name) or []
    for b in bs:
        if isinstance(b, ast.AST) and any(isinstance(n, ast.Name) and n.id == byv for n in ast.walk(b)):
            return True
    return False


@rule("AL2", ["C05", "C06", "C01", "C07"])
def al2(ctx, pid):
    """AL2a: no mutable object of the outer trie is handed to the batch trie.
    AL2b: after the commit the outer trie does not count references again."""
    f, (w, cm_call), y, (bcls, bcall) = _squash(ctx)
    init = bcls.methods["__init__"]
    amap = ctx.E.bind_args(bcall, init, skip_self=True)
    n_args = 0
    for pname, arg in amap.items():
        n_args += 1
        c = "batch-arg:%s" % pname
        if pname == init.params[1]:
            # the db argument must be the scratch db built over self.db
            l = ctx.E.loc(arg, f)
            ok = False
            if isinstance(arg, ast.Name):
                cc = ctx.E.ctor_call_of(arg.id, f)
                if cc and cc[0].qual == SDB and cc[1].args and util.self_attr(cc[1].args[0], f, "db"):
                    ok = True
            if ok:
                ctx.ok(c, f.loc(arg), "batch db is a fresh ScratchDB over self.db").rule = "PROV8"
            else:
                ctx.bad(c, f.loc(arg), "batch trie does not run on a ScratchDB wrapped around self.db", rule="PROV8")
            continue
        kind, why = _arg_sharing(ctx, f, arg)
        if kind == "shared":
            if pid in ("C05", "C06", "C01", "C07"):
                ctx.bad(c, f.loc(arg), "mutable state of the outer trie (`%s`: %s) is passed to the batch trie by reference; an aborted batch cannot be undone"
                        % (ast.unparse(arg), why), witness={"argument": ast.unparse(arg)})
            else:
                ctx.info(c, f.loc(arg), "shared mutable argument (decided under C05)")
        elif kind == "unknown":
            ctx.unsure(c, f.loc(arg), "cannot classify argument `%s`" % ast.unparse(arg))
        else:
            ctx.ok(c, f.loc(arg), "`%s` is %s" % (ast.unparse(arg), why))
    ctx.expect_min("batch constructor arguments", n_args, 3, "db, root_hash, prune, ref_count")
    # PROV8: prune=True constant
    pa = amap.get("prune")
    if pa is not None and isinstance(pa, ast.Constant) and pa.value is True:
        ctx.ok("batch-prunes", f.loc(bcall), "batch trie is constructed with the constant prune=True", nontrivial=False).rule = "PROV8"
    else:
        ctx.bad("batch-prunes", f.loc(bcall), "batch trie is not constructed with prune=True: intermediate nodes would be committed", rule="PROV8")
    # PROV4: do_deletes is the outer pruning flag
    dmap = ctx.E.bind_args(cm_call, ctx.P.func(SDB + ".batch_commit"), skip_self=True)
    da = dmap.get("do_deletes")
    if da is not None and _is_pruning_expr(ctx, da, f):
        ctx.ok("do-deletes-source", f.loc(cm_call), "do_deletes is self.is_pruning", nontrivial=False).rule = "PROV4"
    else:
        ctx.bad("do-deletes-source", f.loc(cm_call), "do_deletes is `%s`, not the outer trie's is_pruning" % (ast.unparse(da) if da is not None else "<default>"), rule="PROV4")
    # AL2b
    tr = Trace(ctx, f)
    hit = None
    for p in ctx.X.paths(f):
        after = False
        for ev in p.events:
            if ev.k == "with_exit" and ev.node is w:
                after = True
                continue
            if not after or (ev.k in ("call", "src") and ev.a != "ok"):
                continue
            for e in tr.at(ev):
                if util.is_self_root(e) and e.state == "RC" and e.op == "W":
                    hit = hit or (ev, e)
    c = "recount-after-commit:HexaryTrie.squash_changes"
    if hit:
        ev, e = hit
        ctx.bad(c, f.loc(ev.node), "after the commit the outer trie increments a reference count again (%s via %s): the batch already counted its root"
                % (e.where(), " > ".join(e.chain) or "-"), witness={"effect": repr(e)})
    else:
        ctx.ok(c, f.loc(), "no reference-count increment on the outer trie after the commit")


def _arg_sharing(ctx, f, arg, depth=0):
    if isinstance(arg, ast.Constant):
        return "const", "a constant"
    if isinstance(arg, ast.Name) and arg.id not in f.all_params() and depth < 4:
        bs = [b for b in ctx.E.bindings(f).get(arg.id, []) if isinstance(b, ast.AST)]
        if len(bs) > 1 and len(bs) == len(ctx.E.bindings(f).get(arg.id, [])):
            res = [_arg_sharing(ctx, f, b, depth + 1) for b in bs]
            for want in ("shared", "unknown"):
                for k, why in res:
                    if k == want:
                        return k, "one of its bindings (`%s`) is %s" % ("; ".join(ast.unparse(b) for b in bs), why)
            return "fresh", "fresh or constant on every binding"
    if isinstance(arg, ast.BoolOp):
        # `x and x.copy()` / `x or {}` evaluate to one of their operands: an empty (falsy) container comes out of
        # `and` as the object itself
        res = [_arg_sharing(ctx, f, b, depth + 1) for b in arg.values]
        for want in ("shared", "unknown"):
            for k, why in res:
                if k == want:
                    return k, "`%s` hands out one of its operands; %s" % (ast.unparse(arg)[:50], why)
        return "fresh", "fresh or constant whichever operand it evaluates to"
    if isinstance(arg, ast.IfExp):
        res = [_arg_sharing(ctx, f, b, depth + 1) for b in (arg.body, arg.orelse)]
        for want in ("shared", "unknown"):
            for k, why in res:
                if k == want:
                    return k, why
        return "fresh", "fresh or constant on both arms"
    t = ctx.R.type_of(arg, f)
    if t and t[0] == "c" and t[1] in ("bytes", "int", "bool", "str", "none", "tuple"):
        return "immutable", "immutable (%s)" % t[1]
    if ctx.E.is_fresh_expr(arg, f):
        return "fresh", "a fresh object (copy / new container)"
    l = ctx.E.loc(arg, f)
    if l is not None and l[0][0] == "self" and l[1]:
        st = spec.STATE.get((f.cls.qual, l[1][0]))
        if st and st[1] in ("bytes", "int", "bool"):
            return "immutable", "immutable state (%s)" % st[1]
        return "shared", "attribute of the outer trie of kind %s" % (st[0] if st else "?")
    if l is not None and l[0][0] == "fresh":
        return "fresh", "a fresh local"
    if l is not None and l[0][0] == "param":
        return "shared", "caller-supplied object"
    return "unknown", ""


# ---------------------------------------------------------------------------
@rule("ORD3", ["C06", "C07", "C18", "C01"])
def ord3(ctx, pid):
    """_prune_on_success: pruning is applied only on the resumed-normally outcome; the pending
    set is reset on every exit; every public mutator runs inside that context."""
    f = ctx.P.func(HEX + "._prune_on_success")
    if not f.is_ctxmgr:
        raise AnalysisError("anchor vanished: _prune_on_success is no longer a generator context manager")
    tr = Trace(ctx, f)
    paths = ctx.X.paths(f)
    ctx.paths_enumerated += len(paths)
    n_throw = 0
    v_apply = v_reset = None
    applied_on_success = False
    for p in paths:
        yi, yev = _yield_index(p)
        if yi is None:
            continue
        after = _effects_after(ctx, f, p, yi + 1, tr)
        if yev.a == "throw":
            n_throw += 1
            for ev, e in after:
                if (e.state in ("RC", "DB") and e.op in ("W", "D")):
                    v_apply = v_apply or (ev, e)
        else:
            if any(e.state == "RC" and e.op in ("W", "D") for ev, e in after):
                applied_on_success = True
        pend = [(ev, e) for ev, e in after if e.state == "PEND" and e.op in ("SET", "W", "D", "M")]
        ok = bool(pend) and pend[-1][1].op == "SET" and isinstance(pend[-1][1].value, ast.Constant) and pend[-1][1].value.value is None
        if not ok:
            v_reset = v_reset or p
    ctx.expect_min("_prune_on_success paths through the throw outcome", n_throw, 1, "failing operation")
    loc = f.loc()
    if v_apply:
        ev, e = v_apply
        ctx.bad("apply-on-failure:HexaryTrie._prune_on_success", f.loc(ev.node), "reference counts / db are modified (%s) on a path from the exception outcome of the operation" % e.where())
    else:
        ctx.ok("apply-on-failure:HexaryTrie._prune_on_success", loc, "no count/db effect on any path from the throw outcome of the yield")
    if not applied_on_success:
        ctx.bad("apply-on-success:HexaryTrie._prune_on_success", loc, "pending prunes are never applied on the success path")
    else:
        ctx.ok("apply-on-success:HexaryTrie._prune_on_success", loc, "pending prunes are applied on the resumed-normally outcome")
    if v_reset:
        ctx.bad("pending-reset:HexaryTrie._prune_on_success", loc, "a path to exit `%s` leaves _pending_prune_keys set" % (v_reset.exit[0],))
    else:
        ctx.ok("pending-reset:HexaryTrie._prune_on_success", loc, "on every path after the yield the last effect on _pending_prune_keys is the store of None")
    # every public mutator runs inside the context
    S = ctx.E.summaries()
    n_mut = 0
    for g in util.public_entries(ctx, HEX):
        if g.name in ("__init__", "squash_changes") or g.is_ctxmgr:
            continue
        muts = [e for e in S[g.qual] if util.is_self_root(e) and e.state in ("DB", "ROOT") and e.op in ("W", "SET")]
        if not muts:
            continue
        n_mut += 1
        inside = _runs_inside(ctx, g, f)
        c = "mutator-in-context:%s" % fkey(g)
        if inside:
            ctx.ok(c, g.loc(), "all state changes happen inside `with self._prune_on_success()`")
        else:
            ctx.bad(c, g.loc(), "public mutator changes trie state outside the prune-on-success context (pending prunes would never be applied or reset)")
    ctx.expect_min("public mutators of HexaryTrie", n_mut, 4, "set, delete, __setitem__, __delitem__")


def _runs_inside(ctx, g, cm, depth=0):
    """Every path of g performs its DB/ROOT effects between with_enter/with_exit of cm, or by
    calling a public method for which this holds."""
    tr = Trace(ctx, g)
    S = ctx.E.summaries()
    for p in ctx.X.paths(g):
        depth_in = 0
        for ev in p.events:
            if ev.k == "with_enter":
                ce = ev.a.context_expr
                if isinstance(ce, ast.Call) and any(t.kind == "def" and t.func is cm for t in ctx.R.resolve_call(ce, g, count=False)):
                    depth_in += 1
                continue
            if ev.k == "with_exit" and depth_in and _with_is_cm(ctx, g, ev.node, cm):
                depth_in -= 1
                continue
            if ev.k in ("call", "src") and ev.a != "ok":
                continue
            if depth_in:
                continue
            if ev.k == "call":
                tgs = ctx.R.resolve_call(ev.node, g, count=False)
                if any(t.kind == "def" and t.func is cm for t in tgs):
                    continue
                handled = False
                for t in tgs:
                    if t.kind == "def" and depth < 3 and any(
                            util.is_self_root(e) and e.state in ("DB", "ROOT") and e.op in ("W", "SET") for e in tr.lifted(ev.node)):
                        if not _runs_inside(ctx, t.func, cm, depth + 1):
                            return False
                        handled = True
                if handled:
                    continue
            for e in tr.at(ev):
                if util.is_self_root(e) and e.state in ("DB", "ROOT") and e.op in ("W", "SET"):
                    return False
    return True


def _with_is_cm(ctx, g, wnode, cm):
    for it in wnode.items:
        ce = it.context_expr
        if isinstance(ce, ast.Call) and any(t.kind == "def" and t.func is cm for t in ctx.R.resolve_call(ce, g, count=False)):
            return True
    return False


# ---------------------------------------------------------------------------
@rule("AL4", ["C04"])
def al4(ctx, pid):
    """at_root builds a non-pruning view over the same db object."""
    f = ctx.P.func(HEX + ".at_root")
    ys = [n for n in walk_shallow(f.node) if isinstance(n, ast.Yield)]
    if len(ys) != 1 or ys[0].value is None:
        raise AnalysisError("anchor vanished: single yield in at_root")
    yv = ys[0].value
    ctor = None
    if isinstance(yv, ast.Name):
        ctor = ctx.E.ctor_call_of(yv.id, f)
    elif isinstance(yv, ast.Call):
        for t in ctx.R.resolve_call(yv, f, count=False):
            if t.kind == "ctor":
                ctor = (t.cls, yv)
    if ctor is None:
        raise AnalysisError("anchor vanished: at_root does not yield a constructed trie")
    cls, call = ctor
    init = cls.methods["__init__"]
    amap = ctx.E.bind_args(call, init, skip_self=True)
    dba = amap.get(init.params[1])
    if dba is not None and util.self_attr(dba, f, "db"):
        ctx.ok("snapshot-db:HexaryTrie.at_root", f.loc(call), "snapshot reads the same db object", nontrivial=False)
    else:
        ctx.bad("snapshot-db:HexaryTrie.at_root", f.loc(call), "snapshot is not opened over self.db")
    ra = amap.get("root_hash")
    if ra is not None and isinstance(ra, ast.Name) and ra.id in f.params[1:]:
        ctx.ok("snapshot-root:HexaryTrie.at_root", f.loc(call), "snapshot root is the requested root", nontrivial=False)
    else:
        ctx.bad("snapshot-root:HexaryTrie.at_root", f.loc(call), "snapshot root is not the at_root argument")
    # prune argument false on every path reaching the construction
    pa = amap.get("prune")
    S = sym(ctx)
    from ..walk import Path
    verdict = None
    if pa is None:
        d = init.defaults().get("prune")
        verdict = isinstance(d, ast.Constant) and d.value is False
        why = "default prune=False"
    elif isinstance(pa, ast.Constant):
        verdict = pa.value is False
        why = "constant prune=%r" % pa.value
    else:
        verdict = True
        why = "`%s` is false on every path reaching the construction" % ast.unparse(pa)
        n = 0
        for p in ctx.X.paths(f):
            idx = [i for i, ev in enumerate(p.events) if ev.node is call and ev.k == "call"]
            if not idx:
                continue
            for st in S.run(f, Path(p.events[: idx[0]], ("fall",))):
                n += 1
                t = S.ev(pa, f, st)
                st2 = st.fork()
                if S.assume(t, True, st2.facts):
                    verdict = False
                    why = "`%s` may be true when the snapshot is built" % ast.unparse(pa)
        if n == 0:
            verdict = None
    c = "snapshot-nonpruning:HexaryTrie.at_root"
    if verdict is True:
        ctx.ok(c, f.loc(call), "snapshot is non-pruning: " + why)
    elif verdict is False:
        ctx.bad(c, f.loc(call), "snapshot may prune the shared db: " + why)
    else:
        ctx.unsure(c, f.loc(call), "construction not reachable")


@rule("COPY", ["C17"])
def copy_shape(ctx, pid):
    """ScratchDB.copy(): wrapped contents overlaid by the buffer (buffer wins), DELETED entries filtered out."""
    from ..pq import S
    from ..sym import tstr
    eng = S(ctx)
    f = ctx.P.func(SDB + ".copy")
    rets = set()
    from .. import pq
    for p, st in pq.states(ctx, f):
        if p.exit[0] == "return":
            rets.add(st.ret)
    merged = ("call", "ext:eth_utils.toolz.merge", (("attr", ("self",), "wrapped_db"), ("attr", ("self",), "cache")), ())
    ok = False
    for r in rets:
        if r[0] == "call" and r[1] == "ext:eth_utils.toolz.valfilter" and len(r[2]) == 2 and r[2][1] == merged:
            ok = True
    # third spelling: {k: v for k, v in merge(wrapped_db, cache).items() if v is not DELETED}
    if len(rets) == 1 and next(iter(rets))[0] == "dictcomp":
        r = next(iter(rets))
        from ..sym import C
        items = ("call", "m:items", (merged,), ())
        el = ("iter", items, "c")
        kk, vv = ("sub", el, C(0)), ("sub", el, C(1))
        good = r[1] == kk and r[2] == vv and r[3] == (items,) and len(r[4]) == 1 and r[4][0][0] == "cmp" and r[4][0][1] == "isnot" and r[4][0][2] == vv \
            and r[4][0][3][0] == "c" and type(r[4][0][3][1]).__name__ == "Sentinel"
        c = "overlay:ScratchDB.copy"
        if good:
            ctx.ok(c, f.loc(), "{k: v for k, v in merge(wrapped_db, cache).items() if v is not DELETED}: the buffer overrides the wrapped db, deletions are dropped")
        else:
            ctx.bad(c, f.loc(), "copy() returns `%s`; expected the items of merge(wrapped_db, cache) whose value is not DELETED" % tstr(r)[:90])
        return
    lam = [n for n in ast.walk(f.node) if isinstance(n, ast.Lambda)]
    lam_ok = len(lam) == 1 and isinstance(lam[0].body, ast.Compare) and isinstance(lam[0].body.ops[0], ast.IsNot) and _is_deleted_marker(ctx, lam[0].body.comparators[0], f) \
        and isinstance(lam[0].body.left, ast.Name) and lam[0].body.left.id == lam[0].args.args[0].arg
    c = "overlay:ScratchDB.copy"
    # second spelling: a generator under @to_dict that yields (key, value) for every item of the merged mapping
    # whose value is not the DELETED marker
    if f.is_generator and any(d.endswith("to_dict") for d in f.decos):
        rows = set()
        loops = [n for n in ast.walk(f.node) if isinstance(n, ast.For)]
        it_ok = False
        if len(loops) == 1 and isinstance(loops[0].target, ast.Tuple) and len(loops[0].target.elts) == 2:
            from ..sym import State
            it = None
            for p, st in pq.states(ctx, f, unroll=1):
                for ev in st.events:
                    if ev.k == "bind" and ev.a == "for":
                        it = eng.ev(ev.b, f, st)
            it_ok = it == ("call", "m:items", (merged,), ())
            kname, vname = (x.id if isinstance(x, ast.Name) else None for x in loops[0].target.elts)
            for p in ctx.X.paths(f, 1):
                live = None
                y = False
                for ev in p.events:
                    if ev.k == "assume" and isinstance(ev.node, ast.Compare) and len(ev.node.ops) == 1 and isinstance(ev.node.ops[0], (ast.Is, ast.IsNot)) \
                            and isinstance(ev.node.left, ast.Name) and ev.node.left.id == vname and _is_deleted_marker(ctx, ev.node.comparators[0], f):
                        live = (not ev.a) if isinstance(ev.node.ops[0], ast.Is) else ev.a
                    if ev.k == "yield" and isinstance(ev.node, ast.Yield):
                        v = ev.node.value
                        y = isinstance(v, ast.Tuple) and [getattr(x, "id", None) for x in v.elts] == [kname, vname]
                        if not y:
                            rows.add(("?", "bad-yield"))
                if live is not None:
                    rows.add((live, y))
        if it_ok and rows == {(True, True), (False, False)}:
            ctx.ok(c, f.loc(), "dict of the (key, value) pairs of merge(wrapped_db, cache) whose value is not DELETED: the buffer overrides the wrapped db, deletions are dropped")
        else:
            ctx.bad(c, f.loc(), "copy() does not yield exactly the non-DELETED items of merge(wrapped_db, cache) (iterates the merged items: %s; rows %s)" % (it_ok, sorted(rows, key=str)))
        return
    if ok and lam_ok and any(d.endswith("to_dict") for d in f.decos):
        ctx.ok(c, f.loc(), "dict(valfilter(is not DELETED, merge(wrapped_db, cache))): the buffer overrides the wrapped db, deletions are dropped")
    elif rets and not ok:
        ctx.bad(c, f.loc(), "copy() returns `%s`; expected the wrapped db overlaid by the cache (cache last, so it wins) with DELETED filtered" % "; ".join(tstr(r)[:70] for r in rets))
    else:
        ctx.bad(c, f.loc(), "copy() does not filter out exactly the DELETED markers")
