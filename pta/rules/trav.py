"""Traversal rules (C08, C07): ABS1 decision tables of _traverse_from / _traverse_extension, SIB2 traverse vs
traverse_from, ANN annotate_node field table, ABS5 one read per hop, PROV7 simulated node, READPATH, ORD2."""
import ast

from ..core import rule
from ..model import walk_shallow, AnalysisError
from .. import util, pq
from ..pq import S, rel_norm, truth_norm
from ..sym import C, tstr, is_c, State, ALLK, INF
from ..util import fkey, Trace
from .hexary import HEX, NODES, NIB, H, _init_state, FAMILY, param_kinds

NIBBLES = "ctor:trie.typing:Nibbles"


def _kind(eng, t, facts):
    ks = eng.kind_of(t, facts)
    return next(iter(ks)) if len(ks) == 1 else "/".join(sorted(ks))


@rule("ABS1", ["C08", "C01"])
def abs1(ctx, pid):
    """Classification of traversal exits: the decision tables of _traverse_extension and of one hop of
    _traverse_from, and the (Kind, Len) summary consumed by get / traverse."""
    eng = S(ctx)
    # ---- _traverse_extension
    f = H(ctx, "_traverse_extension")
    node, key = ("p", f.params[1]), ("p", f.params[2])
    ccp = ("call", NODES + "consume_common_prefix", (("call", NODES + "extract_key", (node,), ()), key), ())
    cur_rem, key_rem = ("sub", ccp, C(1)), ("sub", ccp, C(2))
    rows = {}
    for p, st in pq.states(ctx, f):
        a = eng.len_of(cur_rem, st.facts)
        b = eng.len_of(key_rem, st.facts)
        case = ("ext-consumed" if a == (0, 0) else "ext-left" if a[0] >= 1 else "?") + "/" + ("key-consumed" if b == (0, 0) else "key-left" if b[0] >= 1 else "any")
        if p.exit[0] == "return":
            r = st.ret
            if r == ("tuple", (("sub", node, C(1)), key_rem)):
                out = "descend(node[1], key remainder)"
            elif r in (("tuple", (C(b""), C(()))),):
                out = "blank"
            else:
                out = "return " + tstr(r)[:40]
        elif pq.local_raise(p) is not None:
            out = "raise " + p.exit[1].split(".")[-1]
        else:
            continue
        rows.setdefault(case, set()).add(out)
    want = {"ext-consumed/any": {"descend(node[1], key remainder)"}, "ext-left/key-consumed": {"raise _PartialTraversal"}, "ext-left/key-left": {"blank"}}
    c = "table:HexaryTrie._traverse_extension"
    if rows == want:
        ctx.ok(c, f.loc(), "extension path consumed -> descend with the key remainder; key ends inside the path -> partial; both left -> blank")
    else:
        ctx.bad(c, f.loc(), "extension hop table is %s, expected %s" % ({k: sorted(v) for k, v in rows.items()}, {k: sorted(v) for k, v in want.items()}))
    # ---- one hop of _traverse_from
    g = H(ctx, "_traverse_from")
    node, key = ("p", g.params[1]), ("p", g.params[2])
    rows = {}
    n_reads = {}
    gn = H(ctx, "get_node")
    # `while remaining_key:` leaves the loop after the hop (one round is enough to see every row); a `while True:`
    # machine with the arrival test at the top needs the start of a second round to show where a hop ends: those
    # paths count when the second round does nothing but arrive, the others are rows of the next hop
    endless_loop = any(isinstance(n_, ast.While) and isinstance(n_.test, ast.Constant) and n_.test.value is True for n_ in ast.walk(g.node))
    for p, st in pq.states(ctx, g, unroll=2 if endless_loop else 1):
        if endless_loop:
            rounds = sum(1 for ev in st.events if ev.k == "loop" and isinstance(ev.node, ast.While))
            if rounds >= 2:
                r_ = st.ret if p.exit[0] == "return" else None
                if not (r_ is not None and r_[0] == "tuple" and len(r_[1]) == 2 and r_[1][1] == ("call", NIBBLES, (C(()),), ()) and r_[1][0] != node):
                    continue
        lo, hi = eng.len_of(key, st.facts)
        if hi == 0:
            case = "key-empty"
        else:
            case = _kind(eng, node, st.facts)
            lk = ("call", NODES + "extract_key", (node,), ())
            for t, pol, _ in st.log:
                tt, pp = truth_norm(t, pol)
                if tt == ("call", NODES + "key_starts_with", (lk, key), ()):
                    case += ":key-within-leaf" if pp else ":diverges"
                elif tt[0] == "call" and tt[1] == NODES + "key_starts_with":
                    case += ":uninterpreted(%s)" % tstr(tt)[:40]
                elif tt[0] in ("sub",) and tt[1][0] == "call" and tt[1][1] == NODES + "consume_common_prefix":
                    case += ":uninterpreted(%s)" % tstr(tt)[:40]
        reads = 0
        for ev in st.events:
            if ev.k == "call" and ev.a == "ok" and isinstance(ev.node, ast.Call) and any(t.kind == "def" and t.func is gn for t in ctx.R.resolve_call(ev.node, g, count=False)):
                reads += 1
        handled = any(ev.k == "handler" and ev.a.endswith("_PartialTraversal") for ev in st.events)
        if p.exit[0] == "return":
            r = st.ret
            if r == ("tuple", (node, key)):
                out = "partial(node, key)"
            elif r in (("tuple", (C(b""), C(()))),):
                out = "blank"
            elif r[0] == "tuple" and r[1][1] == ("call", NIBBLES, (C(()),), ()):
                out = "arrived" if r[1][0] == node else "hop+arrived"
                if r[1][0] != node:
                    nxt = r[1][0]
                    # the node read in the hop
                    ptr = nxt[2][1] if nxt[0] == "call" and nxt[1] == HEX + ".get_node" else None
                    # what is left of the key after the hop: the term whose emptiness ends the walk on this path
                    resid = None
                    for t_, pol_, _n in reversed(st.log):
                        tt_, pp_ = truth_norm(t_, pol_)
                        if tt_[0] == "len":
                            tt_ = tt_[1]
                        if pp_ is False and tt_[0] in ("slice", "sub"):
                            resid = tt_
                            break
                        rn_ = rel_norm(t_, pol_)
                        if rn_ is not None and rn_[0] == "==" and rn_[2] == C(0) and rn_[1][0] == "len":
                            resid = rn_[1][1]
                            break
                    if ptr == ("sub", node, ("sub", key, C(0))):
                        out = "hop(node[key[0]], key[1:])" if resid == ("slice", key, C(1), None) else "hop(node[key[0]], residual %s)" % (tstr(resid)[:30] if resid else "?")
                    elif ptr is not None and ptr[0] == "sub" and ptr[1][0] == "call" and ptr[1][1] == HEX + "._traverse_extension":
                        out = "hop(extension child, remainder)" if resid == ("sub", ptr[1], C(1)) and ptr[2] == C(0) else \
                            "hop(extension child, residual %s)" % (tstr(resid)[:40] if resid else "?")
                    else:
                        out = "hop(%s)" % tstr(ptr)[:40]
            else:
                out = "return " + tstr(r)[:40]
            if handled and out == "partial(node, key)":
                out = "partial(node, key) after _PartialTraversal"
        elif pq.local_raise(p) is not None:
            out = "raise " + p.exit[1].split(".")[-1]
        else:
            continue
        rows.setdefault(case, set()).add(out)
        n_reads[case] = max(n_reads.get(case, 0), reads)
    want = {
        "key-empty": {"arrived"},
        "BLANK": {"blank"},
        "LEAF:key-within-leaf": {"partial(node, key)"},
        "LEAF:diverges": {"blank"},
        "EXT": {"partial(node, key) after _PartialTraversal", "hop(extension child, remainder)", "raise MissingTraversalNode"},
        "BRANCH": {"hop(node[key[0]], key[1:])", "raise MissingTraversalNode"},
    }
    c = "table:HexaryTrie._traverse_from"
    diffs = []
    for k, v in want.items():
        got = rows.get(k)
        if got != v:
            diffs.append("%s: %s, expected %s" % (k, sorted(got) if got else None, sorted(v)))
    for k in rows:
        if k not in want:
            if "uninterpreted" in k or "/" in k:
                diffs.append("case %s -> %s is not in the confirmed table" % (k, sorted(rows[k])))
            else:
                diffs.append("unexpected case %s -> %s" % (k, sorted(rows[k])))
    endless = any(isinstance(n_, ast.While) and isinstance(n_.test, ast.Constant) for n_ in ast.walk(g.node))
    if diffs and endless:
        ctx.unsure(c, g.loc(), "the traversal loop is a `while True` state machine the hop table is not written for (%s)" % diffs[0][:90])
    elif diffs:
        ctx.bad(c, g.loc(), "one traversal hop: " + diffs[0], witness={"differences": diffs, "table": {k: sorted(v) for k, v in rows.items()}})
    else:
        ctx.ok(c, g.loc(), "blank -> blank; leaf -> partial iff the residual key is a prefix of the leaf key, else blank; extension -> partial / child / blank via _traverse_extension; branch -> child key[0] with key[1:]")
    # ABS5 one read per hop
    c = "one-read-per-hop:HexaryTrie._traverse_from"
    worst = max(n_reads.values()) if n_reads else 0
    if worst <= 1:
        ctx.ok(c, g.loc(), "at most one get_node per loop iteration on every path", rule="ABS5")
    else:
        ctx.bad(c, g.loc(), "a loop iteration performs %d db reads" % worst, rule="ABS5")
    # summary consumed by get / traverse: residual non-empty only with LEAF / EXT
    split = {g.qual, H(ctx, "_traverse").qual, f.qual}
    eng._summ.pop(g.qual, None)
    cases = eng.summary(g, split, unroll=2) or []
    bad = None
    n = 0
    for ret, facts in cases:
        if ret[0] != "tuple":
            continue
        n += 1
        ks = eng.kind_of(ret[1][0], facts)
        lo, hi = eng.len_of(ret[1][1], facts)
        if hi > 0 and not ks <= {"LEAF", "EXT"}:
            bad = (sorted(ks), (lo, hi))
    c = "summary:HexaryTrie._traverse_from"
    if bad:
        ctx.bad(c, g.loc(), "a return site hands back a residual key of length %s together with a node of kind %s; only a leaf or extension may be left partially traversed" % (bad[1], bad[0]))
    elif n < 4:
        ctx.bad(c, g.loc(), "traversal summary has only %d return cases" % n)
    else:
        ctx.ok(c, g.loc(), "(Kind, Len) summary over %d return cases: a non-empty residual only with LEAF / EXT" % n)


@rule("SIB2", ["C08"])
def sib2(ctx, pid):
    """traverse and traverse_from share one tail: TraversedPartialPath iff the residual key is non-empty, with
    the consumed prefix and the annotated node; root_node is the zero-length traverse."""
    eng = S(ctx)
    split = None
    rows = {}
    for name, start in (("traverse", None), ("traverse_from", None)):
        f = H(ctx, name)
        kin = ("p", f.params[-1])
        key = ("call", NIBBLES, (kin,), ())
        if name == "traverse":
            tr = ("call", HEX + "._traverse", (("self",), ("attr", ("self",), "root_hash"), key), ())
        else:
            tr = ("call", HEX + "._traverse_from", (("self",), ("attr", ("p", f.params[1]), "raw"), key), ())
        node, rem = ("sub", tr, C(0)), ("sub", tr, C(1))
        ann = ("call", NODES + "annotate_node", (node,), ())
        outs = set()
        for p, st in pq.states(ctx, f):
            lo, hi = eng.len_of(rem, st.facts)
            res = "residual-empty" if hi == 0 else "residual-nonempty" if lo >= 1 else "?"
            if p.exit[0] == "return":
                outs.add((res, "return annotate(node)" if st.ret == ann else "return " + tstr(st.ret)[:50]))
            elif pq.local_raise(p) is not None:
                rs = pq.local_raise(p)
                exc = rs.exc
                args = [eng.ev(a, f, st) for a in exc.args] if isinstance(exc, ast.Call) else []
                wantargs = [("slice", key, None, ("bin", "-", ("len", key), ("len", rem))), ann, rem]
                # key[:-len(residual)] is the same prefix wherever the residual is known to be non-empty
                if lo >= 1 and len(args) == 3 and args[0] == ("slice", key, None, ("un", "-", ("len", rem))):
                    args = [wantargs[0]] + args[1:]
                outs.add((res, "raise TraversedPartialPath(consumed prefix, annotate(node), residual)" if p.exit[1].endswith("TraversedPartialPath") and args == wantargs
                          else "raise %s(%s)" % (p.exit[1].split(".")[-1], ", ".join(tstr(a)[:30] for a in args))))
        rows[name] = outs
        want = {("residual-empty", "return annotate(node)"), ("residual-nonempty", "raise TraversedPartialPath(consumed prefix, annotate(node), residual)")}
        c = "tail:%s" % fkey(f)
        if outs == want:
            ctx.ok(c, f.loc(), "returns the annotated node iff the residual key is empty, else raises TraversedPartialPath(key[:len(key)-len(residual)], node, residual)")
        else:
            ctx.bad(c, f.loc(), "%s tail is %s" % (name, sorted(outs)), witness={"expected": sorted(want)})
    rn = H(ctx, "root_node")
    outs = set()
    for p, st in pq.states(ctx, rn):
        if p.exit[0] == "return":
            outs.add(st.ret)
    w = ("call", NODES + "annotate_node", (("call", HEX + ".get_node", (("self",), ("attr", ("self",), "root_hash")), ()),), ())
    if outs == {w}:
        ctx.ok("zero-length:HexaryTrie.root_node", rn.loc(), "root_node is annotate_node(get_node(root_hash)) = traverse(())")
    else:
        ctx.bad("zero-length:HexaryTrie.root_node", rn.loc(), "root_node returns `%s`" % "; ".join(tstr(o)[:60] for o in outs))
    tv = H(ctx, "_traverse")
    outs = pq.rets(ctx, tv)
    w = ("call", HEX + "._traverse_from", (("self",), ("call", HEX + ".get_node", (("self",), ("p", tv.params[1])), ()), ("p", tv.params[2])), ())
    if outs == {w}:
        ctx.ok("start:HexaryTrie._traverse", tv.loc(), "_traverse starts _traverse_from at the root node with the whole key")
    else:
        ctx.bad("start:HexaryTrie._traverse", tv.loc(), "_traverse returns `%s`" % "; ".join(tstr(o)[:60] for o in outs))


@rule("ANN", ["C08"])
def ann(ctx, pid):
    """annotate_node: fields per node kind (sub_segments ascending over all 16 slots, value slot, suffix)."""
    eng = S(ctx)
    f = ctx.P.func(NODES + "annotate_node")
    nb = ("p", f.params[0])
    ek = ("call", NODES + "extract_key", (nb,), ())
    nibbles = lambda t: ("call", NIBBLES, (t,), ())  # noqa: E731
    empty = nibbles(C(()))
    rows = {}
    for p, st in pq.states(ctx, f):
        if p.exit[0] != "return":
            continue
        kind = _kind(eng, nb, st.facts)
        r = st.ret
        if not (r[0] == "call" and r[1] == "ctor:trie.typing:HexaryTrieNode"):
            rows[kind] = "return " + tstr(r)[:40]
            continue
        kw = dict(r[3])
        pos = list(r[2])
        names = ["sub_segments", "value", "suffix", "raw", "node_type"]
        for i, v in enumerate(pos):
            kw[names[i]] = v
        rows[kind] = kw
    probs = []

    def expect(kind, field, want, descr):
        got = rows.get(kind, {}).get(field) if isinstance(rows.get(kind), dict) else None
        if got not in (want if isinstance(want, list) else [want]):
            probs.append("%s node: %s is `%s`, expected %s" % (kind, field, tstr(got)[:70] if got else got, descr))
    for kind in ("LEAF", "BRANCH", "EXT", "BLANK"):
        if not isinstance(rows.get(kind), dict):
            probs.append("%s node is not annotated (%s)" % (kind, rows.get(kind)))
    val_last = [("call", "ext:bytes", (("sub", nb, C(-1)),), ())]
    expect("LEAF", "sub_segments", C(()), "()")
    expect("LEAF", "value", val_last + [("call", "ext:bytes", (("sub", nb, C(1)),), ())], "bytes(node[-1])")
    expect("LEAF", "suffix", nibbles(ek), "Nibbles(extract_key(node))")
    expect("BRANCH", "value", val_last + [("call", "ext:bytes", (("sub", nb, C(16)),), ())], "bytes(node[-1])")
    expect("BRANCH", "suffix", empty, "Nibbles(())")
    expect("EXT", "sub_segments", ("tuple", (nibbles(ek),)), "(Nibbles(extract_key(node)),)")
    expect("EXT", "value", C(b""), "b''")
    expect("EXT", "suffix", empty, "Nibbles(())")
    expect("BLANK", "sub_segments", C(()), "()")
    expect("BLANK", "value", C(b""), "b''")
    expect("BLANK", "suffix", empty, "Nibbles(())")
    for kind in ("LEAF", "BRANCH", "EXT", "BLANK"):
        if isinstance(rows.get(kind), dict):
            if rows[kind].get("raw") != nb:
                probs.append("%s node: raw is not the node body" % kind)
    # branch sub_segments: tuple(Nibbles((n,)) for n in range(16) if bool(node[n]))
    bs = rows.get("BRANCH", {}).get("sub_segments") if isinstance(rows.get("BRANCH"), dict) else None
    okb = False
    if bs is not None and bs[0] == "call" and bs[1] == "ext:tuple" and bs[2] and bs[2][0][0] in ("gen", "listcomp"):
        g = bs[2][0]
        it = ("iter", ("call", "ext:range", (C(16),), ()), "c")
        cond_ok = g[3] in ((("call", "ext:bool", (("sub", nb, it),), ()),), (("sub", nb, it),))
        okb = g[2] == (("call", "ext:range", (C(16),), ()),) and g[1] == nibbles(("tuple", (it,))) and cond_ok
    if not okb:
        probs.append("BRANCH node: sub_segments is `%s`, expected one-nibble segments for exactly the non-empty slots of range(16), ascending" % (tstr(bs)[:90] if bs else bs))
    c = "fields:annotate_node"
    if probs:
        ctx.bad(c, f.loc(), probs[0], witness={"problems": probs})
    else:
        ctx.ok(c, f.loc(), "leaf / branch / extension / blank fields follow the node layout (16 child slots ascending, value slot last)")


@rule("PROV7", ["C08"])
def prov7(ctx, pid):
    """Simulated node of TraversedPartialPath: trimmed by exactly len(untraversed tail), built as a new body."""
    eng = S(ctx)
    f = ctx.P.func("trie.exceptions:TraversedPartialPath._make_simulated_node")
    an = ("attr", ("self",), "node")
    kt = ("attr", ("self",), "untraversed_tail")
    suffix = ("attr", an, "suffix")
    segs = ("attr", an, "sub_segments")
    raw1 = ("sub", ("attr", an, "raw"), C(1))
    nibbles = lambda t: ("call", NIBBLES, (t,), ())  # noqa: E731
    rows = {}
    guards = {"leaf": False, "ext": False, "ext-equal": False, "empty-tail": False, "other": False}
    for p, st in pq.states(ctx, f):
        nseg = eng.len_of(segs, st.facts)
        case = "leaf" if nseg == (0, 0) else "ext" if nseg == (1, 1) else "other"
        lr = pq.local_raise(p)
        if lr is not None:
            last = truth_norm(st.log[-1][0], st.log[-1][1]) if st.log else None
            rl = rel_norm(st.log[-1][0], st.log[-1][1]) if st.log else None
            if rl and rl[0] == "==" and rl[1] == ("len", kt) and rl[2] == C(0):
                guards["empty-tail"] = True
            elif case == "leaf" and last == (("call", NODES + "key_starts_with", (suffix, kt), ()), False):
                guards["leaf"] = True
            elif case == "ext" and last == (("call", NODES + "key_starts_with", (("sub", segs, C(0)), kt), ()), False):
                guards["ext"] = True
            elif case == "ext" and rl and rl[0] == "==" and {rl[1], rl[2]} == {("len", kt), ("len", ("sub", segs, C(0)))}:
                guards["ext-equal"] = True
            elif case == "other":
                guards["other"] = True
            continue
        if p.exit[0] == "return":
            rows.setdefault(case, set()).add(st.ret)
    probs = []
    for k, msg in (("empty-tail", "an empty untraversed tail is refused"), ("leaf", "leaf: suffix must start with the tail"),
                   ("ext", "extension: path must start with the tail"), ("ext-equal", "extension: tail may not consume the whole path"),
                   ("other", "only leaf / extension nodes can be partially traversed")):
        if not guards[k]:
            probs.append("missing refusal: %s" % msg)
    tl = nibbles(("slice", suffix, ("len", kt), None))
    want_leaf = ("call", "ctor:trie.typing:HexaryTrieNode", (C(()), ("attr", an, "value"), tl,
                                                              ("list", (("call", NODES + "compute_leaf_key", (tl,), ()), raw1)),
                                                              ("call", "ctor:trie.typing:NodeType", (C(1),), ())), ())
    ext = ("sub", segs, C(0))
    te = nibbles(("slice", ext, ("len", kt), None))
    want_ext = ("call", "ctor:trie.typing:HexaryTrieNode", (("tuple", (te,)), ("attr", an, "value"), ("attr", an, "suffix"),
                                                             ("list", (("call", NODES + "compute_extension_key", (te,), ()), raw1)),
                                                             ("call", "ctor:trie.typing:NodeType", (C(2),), ())), ())
    if rows.get("leaf") != {want_leaf}:
        probs.append("leaf: simulated node is `%s`; expected suffix[len(tail):] as suffix and a new body [leaf_key(trimmed), raw[1]]" % "; ".join(tstr(r)[:100] for r in rows.get("leaf", [])))
    if rows.get("ext") != {want_ext}:
        probs.append("extension: simulated node is `%s`; expected extension[len(tail):] as the only sub-segment and a new body [extension_key(trimmed), raw[1]]" % "; ".join(tstr(r)[:100] for r in rows.get("ext", [])))
    c = "simulated-node:TraversedPartialPath._make_simulated_node"
    if probs:
        ctx.bad(c, f.loc(), probs[0], witness={"problems": probs})
    else:
        ctx.ok(c, f.loc(), "trimmed by exactly len(untraversed_tail); new body list; five refusals present")
    # no write to the enclosing node
    effs = [e for e in ctx.E.summaries()[f.qual] if e.op in ("W", "D", "M", "SET") and util.real(e) and not (e.op == "SET" and e.loc[1] and e.loc[1][-1] == "_simulated_node")]
    if effs:
        ctx.bad("no-mutation:TraversedPartialPath._make_simulated_node", effs[0].where(), "`%s` modifies the real node's body in place (the caller's held node would change)" % util.norm_src(effs[0].node), rule="EFF4")
    else:
        ctx.ok("no-mutation:TraversedPartialPath._make_simulated_node", f.loc(), "the enclosing node is not modified", rule="EFF4")
    # accessors map to args
    cls = ctx.P.cls("trie.exceptions:TraversedPartialPath")
    for name, idx in (("nibbles_traversed", 0), ("node", 1), ("untraversed_tail", 2)):
        g = cls.methods[name]
        outs = pq.rets(ctx, g)
        if outs == {("sub", ("attr", ("self",), "args"), C(idx))}:
            ctx.ok("accessor:TraversedPartialPath.%s" % name, g.loc(), "args[%d]" % idx, nontrivial=False)
        else:
            ctx.bad("accessor:TraversedPartialPath.%s" % name, g.loc(), "accessor returns `%s`" % "; ".join(tstr(o) for o in outs))


# ---------------------------------------------------------------------------
@rule("READPATH", ["C07"])
def readpath(ctx, pid):
    """A mutation / proof walk fetches a child only when the key continues into it (a reported missing node
    lies on the requested path), and no fallible read follows an effective write (ORD2)."""
    eng = S(ctx)
    gn = H(ctx, "get_node")
    n_reads = 0
    probs = []
    for name in ("_set_kv_node", "_set_branch_node", "_delete_kv_node", "_delete_branch_node", "_get_proof"):
        gen_form = False
        if name == "_get_proof":
            f, form = util.proof_walker(ctx)
            gen_form = form == "gen"
        else:
            f = H(ctx, name)
        init = _init_state(ctx, f) if name in FAMILY else None
        node = ("p", f.params[1]) if gen_form else ("p", "node")
        keyp = [p_ for p_ in f.params if p_ in ("trie_key",)] if not gen_form else [f.params[2]]
        K = ("p", keyp[0]) if keyp else None
        for p, st in pq.states_init(ctx, f, init, until=None):
            for i, ev in enumerate(st.events):
                if not (ev.k == "call" and isinstance(ev.node, ast.Call) and any(t.kind == "def" and t.func is gn for t in ctx.R.resolve_call(ev.node, f, count=False))):
                    continue
                # evaluate under the facts of the whole path prefix: re-run up to this event
                ptr = eng.ev(ev.node.args[0], f, st)
                n_reads += 1
                if not (ptr[0] == "sub" and ptr[1] == node):
                    continue
                idx = ptr[2]
                ks = eng.kind_of(node, st.facts)
                if idx in (C(1), C(-1)):
                    ek = ("call", NODES + "extract_key", (node,), ())
                    ok = False
                    key_terms = [K] if name != "_get_proof" or gen_form else [("slice", K, ("p", "proven_len"), None)]
                    for t, pol, n_ in st.log:
                        if n_.lineno > ev.node.lineno:
                            continue
                        tt, pp = truth_norm(t, pol)
                        if tt[0] == "call" and tt[1] == NODES + "key_starts_with" and tt[2][1] == ek and tt[2][0] in key_terms and pp:
                            ok = True
                    ccp = ("call", NODES + "consume_common_prefix", (ek, K), ())
                    if eng.len_of(("sub", ccp, C(1)), st.facts) == (0, 0) and _assumed_before(st, ("sub", ccp, C(1)), ev.node.lineno):
                        ok = True
                    if not ok:
                        probs.append((f, ev.node, "the child of an extension / kv node is fetched before (or without) establishing that the key continues along its path: a missing node off the requested path would be reported"))
    # the lone-child read of _normalize_branch_node: only when the branch really collapses onto that
    # child, i.e. after the "two or more items" and the "own value present" exits
    nf = H(ctx, "_normalize_branch_node")
    ninit = _init_state(ctx, nf)
    nnode = ("p", "node")
    for p, st in pq.states_init(ctx, nf, ninit):
        for ev in st.events:
            if ev.k == "call" and isinstance(ev.node, ast.Call) and any(t.kind == "def" and t.func is gn for t in ctx.R.resolve_call(ev.node, nf, count=False)):
                n_reads += 1
                val_empty = False
                for t, pol, n_ in st.log:
                    if n_.lineno > ev.node.lineno:
                        continue
                    tt, pp = truth_norm(t, pol)
                    if tt in (("sub", nnode, C(-1)), ("sub", nnode, C(16))) and pp is False:
                        val_empty = True
                if not val_empty:
                    probs.append((nf, ev.node, "_normalize_branch_node fetches the remaining child before (or without) establishing that the branch's own value slot is empty: with a value present the branch becomes a leaf and the child is not needed, so a missing node off the path would be reported"))
    c = "reads-on-path:HexaryTrie"
    if probs:
        f, node, why = probs[0]
        ctx.bad(c, f.loc(node), why)
    else:
        ctx.ok(c, "trie/hexary.py", "every child fetch in the mutation / proof walkers is guarded by the key continuing into that child (%d read occurrences)" % n_reads)
    ctx.expect_min("get_node occurrences on mutation / proof paths", n_reads, 8, "set / delete / proof walkers")
    # ---- ORD2: no fallible read after an effective write
    pn = H(ctx, "_persist_node")
    norm = H(ctx, "_normalize_branch_node")
    viol = None
    unsure = None
    for name in FAMILY:
        f = H(ctx, name)
        init = _init_state(ctx, f)
        for p, st in pq.states_init(ctx, f, init):
            writes = []  # result terms of persist / recursion so far
            for ev in st.events:
                if ev.k != "call" or not isinstance(ev.node, ast.Call):
                    continue
                tg = ctx.R.resolve_call(ev.node, f, count=False)[0]
                if tg.kind != "def":
                    continue
                nm = tg.func.name
                args = [eng.ev(a, f, st) for a in ev.node.args]
                term = ("call", tg.func.qual, (("self",),) + tuple(args), ())
                effective = [w for w in writes if st.facts.eq.get(w) != b"" and w != C(b"")]
                if nm == "get_node" and effective:
                    viol = viol or (f, ev.node, "get_node is called after `%s` on the same path: a missing node would abort the operation after part of it was written" % tstr(effective[0])[:50])
                elif nm == "_normalize_branch_node" and effective and f is not norm:
                    # the read inside is reachable only when fewer than two slots are non-blank
                    t = args[0]
                    safe = True
                    depth = 0
                    while t[0] == "upd":
                        v = t[3]
                        if not (b"" in st.facts.ne.get(v, ()) or (v[0] == "list")):
                            # blankness unknown: if v is blank the write that produced it had no
                            # effect; if it is not, the slot count does not drop.  Safe when v is
                            # itself the only write that may have taken effect.
                            if not (v in effective and len(effective) == 1):
                                safe = False
                        t = t[1]
                        depth += 1
                    if not (safe and t == ("p", "node") and depth >= 1):
                        unsure = unsure or (f, ev.node)
                if nm == "_persist_node":
                    writes.append(term)
                elif nm in FAMILY and nm != "_normalize_branch_node" and ev.a == "ok":
                    # recursion: effective unless its result is persisted as blank (checked through the persist result)
                    pass
    c = "reads-before-writes:HexaryTrie"
    if viol:
        ctx.bad(c, viol[0].loc(viol[1]), viol[2], rule="ORD2")
    elif unsure:
        ctx.unsure(c, unsure[0].loc(unsure[1]), "_normalize_branch_node (which may read) is called after an effective write on a path the rule cannot prove read-free", rule="ORD2")
    else:
        ctx.ok(c, "trie/hexary.py", "in the mutation family no db read follows a write that may have taken effect (the only read after a persist is on paths where the persisted child is blank, or where the branch keeps >= 2 non-blank slots)", rule="ORD2")


def _assumed_before(st, term, lineno):
    for t, pol, n in st.log:
        tt, pp = truth_norm(t, pol)
        if tt == term and n.lineno <= lineno:
            return True
        if tt[0] == "len" and tt[1] == term and n.lineno <= lineno:
            return True
        r = rel_norm(t, pol)
        if r and r[1] == ("len", term) and n.lineno <= lineno:
            return True
    return False
