"""Encoding rules (C16, C02): SIB6 hex-prefix tables, SIB7 binary node layout, EXC6 reject table,
SIB8 classifier agreement and key duals, PROV9 nibble lookup tables."""
import ast

from ..core import rule
from ..model import walk_shallow, AnalysisError, UNKNOWN
from .. import util, pq
from ..pq import S, rel_norm, truth_norm
from ..sym import C, tstr, is_c, State
from ..util import fkey

NIB = "trie.utils.nibbles:"
NODES = "trie.utils.nodes:"


class Unknown(Exception):
    pass


def ev_term(t, val, calls=None):
    """Evaluate a symbolic term under a valuation {term: python value}; raises Unknown."""
    if t in val:
        return val[t]
    h = t[0]
    if h == "c":
        return t[1]
    if h == "un" and t[1] == "not":
        return not ev_term(t[2], val, calls)
    if h == "un" and t[1] == "-":
        return -ev_term(t[2], val, calls)
    if h == "bool":
        vals = []
        for x in t[2]:
            v = ev_term(x, val, calls)
            vals.append(v)
            if t[1] == "and" and not v:
                return v
            if t[1] == "or" and v:
                return v
        return vals[-1]
    if h == "len":
        v = ev_term(t[1], val, calls)
        return len(v)
    if h == "bin":
        a, b = ev_term(t[2], val, calls), ev_term(t[3], val, calls)
        try:
            return {"+": lambda: a + b, "-": lambda: a - b, "%": lambda: a % b, "*": lambda: a * b, "&": lambda: a & b,
                    ">>": lambda: a >> b, "<<": lambda: a << b, "//": lambda: a // b, "|": lambda: a | b, "^": lambda: a ^ b}[t[1]]()
        except Exception:
            raise Unknown(tstr(t))
    if h == "cmp":
        a, b = ev_term(t[2], val, calls), ev_term(t[3], val, calls)
        try:
            return {"==": lambda: a == b, "!=": lambda: a != b, "<": lambda: a < b, "<=": lambda: a <= b, ">": lambda: a > b,
                    ">=": lambda: a >= b, "is": lambda: a is b or (a is None) == (b is None) and a == b, "isnot": lambda: not (a is b or a == b),
                    "in": lambda: a in b, "notin": lambda: a not in b}[t[1]]()
        except Exception:
            raise Unknown(tstr(t))
    if h == "sub":
        b = ev_term(t[1], val, calls)
        i = ev_term(t[2], val, calls)
        try:
            return b[i]
        except Exception:
            raise Unknown(tstr(t))
    if h == "slice":
        b = ev_term(t[1], val, calls)
        lo = ev_term(t[2], val, calls) if t[2] is not None else None
        hi = ev_term(t[3], val, calls) if t[3] is not None else None
        try:
            return b[lo:hi]
        except Exception:
            raise Unknown(tstr(t))
    if h == "call" and t[1] == "m:get" and len(t[2]) in (2, 3) and t[2][0][0] == "dict":
        # table.get(key, default) on a constant lookup table
        k = ev_term(t[2][1], val, calls)
        for kt, vt in t[2][0][1]:
            if kt[0] == "c" and kt[1] == k and type(kt[1]) is type(k):
                return ev_term(vt, val, calls)
        return ev_term(t[2][2], val, calls) if len(t[2]) == 3 else None
    if h == "tuple":
        return tuple(ev_term(x, val, calls) for x in t[1])
    if h == "call" and calls is not None:
        r = calls(t, val)
        if r is not NotImplemented:
            return r
    raise Unknown(tstr(t))


def run_cases(ctx, f, val, calls=None, unroll=1):
    """Outcomes of f's paths whose assumes all hold under the valuation.
    -> list of (path, state); raises Unknown if a condition cannot be evaluated."""
    out = []
    for p, st in pq.states(ctx, f, unroll=unroll):
        ok = True
        for t, pol, node in st.log:
            v = ev_term(t, val, calls)
            if bool(v) != pol:
                ok = False
                break
        if ok:
            out.append((p, st))
    return out


# ---------------------------------------------------------------------------
@rule("SIB6", ["C16", "C02", "C01", "C03", "C07", "C08", "C10"])
def sib6(ctx, pid):
    """Hex-prefix tables by constant propagation: encoder (terminated, odd) -> prefix nibbles;
    decoder flag -> (terminated, nibbles skipped); both equal the Yellow Paper table."""
    eng = S(ctx)
    enc = ctx.P.func(NIB + "encode_nibbles")
    nib = ("p", enc.params[0])
    term_t = ("call", NIB + "is_nibbles_terminated", (nib,), ())
    raw = ("call", NIB + "remove_nibbles_terminator", (nib,), ())
    odd_t = ("bin", "%", ("len", raw), C(2))
    table = {}
    probs = []
    # the nibbles without their terminator: the helper, or its two arms spelled out under the terminator test
    raw_forms = {None: {raw}, True: {raw, ("slice", nib, None, C(-1)), ("call", "ext:tuple", (("slice", nib, None, C(-1)),), ())},
                 False: {raw, nib, ("call", "ext:tuple", (nib,), ())}}

    def is_odd_term(x):
        return x[0] == "bin" and x[1] == "%" and x[3] == C(2) and x[2][0] == "len" and any(x[2][1] in v for v in raw_forms.values())
    for p, st in pq.states(ctx, enc):
        if p.exit[0] != "return":
            continue
        conds = {}
        raw_used = set()
        for t, pol, _ in st.log:
            tt, pp = truth_norm(t, pol)
            if tt == term_t:
                conds["term"] = pp
            elif is_odd_term(tt):
                conds["odd"] = pp
                raw_used.add(tt[2][1])
            elif tt[0] == "cmp" and is_odd_term(tt[2]) and is_c(tt[3]):
                r = rel_norm(tt, pp)
                conds["odd"] = (r[0] == "==" and r[2] == C(1)) or (r[0] == "!=" and r[2] == C(0))
                raw_used.add(tt[2][2][1])
            else:
                probs.append("uninterpreted condition `%s`" % tstr(tt)[:50])
        ret = st.ret
        want_wrap = "trie.utils.nibbles:nibbles_to_bytes"
        if not (ret and ret[0] == "call" and ret[1] == want_wrap):
            probs.append("the encoder does not return nibbles_to_bytes(flagged nibbles)")
            continue
        fl = ret[2][0]
        # tuple(chain((prefix...), raw)) or (prefix...) + raw
        inner = fl[2][0] if fl[0] == "call" and fl[1] == "ext:tuple" and fl[2] else fl
        allowed = raw_forms[conds.get("term")]
        if inner[0] == "call" and inner[1] == "ext:itertools.chain" and len(inner[2]) == 2 and inner[2][1] in allowed:
            pre, used = inner[2][0], inner[2][1]
        elif inner[0] == "bin" and inner[1] == "+" and inner[3] in allowed:
            pre, used = inner[2], inner[3]
        else:
            probs.append("flagged nibbles are `%s`, expected chain(prefix, nibbles without terminator)" % tstr(fl)[:60])
            continue
        if any(u not in allowed for u in raw_used):
            probs.append("the parity is taken of `%s`, which is not the nibbles without their terminator on this path" % tstr(sorted(raw_used, key=str)[0])[:50])
            continue
        if pre[0] == "tuple" and all(is_c(x) for x in pre[1]):
            pre = tuple(x[1] for x in pre[1])
        elif is_c(pre):
            pre = pre[1]
        else:
            probs.append("prefix nibbles `%s` are not constants on this path" % tstr(pre)[:40])
            continue
        if "term" in conds and "odd" in conds:
            table[(conds["term"], conds["odd"])] = pre
    want = {(False, False): (0, 0), (False, True): (1,), (True, False): (2, 0), (True, True): (3,)}
    c = "hp-encode-table:encode_nibbles"
    if probs:
        ctx.unsure(c, enc.loc(), probs[0])
    elif table != want:
        diff = ["(terminated=%s, odd=%s) -> %s, Yellow Paper: %s" % (k[0], k[1], table.get(k), v) for k, v in want.items() if table.get(k) != v]
        ctx.bad(c, enc.loc(), "hex-prefix encoder table differs from the specification: " + "; ".join(diff), witness={"table": {str(k): v for k, v in table.items()}})
    else:
        ctx.ok(c, enc.loc(), "flag = 2*terminated + odd, one zero pad nibble for even paths (4 cases)")
    # ---- decoder
    dec = ctx.P.func(NIB + "decode_nibbles")
    wf = ("call", NIB + "bytes_to_nibbles", (("p", dec.params[0]),), ())
    flag = ("sub", wf, C(0))
    dtable = {}
    probs = []
    for v in range(4):
        try:
            cases = run_cases(ctx, dec, {flag: v})
        except Unknown as e:
            probs.append("uninterpreted condition %s" % e)
            break
        outs = set()
        for p, st in cases:
            if p.exit[0] != "return":
                continue
            r = st.ret
            terminated = False
            if r[0] == "call" and r[1] == NIB + "add_nibbles_terminator":
                terminated = True
                r = r[2][0]
            if r[0] == "slice" and r[1] == wf and is_c(r[2]) and r[3] is None:
                outs.add((terminated, r[2][1]))
            else:
                outs.add(("?", tstr(r)[:40]))
        if len(outs) != 1:
            probs.append("flag %d has outcomes %s" % (v, sorted(outs, key=str)))
        else:
            dtable[v] = next(iter(outs))
    wantd = {0: (False, 2), 1: (False, 1), 2: (True, 2), 3: (True, 1)}
    c = "hp-decode-table:decode_nibbles"
    if probs:
        ctx.unsure(c, dec.loc(), probs[0])
    elif dtable != wantd:
        diff = ["flag %d -> (terminated=%s, skip %s), Yellow Paper: (terminated=%s, skip %s)" % ((k,) + tuple(dtable.get(k, ("?", "?"))) + v) for k, v in wantd.items() if dtable.get(k) != v]
        ctx.bad(c, dec.loc(), "hex-prefix decoder table differs from the specification: " + "; ".join(diff), witness={"table": dtable})
    else:
        ctx.ok(c, dec.loc(), "flags 0..3 -> (extension, skip 2), (extension, skip 1), (leaf, skip 2), (leaf, skip 1)")
    if pid == "C02":
        return
    # terminator helpers
    cm = ctx.P.modules["trie.constants"]
    if ctx.P.const(cm, "NIBBLE_TERMINATOR") != 16:
        ctx.bad("terminator-constant", "trie/constants.py", "NIBBLE_TERMINATOR is not 16 (it must lie outside the nibble range)")
    else:
        ctx.ok("terminator-constant", "trie/constants.py", "NIBBLE_TERMINATOR = 16", nontrivial=False)
    _check_terminator_helpers(ctx)


def _check_terminator_helpers(ctx):
    eng = S(ctx)
    T = C(16)
    f = ctx.P.func(NIB + "is_nibbles_terminated")
    n = ("p", f.params[0])
    rets = pq.rets(ctx, f)
    want = ("bool", "and", (n, ("cmp", "==", ("sub", n, C(-1)), T)))
    if rets == {want}:
        ctx.ok("terminated-test:is_nibbles_terminated", f.loc(), "non-empty and last nibble == terminator")
    else:
        ctx.bad("terminated-test:is_nibbles_terminated", f.loc(), "is_nibbles_terminated returns `%s`" % "; ".join(tstr(r)[:60] for r in rets))
    for name, on_term, on_not in (("add_nibbles_terminator", "same", "append"), ("remove_nibbles_terminator", "strip", "same")):
        g = ctx.P.func(NIB + name)
        n = ("p", g.params[0])
        tt = ("call", NIB + "is_nibbles_terminated", (n,), ())
        rows = {}
        for p, st in pq.states(ctx, g):
            if p.exit[0] != "return":
                continue
            pol = [pp for t, pp, _ in st.log if truth_norm(t, pp)[0] == tt]
            pol = truth_norm(tt, True)[1] if not pol else [truth_norm(t, pp)[1] for t, pp, _ in st.log if truth_norm(t, pp)[0] == tt][0]
            r = st.ret
            if r == n:
                k = "same"
            elif r == ("slice", n, None, C(-1)):
                k = "strip"
            elif r[0] == "call" and r[1] == "ext:itertools.chain" and r[2][0] == n and r[2][1] in (("tuple", (T,)), C((16,))):
                k = "append"
            else:
                k = tstr(r)[:40]
            rows[pol] = k
        c = "terminator-helper:%s" % name
        if rows == {True: on_term, False: on_not}:
            ctx.ok(c, g.loc(), "terminated -> %s, not terminated -> %s" % (on_term, on_not))
        else:
            ctx.bad(c, g.loc(), "%s behaves as %s, expected {terminated: %s, otherwise: %s}" % (name, rows, on_term, on_not))


# ---------------------------------------------------------------------------
@rule("EXC6", ["C16", "C12", "C13"])
def exc6(ctx, pid):
    """parse_node: accept exactly the layouts the encoders produce, reject everything else with InvalidNode (SIB7 + EXC6)."""
    eng = S(ctx)
    f = ctx.P.func(NODES + "parse_node")
    node = ("p", f.params[0])
    cm = ctx.P.modules["trie.constants"]
    KV, BR, LF = (ctx.P.const(cm, n) for n in ("KV_TYPE", "BRANCH_TYPE", "LEAF_TYPE"))
    # constants agree
    okc = True
    for n, v in (("KV", KV), ("BRANCH", BR), ("LEAF", LF)):
        pre = ctx.P.const(cm, n + "_TYPE_PREFIX")
        if pre != bytes([v]):
            okc = False
            ctx.bad("type-prefix:%s" % n, "trie/constants.py", "%s_TYPE_PREFIX is %r but %s_TYPE is %r" % (n, pre, n, v), rule="SIB7")
    types = ctx.P.const(cm, "BINARY_TRIE_NODE_TYPES")
    if set(types) != {KV, BR, LF} or len({KV, BR, LF}) != 3:
        okc = False
        ctx.bad("type-set", "trie/constants.py", "BINARY_TRIE_NODE_TYPES %r is not the three type constants" % (types,), rule="SIB7")
    if okc:
        ctx.ok("type-constants", "trie/constants.py", "X_TYPE_PREFIX == bytes([X_TYPE]) for kv/branch/leaf; BINARY_TRIE_NODE_TYPES is exactly those", rule="SIB7")

    class FakeNode:
        """abstract serialized node: type byte + length"""

        def __init__(self, t, n):
            self.t, self.n = t, n

        def __len__(self):
            return self.n

        def __getitem__(self, i):
            if isinstance(i, slice) and i.step in (None, 1):
                lo, hi, _ = i.indices(self.n)
                return FakePart(self, lo, max(lo, hi))
            if i == 0 and self.n > 0:
                return self.t
            raise Unknown("node[%r]" % (i,))

        def __eq__(self, o):
            if o == b"":
                return self.n == 0
            if o is None:
                return False
            raise Unknown("node == %r" % (o,))

        def __ne__(self, o):
            return not self.__eq__(o)

        __hash__ = None

    class FakePart:
        """node[lo:hi] of an abstract node: only its extent is known"""

        def __init__(self, base, lo, hi):
            self.base, self.lo, self.hi = base, lo, hi

        def __len__(self):
            return self.hi - self.lo

        def __getitem__(self, i):
            if isinstance(i, slice) and i.step in (None, 1):
                lo, hi, _ = i.indices(len(self))
                return FakePart(self.base, self.lo + lo, self.lo + max(lo, hi))
            if i == 0 and self.lo == 0 and self.hi > 0:
                return self.base.t
            raise Unknown("node[%d:%d][%r]" % (self.lo, self.hi, i))

        def __eq__(self, o):
            if o == b"":
                return len(self) == 0
            if o is None:
                return False
            raise Unknown("node part == %r" % (o,))

        def __ne__(self, o):
            return not self.__eq__(o)

        __hash__ = None

    def extent(t, fake):
        """a term that is a (nested) slice of the node -> ("part", lo, hi) for this node length"""
        try:
            v = ev_term(t, {node: fake})
        except Exception:
            return t
        if isinstance(v, FakePart):
            return ("part", v.lo, v.hi)
        if isinstance(v, FakeNode):
            return ("part", 0, v.n)
        return t

    def extents(t, fake):
        if isinstance(t, tuple) and t and t[0] == "call" and len(t) > 2 and isinstance(t[2], tuple):
            return (t[0], t[1], tuple(extents(a, fake) for a in t[2])) + tuple(t[3:])
        if isinstance(t, tuple) and t and t[0] in ("slice", "p"):
            return extent(t, fake)
        return t

    grid_t = [KV, BR, LF, 3, 4, 255]
    grid_n = [1, 2, 3, 16, 17, 31, 32, 33, 34, 64, 65, 66, 100]  # incl. lengths below 32, where `len(node) - 32` goes negative
    probs = []
    table = {}
    for t in grid_t:
        for n in grid_n:
            try:
                cases = run_cases(ctx, f, {node: FakeNode(t, n)})
            except Unknown as e:
                probs.append("uninterpreted condition: %s" % e)
                break
            outs = set()
            for p, st in cases:
                if p.exit[0] == "raise":
                    lr = pq.local_raise(p)
                    if lr is not None:
                        outs.add("raise:" + p.exit[1].split(".")[-1])
                    # exceptions out of the key-path unpacking are not part of the layout table
                elif p.exit[0] == "return":
                    r = st.ret
                    if r[0] == "tuple" and len(r[1]) == 3 and is_c(r[1][0]):
                        fk = FakeNode(t, n)
                        outs.add(("ret", r[1][0][1], extents(r[1][1], fk), extents(r[1][2], fk)))
                    else:
                        outs.add(("ret?", tstr(r)[:40]))
                else:
                    outs.add("fall")
            table[(t, n)] = outs
        if probs:
            break
    # the two blank inputs: b"" (length 0) and None are refused as InvalidNode before any indexing
    for label, val in (("b''", FakeNode(KV, 0)), ("None", None)):
        try:
            cases = run_cases(ctx, f, {node: val})
        except Unknown as e:
            table[(label, 0)] = {"index/compare before the blank check: %s" % e}
            continue
        except Exception as e:  # evaluating node[0] on None
            table[(label, 0)] = {"%s before the blank check" % type(e).__name__}
            continue
        outs = set()
        for p, st in cases:
            if p.exit[0] == "raise" and pq.local_raise(p) is not None:
                outs.add("raise:" + p.exit[1].split(".")[-1])
            elif p.exit[0] == "return":
                outs.add(("ret?", tstr(st.ret)[:40]))
            elif p.exit[0] != "raise":
                outs.add("fall")
        table[(label, 0)] = outs
    c = "parse-table:parse_node"
    if probs:
        ctx.unsure(c, f.loc(), probs[0])
        return

    def expect(t, n):
        if n == 0:
            return "raise:InvalidNode"
        if t == BR:
            return ("ret", BR, ("slice", node, C(1), C(33)), ("slice", node, C(33), None)) if n == 65 else "raise:InvalidNode"
        if t == KV:
            kp = ("call", "trie.utils.binaries:decode_to_bin_keypath", (("slice", node, C(1), C(-32)),), ())
            return ("ret", KV, kp, ("slice", node, C(-32), None)) if n > 33 else "raise:InvalidNode"
        if t == LF:
            return ("ret", LF, C(None), ("slice", node, C(1), None)) if n > 1 else "raise:InvalidNode"
        return "raise:InvalidNode"
    diffs = []
    for (t, n), outs in table.items():
        w = expect(t, n)
        if isinstance(w, tuple) and isinstance(t, int):
            fk = FakeNode(t, n)
            w = ("ret", w[1], extents(w[2], fk), extents(w[3], fk))
        if outs != {w}:
            diffs.append("%s, length %d: %s, expected %s" % ("type byte %d" % t if isinstance(t, int) else "blank input %s" % t, n, sorted(map(_o, outs)), _o(w)))
    # None / empty
    empties = []
    for p, st in pq.states(ctx, f):
        for t_, pol, _ in st.log:
            pass
    if diffs:
        ctx.bad(c, f.loc(), diffs[0], witness={"differences": diffs[:10]})
    else:
        ctx.ok(c, f.loc(), "%d (type byte, length) cases: branch iff len 65, kv iff len > 33, leaf iff len > 1, InvalidNode otherwise; slices match the writers' layout" % len(table))
    # blank / None rejected
    rej = False
    for p, st in pq.states(ctx, f):
        lr = pq.local_raise(p)
        if lr is not None and p.exit[1].endswith("InvalidNode"):
            if any(st.facts.none.get(node) is True or st.facts.eq.get(node) == b"" for _ in [0]):
                rej = True
    if rej:
        ctx.ok("reject-empty:parse_node", f.loc(), "None and b'' are rejected with InvalidNode")
    else:
        ctx.bad("reject-empty:parse_node", f.loc(), "None / empty input is not rejected with InvalidNode")
    # writers
    for name, wantf in (("encode_kv_node", lambda g: ("bin", "+", ("bin", "+", C(bytes([KV])), ("call", "trie.utils.binaries:encode_from_bin_keypath", (("p", g.params[0]),), ())), ("p", g.params[1]))),
                        ("encode_branch_node", lambda g: ("bin", "+", ("bin", "+", C(bytes([BR])), ("p", g.params[0])), ("p", g.params[1]))),
                        ("encode_leaf_node", lambda g: ("bin", "+", C(bytes([LF])), ("p", g.params[0])))):
        g = ctx.P.func(NODES + name)
        rets = pq.rets(ctx, g)
        cst = "writer-layout:%s" % name
        if rets == {wantf(g)}:
            ctx.ok(cst, g.loc(), "layout is type byte + fields in the order the reader slices them", rule="SIB7")
        else:
            ctx.bad(cst, g.loc(), "%s returns `%s`" % (name, "; ".join(tstr(r)[:70] for r in rets)), rule="SIB7")
    # emptiness refusals of the writers
    for name, pn in (("encode_kv_node", 0), ("encode_leaf_node", 0)):
        g = ctx.P.func(NODES + name)
        par = ("p", g.params[pn])
        refused = False
        for p, st in pq.states(ctx, g):
            lr = pq.local_raise(p)
            if lr is not None and p.exit[1].endswith("ValidationError") and (st.facts.eq.get(par) == b"" or st.facts.none.get(par) is True):
                refused = True
        cst = "writer-nonempty:%s" % name
        if refused:
            ctx.ok(cst, g.loc(), "an empty %s is refused" % g.params[pn], rule="SIB7")
        else:
            ctx.bad(cst, g.loc(), "an empty %s is no longer refused (the reader rejects such nodes)" % g.params[pn], rule="SIB7")


def _o(x):
    if isinstance(x, tuple) and x and x[0] == "ret":
        return "return(%s, %s, %s)" % (x[1], tstr(x[2])[:30], tstr(x[3])[:20])
    return str(x)


# ---------------------------------------------------------------------------
class FirstByte:
    """first byte of a hex-prefix encoded key: the flag nibble (2 * terminated + odd) is known, the rest is not"""

    def __init__(self, flag):
        self.flag = flag

    def __rshift__(self, k):
        if k == 4:
            return self.flag
        raise Unknown("key[0] >> %r" % (k,))

    def __and__(self, m):
        if isinstance(m, int) and m & 0x0F == 0:
            return (self.flag << 4) & m
        raise Unknown("key[0] & %r" % (m,))

    def __floordiv__(self, k):
        if k == 16:
            return self.flag
        raise Unknown("key[0] // %r" % (k,))

    __hash__ = None


class KeyShape:
    def __init__(self, terminated, odd):
        self.terminated, self.odd = terminated, odd

    def __getitem__(self, i):
        if i == 0:
            return FirstByte(2 * int(self.terminated) + int(self.odd))
        raise Unknown("key[%r]" % (i,))

    __hash__ = None


class Shape:
    def __init__(self, name, blank, length, terminated, odd=False):
        self.name, self.blank, self.length, self.terminated, self.odd = name, blank, length, terminated, odd

    def __len__(self):
        return self.length

    def __getitem__(self, i):
        if i == 0 and self.length == 2 and self.terminated is not None:
            return KeyShape(self.terminated, self.odd)
        raise Unknown("node[%r]" % (i,))

    def __eq__(self, o):
        if o == b"":
            return self.blank
        raise Unknown("node == %r" % (o,))

    def __ne__(self, o):
        return not self.__eq__(o)

    __hash__ = None


SHAPES = [Shape("blank", True, 0, None), Shape("kv-terminated", False, 2, True), Shape("kv-unterminated", False, 2, False),
          Shape("kv-terminated-odd", False, 2, True, True), Shape("kv-unterminated-odd", False, 2, False, True),
          Shape("branch", False, 17, None), Shape("other", False, 3, None)]


@rule("SIB8", ["C16", "C08", "C01", "C02", "C03", "C07", "C10"])
def sib8(ctx, pid):
    """Node classifiers agree on every node shape; leaf/extension key helpers are call-composition duals."""
    cm = ctx.P.modules["trie.constants"]
    NT = {n: ctx.P.const(cm, "NODE_TYPE_" + n) for n in ("BLANK", "LEAF", "EXTENSION", "BRANCH")}
    funcs = {n: ctx.P.func(NODES + n) for n in ("get_node_type", "is_blank_node", "is_leaf_node", "is_extension_node", "is_branch_node")}
    memo = {}
    depth = [0]

    def _hashable(v):
        try:
            hash(v)
            return v
        except TypeError:
            raise Unknown("callee returns an abstract value")

    def classify(fname, shape):
        key = (fname, shape.name)
        if key in memo:
            return memo[key]
        memo[key] = "rec"
        f = funcs[fname]
        node = ("p", f.params[0])

        def calls(t, val):
            k = t[1]
            if k == NIB + "is_nibbles_terminated":
                a = t[2][0]
                if a[0] == "call" and a[1] == NIB + "decode_nibbles" and a[2][0] == ("sub", node, C(0)):
                    if shape.length != 2:
                        raise Unknown("key of a non-kv node")
                    return shape.terminated
            for n2, g2 in funcs.items():
                if k == g2.qual and t[2] and t[2][0] == node:
                    r = classify(n2, shape)
                    if isinstance(r, tuple) and r[0] == "ret":
                        return r[1]
                    raise Unknown("callee %s" % n2)
            if k == NIB + "is_nibbles_terminated" or k == NIB + "decode_nibbles":
                return NotImplemented
            if k == "ext:bool" and len(t[2]) == 1:
                return bool(ev_term(t[2][0], val, calls))
            # any other function of the package: evaluated on the values of its arguments (helpers that a
            # refactoring put between the classifier and the key)
            g = ctx.P.funcs.get(k)
            if g is not None and not g.module.is_tools and g.cls is None and len(t[2]) == len(g.params) and not (len(t) > 3 and t[3]) and depth[0] < 4:
                vals2 = {("p", pn): ev_term(a, val, calls) for pn, a in zip(g.params, t[2])}
                depth[0] += 1
                try:
                    res = set()
                    for p2, st2 in run_cases(ctx, g, vals2, calls):
                        if p2.exit[0] == "return":
                            res.add(("v", _hashable(ev_term(st2.ret, vals2, calls))))
                        elif p2.exit[0] == "raise":
                            raise Unknown("callee %s raises" % g.name)
                        else:
                            res.add(("v", None))
                finally:
                    depth[0] -= 1
                if len(res) == 1:
                    return next(iter(res))[1]
                raise Unknown("callee %s: %d outcomes" % (g.name, len(res)))
            return NotImplemented
        outs = set()
        try:
            for p, st in run_cases(ctx, f, {node: shape}, calls):
                if p.exit[0] == "return":
                    r = st.ret
                    try:
                        outs.add(("ret", ev_term(r, {node: shape}, calls)))
                    except Unknown:
                        outs.add(("ret?", tstr(r)[:40]))
                elif p.exit[0] == "raise":
                    outs.add(("raise", p.exit[1].split(".")[-1]))
                else:
                    outs.add(("ret", None))
        except Unknown as e:
            outs = {("unknown", str(e))}
        res = next(iter(outs)) if len(outs) == 1 else ("multi", tuple(sorted(map(str, outs))))
        memo[key] = res
        return res
    want = {
        "get_node_type": {"blank": ("ret", NT["BLANK"]), "kv-terminated": ("ret", NT["LEAF"]), "kv-unterminated": ("ret", NT["EXTENSION"]),
                          "branch": ("ret", NT["BRANCH"]), "other": ("raise", "InvalidNode")},
        "is_blank_node": {"blank": True, "kv-terminated": False, "kv-unterminated": False, "branch": False, "other": False},
        "is_leaf_node": {"blank": False, "kv-terminated": True, "kv-unterminated": False, "branch": False, "other": False},
        "is_extension_node": {"blank": False, "kv-terminated": False, "kv-unterminated": True, "branch": False, "other": False},
        "is_branch_node": {"blank": False, "kv-terminated": False, "kv-unterminated": False, "branch": True, "other": False},
    }
    for fname, f in funcs.items():
        diffs = []
        unk = []
        for sh in SHAPES:
            got = classify(fname, sh)
            w = want[fname][sh.name[:-4] if sh.name.endswith("-odd") else sh.name]
            if got[0] in ("unknown", "multi", "ret?"):
                unk.append("%s: %s" % (sh.name, got))
                continue
            if fname == "get_node_type":
                okv = got == w
            else:
                okv = got[0] == "ret" and bool(got[1]) == w
            if not okv:
                diffs.append("%s node -> %s, expected %s" % (sh.name, got[1] if got[0] == "ret" else got, w[1] if isinstance(w, tuple) else w))
        c = "classifier:%s" % fname
        if diffs:
            ctx.bad(c, f.loc(), "%s disagrees with the node-kind table: %s" % (fname, "; ".join(diffs)), witness={"differences": diffs})
        elif unk:
            ctx.unsure(c, f.loc(), "cannot evaluate on shape %s" % unk[0])
        else:
            ctx.ok(c, f.loc(), "agrees with the kind table on blank / leaf / extension / branch / malformed shapes")
    # NodeType enum mirrors the constants
    ty = ctx.P.cls("trie.typing:NodeType")
    ok = all(isinstance(ty.class_attrs.get(n), ast.Name) and ty.class_attrs[n].id == "NODE_TYPE_" + n for n in ("BLANK", "LEAF", "EXTENSION", "BRANCH"))
    if ok and len(set(NT.values())) == 4:
        ctx.ok("enum:NodeType", "trie/typing.py", "NodeType members are the four NODE_TYPE_* constants (distinct)", nontrivial=False)
    else:
        ctx.bad("enum:NodeType", "trie/typing.py", "NodeType does not mirror the NODE_TYPE_* constants")
    # key duals
    eng = S(ctx)
    duals = {
        "compute_leaf_key": lambda g: ("call", NIB + "encode_nibbles", (("call", NIB + "add_nibbles_terminator", (("p", g.params[0]),), ()),), ()),
        "compute_extension_key": lambda g: ("call", NIB + "encode_nibbles", (("p", g.params[0]),), ()),
        "extract_key": lambda g: ("call", NIB + "remove_nibbles_terminator", (("call", NIB + "decode_nibbles", (("sub", ("p", g.params[0]), C(0)),), ()),), ()),
    }
    for name, wf in duals.items():
        g = ctx.P.func(NODES + name)
        rets = pq.rets(ctx, g)
        c = "key-dual:%s" % name
        if rets == {wf(g)}:
            ctx.ok(c, g.loc(), "is %s" % tstr(wf(g)))
        else:
            ctx.bad(c, g.loc(), "%s returns `%s`, expected `%s`" % (name, "; ".join(tstr(r)[:60] for r in rets), tstr(wf(g))))


# ---------------------------------------------------------------------------
@rule("PROV9", ["C16", "C01", "C03", "C08", "C10"])
def prov9(ctx, pid):
    """Nibble lookup tables: forward table is (byte >> 4, byte & 15) over range(256), the reverse table is
    its inversion; nibbles_to_bytes validates range and parity before packing pairs."""
    m = ctx.P.modules["trie.utils.nibbles"]
    fw = m.const_nodes.get("NIBBLES_LOOKUPS")
    rv = m.const_nodes.get("REVERSE_NIBBLES_LOOKUP")
    okf = (isinstance(fw, ast.DictComp) and ast.unparse(fw.key) == fw.generators[0].target.id
           and ast.unparse(fw.value).replace(" ", "") in ("(%s>>4,%s&15)" % ((fw.generators[0].target.id,) * 2), "(%s>>4,%s&0xf)" % ((fw.generators[0].target.id,) * 2),
                                                          "(%s//16,%s%%16)" % ((fw.generators[0].target.id,) * 2))
           and ast.unparse(fw.generators[0].iter) == "range(256)" and not fw.generators[0].ifs) if isinstance(fw, ast.DictComp) else False
    if okf:
        ctx.ok("forward-table:NIBBLES_LOOKUPS", "trie/utils/nibbles.py", "byte -> (byte >> 4, byte & 15) for every byte")
    else:
        ctx.bad("forward-table:NIBBLES_LOOKUPS", "trie/utils/nibbles.py", "NIBBLES_LOOKUPS is not {byte: (byte >> 4, byte & 15) for byte in range(256)}")
    okr = False
    if isinstance(rv, ast.DictComp) and isinstance(rv.generators[0].target, ast.Tuple) and len(rv.generators[0].target.elts) == 2:
        k, v = (x.id for x in rv.generators[0].target.elts)
        okr = ast.unparse(rv.key) == v and ast.unparse(rv.value) == k and ast.unparse(rv.generators[0].iter) == "NIBBLES_LOOKUPS.items()" and not rv.generators[0].ifs
    if okr:
        ctx.ok("reverse-table:REVERSE_NIBBLES_LOOKUP", "trie/utils/nibbles.py", "the reverse table is the inversion of the forward table")
    else:
        ctx.bad("reverse-table:REVERSE_NIBBLES_LOOKUP", "trie/utils/nibbles.py", "REVERSE_NIBBLES_LOOKUP is not derived by inverting NIBBLES_LOOKUPS")
    vn = ctx.P.const(m, "VALID_NIBBLES")
    if vn == frozenset(range(16)):
        ctx.ok("valid-nibbles", "trie/utils/nibbles.py", "VALID_NIBBLES = {0..15}", nontrivial=False)
    else:
        ctx.bad("valid-nibbles", "trie/utils/nibbles.py", "VALID_NIBBLES is %r" % (vn,))
    # nibbles_to_bytes
    eng = S(ctx)
    f = ctx.P.func(NIB + "nibbles_to_bytes")
    n = ("p", f.params[0])
    refusals = {"range": False, "parity": False}
    ret_ok = False
    for p, st in pq.states(ctx, f):
        lr = pq.local_raise(p)
        if lr is not None and p.exit[1].endswith("InvalidNibbles"):
            last = truth_norm(st.log[-1][0], st.log[-1][1]) if st.log else None
            if last and last[0][0] == "call" and last[0][1] == "ext:any" and last[1] is True:
                g = last[0][2][0]
                if g[0] == "gen" and g[2] == (n,) and g[1] == ("cmp", "notin", ("iter", n, "c"), C(frozenset(range(16)))):
                    refusals["range"] = True
            # the same test by De Morgan: not all(x in VALID for x in nibbles)
            if last and last[0][0] == "call" and last[0][1] == "ext:all" and last[1] is False:
                g = last[0][2][0]
                if g[0] == "gen" and g[2] == (n,) and g[1] == ("cmp", "in", ("iter", n, "c"), C(frozenset(range(16)))):
                    refusals["range"] = True
            if last and last[0] == ("bin", "%", ("len", n), C(2)) and last[1] is True:
                refusals["parity"] = True
            r = rel_norm(st.log[-1][0], st.log[-1][1]) if st.log else None
            if r and r[1] == ("bin", "%", ("len", n), C(2)) and ((r[0] == "!=" and r[2] == C(0)) or (r[0] == "==" and r[2] == C(1))):
                refusals["parity"] = True
        elif p.exit[0] == "return":
            r = st.ret
            if r[0] == "call" and r[1] == "ext:bytes":
                g = r[2][0]
                if g[0] == "gen" and g[2] == (("call", "ext:eth_utils.toolz.partition", (C(2), n), ()),) and not g[3] \
                        and g[1][0] == "sub" and g[1][2] == ("iter", g[2][0], "c"):
                    ret_ok = True
    for k, msg in (("range", "nibbles outside 0..15 are refused with InvalidNibbles"), ("parity", "an odd number of nibbles is refused with InvalidNibbles (partition would silently drop the last one)")):
        c = "refuse-%s:nibbles_to_bytes" % k
        if refusals[k]:
            ctx.ok(c, f.loc(), msg)
        else:
            ctx.bad(c, f.loc(), "the %s check of nibbles_to_bytes is gone: %s" % (k, msg))
    if ret_ok:
        ctx.ok("pack:nibbles_to_bytes", f.loc(), "bytes(REVERSE_NIBBLES_LOOKUP[pair] for pair in partition(2, nibbles))")
    else:
        ctx.bad("pack:nibbles_to_bytes", f.loc(), "nibbles_to_bytes does not pack every pair through the reverse table")
    # bytes_to_nibbles
    g = ctx.P.func(NIB + "_bytes_to_nibbles")
    src = util.alpha_src(g)
    if "yieldfromNIBBLES_LOOKUPS[v0]" in src and "forv0in%s:" % g.params[0] in src:
        ctx.ok("unpack:_bytes_to_nibbles", g.loc(), "every byte yields its two nibbles from the forward table", nontrivial=False)
    else:
        ctx.bad("unpack:_bytes_to_nibbles", g.loc(), "_bytes_to_nibbles does not yield NIBBLES_LOOKUPS[byte] for every byte")


# ---------------------------------------------------------------------------
def _ieval(t, lenof, n):
    """integer value of a term in which len(<lenof>) = n; None if it is not such an arithmetic term"""
    if t[0] == "c" and isinstance(t[1], int) and not isinstance(t[1], bool):
        return t[1]
    if t[0] == "len" and t[1] == lenof:
        return n
    if t[0] == "bin" and len(t) == 4:
        a, b = _ieval(t[2], lenof, n), _ieval(t[3], lenof, n)
        if a is None or b is None:
            return None
        try:
            return {"+": a + b, "-": a - b, "*": a * b, "%": a % b if b else None, "//": a // b if b else None, "&": a & b, "|": a | b,
                    "<<": a << b if 0 <= b < 64 else None, ">>": a >> b if 0 <= b < 64 else None}.get(t[1])
        except (ValueError, ZeroDivisionError):
            return None
    return None


@rule("SIB7b", ["C16", "C12", "C13"])
def sib7b(ctx, pid):
    """Bit-string packing: writer and reader agree on bit order (MSB first) and on the header layout of the
    key-path packing (flag nibble, 2-bit length-mod-4 field, zero padding), decided by constant propagation
    over the finite case split len % 4 x (padded length % 8)."""
    eng = S(ctx)
    cm = ctx.P.modules["trie.constants"]
    B = "trie.utils.binaries:"
    # ---- bit order of encode_to_bin / decode_from_bin
    exp_node = cm.const_nodes.get("EXP")
    exp_src = ast.unparse(exp_node).replace(" ", "") if exp_node is not None else ""
    msb_first = ctx.P.const(cm, "EXP") == (128, 64, 32, 16, 8, 4, 2, 1) or exp_src in ("tuple(reversed(tuple((2**iforiinrange(8)))))", "tuple(reversed(tuple(2**iforiinrange(8))))",
                            "(128,64,32,16,8,4,2,1)", "tuple(2**iforiinrange(7,-1,-1))")
    f = ctx.P.func(B + "encode_to_bin")
    # writer: for <byte> in value: for <weight> in EXP: yield True exactly when byte & weight
    writer_ok = False
    writer_wrong = None
    outer = [n for n in walk_shallow(f.node) if isinstance(n, ast.For) and isinstance(n.iter, ast.Name) and n.iter.id == f.params[0] and isinstance(n.target, ast.Name)]
    inner = [n for o in outer for n in ast.walk(o) if isinstance(n, ast.For) and n is not o and isinstance(n.iter, ast.Name) and n.iter.id == "EXP" and isinstance(n.target, ast.Name)]
    if len(outer) == 1 and len(inner) == 1:
        bv, wv = outer[0].target.id, inner[0].target.id
        seen_y = {True: 0, False: 0}
        shape = True
        for p in ctx.X.paths(f):
            pol = None
            for ev in p.events:
                if ev.k == "assume" and ast.unparse(ev.node).replace(" ", "") in ("%s&%s" % (bv, wv), "%s&%s" % (wv, bv)):
                    pol = ev.a
                elif ev.k == "yield":
                    val = ev.node.value if isinstance(ev.node, (ast.Yield,)) else None
                    if pol is None or not (isinstance(val, ast.Constant) and isinstance(val.value, bool)):
                        shape = False
                    else:
                        seen_y[val.value] += 1
                        if val.value is not pol:
                            writer_wrong = "yields %s when `%s & %s` is %s" % (val.value, bv, wv, pol)
                    pol = None
        writer_ok = shape and seen_y[True] > 0 and seen_y[False] > 0 and writer_wrong is None
        if not writer_ok and writer_wrong is None:
            # second spelling: the bit itself is yielded - `yield bool(b & w)`, `yield b & w != 0`, `yield b & w > 0`
            ys = [n for n in ast.walk(inner[0]) if isinstance(n, ast.Yield)]
            band = ("%s&%s" % (bv, wv), "%s&%s" % (wv, bv))

            def is_bit(v):
                if isinstance(v, ast.Call) and isinstance(v.func, ast.Name) and v.func.id == "bool" and len(v.args) == 1 and not v.keywords:
                    return ast.unparse(v.args[0]).replace(" ", "") in band
                if isinstance(v, ast.Compare) and len(v.ops) == 1 and isinstance(v.ops[0], (ast.NotEq, ast.Gt)) and isinstance(v.comparators[0], ast.Constant) \
                        and v.comparators[0].value == 0 and type(v.comparators[0].value) is int:
                    return ast.unparse(v.left).replace(" ", "").strip("()") in band
                return False
            if len(ys) == 1 and ys[0].value is not None and is_bit(ys[0].value) and not any(isinstance(n, ast.Yield) for n in ast.walk(f.node) if n is not ys[0]):
                writer_ok = True
    if not writer_ok and writer_wrong is None:
        # third spelling: the bits as one generator expression - (bool(b & w) for b in value for w in EXP)
        rets_ = [n for n in ast.walk(f.node) if isinstance(n, ast.Return) and n.value is not None]
        if len(rets_) == 1 and isinstance(rets_[0].value, ast.GeneratorExp) and len(rets_[0].value.generators) == 2 and not any(isinstance(n, (ast.Yield, ast.YieldFrom)) for n in ast.walk(f.node)):
            ge = rets_[0].value
            g0, g1 = ge.generators
            if isinstance(g0.iter, ast.Name) and g0.iter.id == f.params[0] and isinstance(g0.target, ast.Name) and not g0.ifs \
                    and isinstance(g1.iter, ast.Name) and g1.iter.id == "EXP" and isinstance(g1.target, ast.Name) and not g1.ifs:
                bv, wv = g0.target.id, g1.target.id
                band = ("%s&%s" % (bv, wv), "%s&%s" % (wv, bv))
                e_ = ge.elt
                if isinstance(e_, ast.Call) and isinstance(e_.func, ast.Name) and e_.func.id == "bool" and len(e_.args) == 1 and ast.unparse(e_.args[0]).replace(" ", "") in band:
                    writer_ok = True
                elif isinstance(e_, ast.Compare) and len(e_.ops) == 1 and isinstance(e_.ops[0], (ast.NotEq, ast.Gt)) and isinstance(e_.comparators[0], ast.Constant) \
                        and e_.comparators[0].value == 0 and ast.unparse(e_.left).replace(" ", "").strip("()") in band:
                    writer_ok = True
    g = ctx.P.func(B + "decode_from_bin")
    gsrc = util.alpha_src(g)
    gsrc = __import__("re").sub(r"(\w+)\[::-1\]", r"reversed(\1)", gsrc)  # chunk[::-1] enumerates like reversed(chunk)
    reader_ok = "partition_all(8,%s)" % g.params[0] in gsrc and "sum((2**v1*v2for(v1,v2)inenumerate(reversed(v0))))" in gsrc.replace("forv1,v2in", "for(v1,v2)in")
    if not reader_ok and "partition_all(8,%s)" % g.params[0] in gsrc:
        # second spelling of the fold: sum(map(operator.mul, <weights 1, 2, .., 128>, reversed(chunk)))
        import re as _re
        m_ = _re.search(r"sum\(map\(operator\.mul,(\w+),reversed\(v0\)\)\)", gsrc) or _re.search(r"sum\(map\(mul,(\w+),reversed\(v0\)\)\)", gsrc)
        if m_ is not None:
            wts = ctx.P.const(g.module, m_.group(1))
            if wts in ((1, 2, 4, 8, 16, 32, 64, 128), [1, 2, 4, 8, 16, 32, 64, 128]):
                reader_ok = True
        elif "sum(map(operator.mul,(1,2,4,8,16,32,64,128),reversed(v0)))" in gsrc or "sum(map(mul,(1,2,4,8,16,32,64,128),reversed(v0)))" in gsrc:
            reader_ok = True  # (a named constant for the weights is folded into the literal on the analyser's copy)
    c = "bit-order:encode_to_bin/decode_from_bin"
    if msb_first and writer_ok and reader_ok:
        ctx.ok(c, f.loc(), "writer emits bits for weights 128..1 in that order; reader weights the reversed 8-chunk by 2**index: both MSB first")
    elif not msb_first:
        ctx.bad(c, "trie/constants.py", "EXP is `%s`: the weights are not 128, 64, .., 1 (MSB first) as the reader assumes" % ast.unparse(exp_node)[:60] if exp_node is not None else "EXP missing")
    elif writer_wrong:
        ctx.bad(c, f.loc(), "encode_to_bin %s: set bits must be written as 1" % writer_wrong)
    elif not writer_ok:
        ctx.unsure(c, f.loc(), "encode_to_bin has a shape the rule does not recognise")
    else:
        ctx.unsure(c, g.loc(), "decode_from_bin has a shape the rule does not recognise")
    for d_ in (f, g):
        if not any(x.endswith("apply_to_return_value") for x in d_.decos):
            ctx.bad("bytes-result:%s" % d_.name, d_.loc(), "%s no longer converts its generator to bytes" % d_.name)
    # ---- key-path header layout
    two = ctx.P.const(cm, "TWO_BITS")
    p00 = ctx.P.const(cm, "PREFIX_00")
    p10 = ctx.P.const(cm, "PREFIX_100000")
    okc = two == [bytes([0, 0]), bytes([0, 1]), bytes([1, 0]), bytes([1, 1])] and p00 == bytes([0, 0]) and p10 == bytes([1, 0, 0, 0, 0, 0])
    if okc:
        ctx.ok("keypath-constants", "trie/constants.py", "TWO_BITS[i] is the 2-bit encoding of i; PREFIX_00 = 00, PREFIX_100000 = 100000", nontrivial=False)
    else:
        ctx.bad("keypath-constants", "trie/constants.py", "TWO_BITS / PREFIX_00 / PREFIX_100000 are not the 2-bit table and the 00 / 100000 headers")
        return
    w = ctx.P.func(B + "encode_from_bin_keypath")
    r = ctx.P.func(B + "decode_to_bin_keypath")
    ib = ("p", w.params[0])
    # writer: per (len % 4, flag) the header bits in front of the payload
    headers = {}
    probs = []
    for p, st in pq.states(ctx, w):
        if p.exit[0] != "return":
            continue
        ret = st.ret
        if not (ret[0] == "call" and ret[1] == B + "decode_from_bin"):
            probs.append("writer does not return decode_from_bin(header + padded bits)")
            continue
        t = ret[2][0]
        # ((PREFIX + TWO_BITS[len % 4]) + (bytes((4 - len) % 4) + input))
        flat = []

        def flatten(x):
            if x[0] == "bin" and x[1] == "+":
                flatten(x[2])
                flatten(x[3])
            else:
                flat.append(x)
        flatten(t)
        flag = None
        for tt, pol, _ in st.log:
            rr = rel_norm(tt, pol)
            if rr and rr[0] in ("==", "!=") and rr[2] == C(4):
                flag = (rr[0] == "==")
        headers[flag] = flat
        # the choice of the header is evaluated for padded lengths 0, 4, .., 28: header + padded bits must fill whole bytes
        padded = None
        for x in flat:
            pass
        if len(flat) == 4 and flat[0][0] == "c" and isinstance(flat[0][1], bytes):
            padded = eng.mk_bin("+", flat[2], flat[3])
            hdr = len(flat[0][1]) + 2
            for n_ in range(0, 32, 4):
                taken = True
                for tt, pol, _ in st.log:
                    rr = rel_norm(tt, pol)
                    if rr is None:
                        continue
                    lv, rv = _ieval(rr[1], padded, n_), _ieval(rr[2], padded, n_)
                    if lv is None or rv is None:
                        taken = None
                        break
                    if not {"==": lv == rv, "!=": lv != rv, ">": lv > rv, ">=": lv >= rv}.get(rr[0], True):
                        taken = False
                        break
                if taken is None:
                    probs.append("the condition that selects the header cannot be evaluated")
                    break
                if taken and (hdr + n_) % 8 != 0:
                    probs.append("for a padded key path of %d bits the writer takes the %d-bit header: %d bits do not fill whole bytes (decode_from_bin would pack a ragged tail)" % (n_, hdr, hdr + n_))
                    break
    L4 = ("bin", "%", ("len", ib), C(4))
    pad = ("call", "ext:bytes", (("bin", "%", ("bin", "-", C(4), ("len", ib)), C(4)),), ())
    want_tail = [("sub", C(tuple(two)) if False else None, None)]
    for flag, pre in ((True, p00), (False, p10)):
        flat = headers.get(flag)
        if flat is None:
            probs.append("writer has no path for padded length %% 8 %s 4" % ("==" if flag else "!="))
            continue
        ok = len(flat) == 4 and flat[0] == C(pre) and flat[1][0] == "sub" and flat[1][2] == L4 and flat[2] == pad and flat[3] == ib
        if not ok:
            probs.append("writer header for the %s case is `%s`, expected %r + TWO_BITS[len %% 4] + bytes((4 - len) %% 4) + bits"
                         % ("half-byte" if flag else "full-byte", " + ".join(tstr(x)[:30] for x in flat), pre))
    # reader: skips 4 when the first bit is 1, checks 00, reads the 2-bit field, skips 4 + (4 - field) % 4
    pth = ("call", B + "encode_to_bin", (("p", r.params[0]),), ())
    rrows = {}
    for p, st in pq.states(ctx, r):
        if p.exit[0] != "return":
            continue
        first1 = None
        for tt, pol, _ in st.log:
            rr = rel_norm(tt, pol)
            if rr and rr[0] in ("==", "!=") and rr[1] == ("sub", pth, C(0)) and rr[2] == C(1):
                first1 = rr[0] == "=="
        base = ("slice", pth, C(4), None) if first1 else pth
        ret = st.ret
        idx = ("call", "m:index", (C(tuple(two)) if False else ("list", tuple(C(x) for x in two)), ("slice", base, C(2), C(4))), ())
        want = ("slice", base, ("bin", "+", ("bin", "%", ("bin", "-", C(4), idx), C(4)), C(4)), None)
        want2 = ("slice", base, eng.mk_bin("+", C(4), ("bin", "%", ("bin", "-", C(4), idx), C(4))), None)
        checked = any(rel_norm(tt, pol) == ("==", ("slice", base, C(0), C(2)), C(p00)) or rel_norm(tt, pol) == ("==", ("slice", base, None, C(2)), C(p00)) for tt, pol, _ in st.log + st.alog)
        rrows[first1] = (ret in (want, want2), checked, tstr(ret)[:80])
    # reader refusals: the writer takes bit strings of any length, so a refusal of the reader has to be about the
    # header / padding region; a bound on the length of the key path refuses what the writer produces
    unsure_ref = []
    w_bounds = False
    for p, st in pq.states(ctx, w):
        for tt, pol, _ in st.log:
            rr = rel_norm(tt, pol)
            if rr and rr[0] in (">", ">=") and any(x[0] == "len" for x in (rr[1], rr[2])) and any(x[0] == "c" and isinstance(x[1], int) and x[1] >= 8 for x in (rr[1], rr[2])) \
                    and p.exit[0] == "raise":
                w_bounds = True

    def mentions(t, what):
        if t == what:
            return True
        return isinstance(t, tuple) and any(mentions(x, what) for x in t if isinstance(x, tuple))
    for p, st in pq.states(ctx, r):
        if p.exit[0] != "raise" or pq.local_raise(p) is None or p.exit[1].split(".")[-1] == "AssertionError":
            continue
        conds = [rel_norm(tt, pol) for tt, pol, _ in st.log]
        last = conds[-1] if conds else None
        if last is None:
            unsure_ref.append("a refusal whose condition is not a comparison")
            continue
        op, a_, b_ = last
        if op in (">", ">=") and a_[0] == "len" and mentions(a_, pth) and b_[0] == "c" and isinstance(b_[1], int) and b_[1] >= 8:
            if not w_bounds:
                probs.append("reader refuses a key path of more than %d bits (line %d); the writer encodes bit strings of any length, so encodings it produces no longer decode"
                             % (b_[1], p.exit[2].lineno if len(p.exit) > 2 and hasattr(p.exit[2], "lineno") else r.node.lineno))
            continue
        if op == "==" and a_ == ("len", pth) and b_ == C(0):
            continue  # no header at all: never a writer output (the header is a non-empty constant)
        if op == "!=" and a_[0] == "slice" and a_[1] in (pth, ("slice", pth, C(4), None)) and a_[2] in (None, C(0)) and b_[0] == "c" and isinstance(b_[1], bytes) \
                and (p10.startswith(b_[1]) or p00.startswith(b_[1]) or b_[1] == p00):
            continue  # the flag nibble / the 00 marker spelled as a refusal
        unsure_ref.append("refusal under `%s %s %s`" % (tstr(a_)[:40], op, tstr(b_)[:30]))
    if unsure_ref and not probs:
        ctx.unsure("keypath-refusals:decode_to_bin_keypath", r.loc(), "the reader has a refusal the rule cannot show to be unreachable on the writer's output: %s" % unsure_ref[0])
    for k in (True, False):
        v = rrows.get(k)
        if v is None:
            probs.append("reader has no path for first bit %s" % ("1" if k else "0"))
        elif not v[0]:
            probs.append("reader (first bit %s) returns `%s`; expected the bits after 4 header bits plus (4 - field) %% 4 padding bits, after dropping the 1000 nibble" % ("1" if k else "0", v[2]))
        elif not v[1]:
            probs.append("reader does not check the 00 marker")
    c = "keypath-layout:encode_from_bin_keypath/decode_to_bin_keypath"
    concrete = [x for x in probs if "cannot be evaluated" not in x]
    if concrete:
        ctx.bad(c, w.loc(), concrete[0], witness={"problems": probs})
    elif probs:
        ctx.unsure(c, w.loc(), probs[0] + " on the length grid: layout table not decided")
    else:
        ctx.ok(c, w.loc(), "header = (00 | 100000) + TWO_BITS[len % 4] + (4 - len) % 4 zero bits; the reader drops 1000 if present, checks 00, reads the field and skips the same padding: 4 (+4) + (4 - len % 4) % 4 bits on both sides")
