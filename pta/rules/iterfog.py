"""NodeIterator (C10) and HexaryTrieFog (C11) rules: REL1, ITER1, SIB3, AL1, PROV1, EXC7, PROV6, SIB10, PROV5."""
import ast

from ..core import rule
from ..model import walk_shallow, AnalysisError
from .. import util, pq
from ..pq import S, rel_norm, truth_norm
from ..sym import C, tstr
from ..util import fkey

ITER = "trie.iter:NodeIterator"
FOG = "trie.fog:HexaryTrieFog"
FCACHE = "trie.fog:TrieFrontierCache"


def _loop_over(f, attr):
    """The `for X in <param>.<attr>` loops of f."""
    return [n for n in walk_shallow(f.node) if isinstance(n, ast.For)]


def _strip_order_preserving(t):
    """sorted(x) / tuple(x) / list(x) keep the ascending order of sub_segments."""
    while t[0] == "call" and t[1] in ("ext:sorted", "ext:tuple", "ext:list") and len(t[2]) == 1:
        t = t[2][0]
    if t[0] in ("tuple", "list") and len(t[1]) == 1 and t[1][0][0] == "star":
        t = t[1][0][1]
    return t


@rule("REL1", ["C10"])
def rel1(ctx, pid):
    """Successor search: a segment is skipped iff key[:len(seg)] > seg (strict); the node's own
    suffix is a successor iff suffix > key (strict); segments are consumed in the given order."""
    eng = S(ctx)
    f = ctx.P.func(ITER + "._get_key_after")
    if len(f.params) < 4:
        raise AnalysisError("anchor vanished: _get_key_after(self, node, key, traversed)")
    pn, pk, pt = f.params[1:4]
    node, key, trav = ("p", pn), ("p", pk), ("p", pt)
    subsegs = ("attr", node, "sub_segments")
    loops = [n for n in walk_shallow(f.node) if isinstance(n, ast.For)]
    main = None
    for lp in loops:
        st0 = __import__("pta.sym", fromlist=["State"]).State()
        it = _strip_order_preserving(eng.ev(lp.iter, f, st0))
        if it == subsegs:
            main = lp
        elif it[0] == "call" and it[1] in ("ext:reversed",) or (it[0] == "slice"):
            ctx.bad("segment-order:NodeIterator._get_key_after", f.loc(lp), "sub_segments are not consumed in ascending order: `%s`" % ast.unparse(lp.iter), rule="ITER1")
            return
    if main is None:
        ctx.bad("segment-order:NodeIterator._get_key_after", f.loc(), "no loop over node.sub_segments in given order", rule="ITER1")
        return
    ctx.ok("segment-order:NodeIterator._get_key_after", f.loc(main), "loop consumes node.sub_segments in the given (ascending) order", rule="ITER1")
    skip_rels = set()
    visit_rels = set()
    leaf_rels = set()
    leaf_rets = set()
    desc = []
    for p, st in pq.states(ctx, f, unroll=1):
        evs = st.events
        # first iteration of the main loop
        li = [i for i, ev in enumerate(evs) if ev.k == "loop" and ev.node is main]
        if li:
            i0 = li[0]
            seg = None
            for ev in evs[i0:]:
                if ev.k == "bind" and ev.a == "for":
                    break
            seg = eng.ev(main.target, f, st) if isinstance(main.target, ast.Name) else None
            # decision assumes right after the bind, before the first call / continue
            dec = []
            outcome = None
            seen_bind = False
            for ev in evs[i0:]:
                if ev.k == "bind" and ev.a == "for" and ev.node is main.target:
                    seen_bind = True
                    continue
                if not seen_bind:
                    continue
                if ev.k == "assume":
                    dec.append(ev)
                elif ev.k == "stmt" and isinstance(ev.node, ast.Continue):
                    outcome = "skip"
                    break
                elif ev.k == "call":
                    tg = ctx.R.resolve_call(ev.node, f, count=False)[0]
                    if tg.kind == "def" and tg.func.name == "traverse_from":
                        outcome = "visit"
                        break
                    if tg.kind == "ext" and tg.name == "len":
                        continue
                    if tg.kind == "ctor":
                        continue
                    outcome = "other"
                    break
                elif ev.k in ("src",):
                    continue
                else:
                    outcome = "other"
                    break
            rels = []
            for ev in dec:
                t = [tt for tt, pol, n in st.log if n is ev.node]
                if t:
                    rels.append(rel_norm(t[-1], ev.a) or ("truth",) + truth_norm(t[-1], ev.a))
            if outcome == "skip":
                skip_rels.add(tuple(rels))
            elif outcome == "visit":
                visit_rels.add(tuple(rels))
        else:
            # zero iterations: the leaf / own-suffix test
            rels = []
            for t, pol, n in st.log:
                r = rel_norm(t, pol)
                if r and (("attr", node, "suffix") in (r[1], r[2])):
                    rels.append(r)
            if p.exit[0] == "return" and st.ret is not None and st.ret != C(None):
                leaf_rels.add(tuple(rels))
                leaf_rets.add(st.ret)
    want_skip = (">", ("slice", key, None, ("len", ("iter", subsegs, 0))), ("iter", subsegs, 0))
    c = "skip-test:NodeIterator._get_key_after"
    if not skip_rels:
        ctx.bad(c, f.loc(main), "no path skips a segment (the `continue` arm is gone)")
    elif skip_rels == {(want_skip,)}:
        ctx.ok(c, f.loc(main), "a segment is skipped exactly under key[:len(seg)] > seg")
    else:
        got = sorted(" & ".join(_r(x) for x in rs) for rs in skip_rels)
        ctx.bad(c, f.loc(main), "segment skip condition is `%s`, expected key[:len(seg)] > seg (strict, on the whole segment)" % "; ".join(got),
                witness={"got": got})
    want_leaf = (">", ("attr", node, "suffix"), key)
    c = "leaf-test:NodeIterator._get_key_after"
    if not leaf_rels:
        ctx.bad(c, f.loc(), "no path returns the node's own suffix as successor")
    elif leaf_rels == {(want_leaf,)}:
        ctx.ok(c, f.loc(), "own suffix is the successor exactly under node.suffix > key (strict)")
    else:
        got = sorted(" & ".join(_r(x) for x in rs) for rs in leaf_rels)
        ctx.bad(c, f.loc(), "own-suffix condition is `%s`, expected node.suffix > key (strict)" % "; ".join(got), witness={"got": got})
    want_ret = ("bin", "+", trav, ("attr", node, "suffix"))
    c = "leaf-key:NodeIterator._get_key_after"
    if leaf_rets and leaf_rets != {want_ret}:
        ctx.bad(c, f.loc(), "returned successor key is `%s`, expected traversed + node.suffix" % "; ".join(sorted(tstr(x) for x in leaf_rets)), rule="ABS4")
    elif leaf_rets:
        ctx.ok(c, f.loc(), "successor key is traversed + node.suffix", rule="ABS4")
    # descents: arguments of the two recursive calls
    _check_descents(ctx, f, main, node, key, trav, subsegs)


def _r(x):
    if x[0] == "truth":
        return "%s is %s" % (tstr(x[1]), x[2])
    return "%s %s %s" % (tstr(x[1]), x[0], tstr(x[2]))


def _check_descents(ctx, f, main, node, key, trav, subsegs):
    eng = S(ctx)
    seg = ("iter", subsegs, 0)
    tf = ("call", "trie.hexary:HexaryTrie.traverse_from", (("attr", ("self",), "_trie"), node, seg), ())
    found = {"after": 0, "next": 0}
    problems = []
    for p, st in pq.states(ctx, f, unroll=1):
        for ev in st.events:
            if ev.k != "call" or ev.a != "ok":
                continue
            tg = ctx.R.resolve_call(ev.node, f, count=False)[0]
            if tg.kind != "def" or tg.func.name not in ("_get_key_after", "_get_next_key"):
                continue
            args = [eng.ev(a, f, st) for a in ev.node.args]
            if tg.func.name == "_get_key_after":
                found["after"] += 1
                ccp = ("call", "trie.utils.nodes:consume_common_prefix", (key, seg), ())
                want = [tf, ("sub", ccp, C(1)), ("bin", "+", trav, seg)]
                if args != want:
                    problems.append(("recursion arguments are (%s), expected (traverse_from(node, seg), key remainder, traversed + seg)" % ", ".join(tstr(a)[:40] for a in args), ev.node))
                # only when the whole segment matched
                srem = ("sub", ccp, C(2))
                lo, hi = eng.len_of(srem, st.facts)
                if not (lo == hi == 0):
                    problems.append(("recursion into the exact-match subtree is not guarded by len(segment_remaining) == 0", ev.node))
            else:
                found["next"] += 1
                want = [tf, ("bin", "+", trav, seg)]
                if args != want:
                    problems.append(("descent arguments are (%s), expected (traverse_from(node, seg), traversed + seg)" % ", ".join(tstr(a)[:40] for a in args), ev.node))
    c = "descent-args:NodeIterator._get_key_after"
    if problems:
        ctx.bad(c, f.loc(problems[0][1]), problems[0][0], rule="ABS4")
    elif not (found["after"] and found["next"]):
        ctx.bad(c, f.loc(), "the exact-match recursion or the next-key descent is missing", rule="ABS4")
    else:
        ctx.ok(c, f.loc(), "both descents pass traverse_from(node, seg) and traversed + seg; the key remainder comes from consume_common_prefix(key, seg)", rule="ABS4")


@rule("ITER1", ["C10"])
def iter1(ctx, pid):
    """next() shortcut only for None; _get_next_key: value before children, leftmost child first;
    nodes(): always expand the left-most unexplored prefix."""
    eng = S(ctx)
    # ---- next()
    f = ctx.P.func(ITER + ".next")
    kb = ("p", f.params[1])
    first_ok = after_ok = True
    n_first = n_after = 0
    why = ""
    for p, st in pq.states(ctx, f):
        for ev in st.events:
            if ev.k != "call" or ev.a != "ok":
                continue
            tg = ctx.R.resolve_call(ev.node, f, count=False)[0]
            if tg.kind != "def":
                continue
            if tg.func.name == "_get_next_key":
                n_first += 1
                if st.facts.none.get(kb) is not True:
                    first_ok = False
                    why = "the first-key search is entered on a path that does not assume `%s is None`" % f.params[1]
            elif tg.func.name == "_get_key_after":
                n_after += 1
                if st.facts.none.get(kb) is not False:
                    after_ok = False
                    why = "the successor search is entered without excluding None"
                args = [eng.ev(a, f, st) for a in ev.node.args]
                if len(args) >= 2 and args[1] != ("call", "trie.utils.nibbles:bytes_to_nibbles", (kb,), ()):
                    after_ok = False
                    why = "successor search key is `%s`, not bytes_to_nibbles(key)" % tstr(args[1])
    d = f.defaults().get(f.params[1])
    if not (isinstance(d, ast.Constant) and d.value is None):
        first_ok = False
        why = "next() defaults its key to `%s`; without an argument it must mean None (= the smallest key, not the successor of some key)" % (ast.unparse(d) if d is not None else "<required>")
    c = "none-shortcut:NodeIterator.next"
    if not (n_first and n_after):
        ctx.bad(c, f.loc(), "next() lost one of its two searches")
    elif first_ok and after_ok:
        ctx.ok(c, f.loc(), "first-key search exactly for key_bytes is None; every other key (including b'') takes the strict-successor search")
    else:
        ctx.bad(c, f.loc(), why)
    # ---- _get_next_key
    f = ctx.P.func(ITER + "._get_next_key")
    node, trav = ("p", f.params[1]), ("p", f.params[2])
    val = ("attr", node, "value")
    ok_value_first = False
    desc_ok = None
    for p, st in pq.states(ctx, f):
        log = [(truth_norm(t, pol)) for t, pol, n in st.log]
        if p.exit[0] == "return" and st.ret == ("bin", "+", trav, ("attr", node, "suffix")):
            if log and log[0] == (val, True) and len(log) == 1:
                ok_value_first = True
        for ev in st.events:
            if ev.k == "call" and ev.a == "ok":
                tg = ctx.R.resolve_call(ev.node, f, count=False)[0]
                if tg.kind == "def" and tg.func.name == "traverse_from":
                    ct = st.cterms.get(id(ev.node))  # as evaluated at the call: `node` may be rebound afterwards
                    args = list(ct[2][1:]) if ct is not None and ct[0] == "call" else [eng.ev(a, f, st) for a in ev.node.args]
                    first = ("sub", ("attr", node, "sub_segments"), C(0))
                    good = len(args) == 2 and args[0] == node and args[1] == first and (val, False) in log
                    desc_ok = good if desc_ok is None else (desc_ok and good)
    c = "value-before-children:NodeIterator._get_next_key"
    if ok_value_first and desc_ok:
        ctx.ok(c, f.loc(), "node.value is tested first; otherwise the descent goes into sub_segments[0]")
    elif not ok_value_first:
        ctx.bad(c, f.loc(), "the node's own key (traversed + suffix) is not returned exactly under `node.value` as the first test")
    else:
        ctx.bad(c, f.loc(), "descent does not go into node.sub_segments[0] after excluding node.value")
    # ---- nodes()
    f = ctx.P.func(ITER + ".nodes")
    picks = []
    for n in walk_shallow(f.node):
        if isinstance(n, ast.Call):
            tg = ctx.R.resolve_call(n, f, count=False)[0]
            if tg.kind == "def" and tg.func.cls is not None and tg.func.cls.qual == FOG and tg.func.name.startswith("nearest"):
                picks.append((n, tg.func.name))
    c = "leftmost-first:NodeIterator.nodes"
    if len(picks) != 1:
        ctx.bad(c, f.loc(), "expected exactly one fog query choosing the next prefix, found %d" % len(picks))
    else:
        n, name = picks[0]
        a0 = n.args[0] if n.args else None
        if name == "nearest_right" and isinstance(a0, ast.Tuple) and not a0.elts:
            ctx.ok(c, f.loc(n), "next prefix is fog.nearest_right(()) - the left-most unexplored prefix")
        else:
            ctx.bad(c, f.loc(n), "next prefix is chosen by `%s`, not nearest_right(())" % ast.unparse(n))
    # explore with the node's own sub_segments, yield (prefix, node)
    _check_nodes_loop(ctx, f)


def _check_nodes_loop(ctx, f):
    eng = S(ctx)
    problems = []
    seen = {"explore": 0, "yield": 0, "traverse": 0, "traverse_from": 0}
    for p, st in pq.states(ctx, f, unroll=1):
        pre = None
        for ev in st.events:
            if ev.k == "call" and ev.a == "ok":
                tg = ctx.R.resolve_call(ev.node, f, count=False)[0]
                if tg.kind != "def":
                    continue
                nm = tg.func.name
                args = [eng.ev(a, f, st) for a in ev.node.args]
                if nm == "nearest_right":
                    pre = eng.ev(ev.node, f, st)
                if nm == "traverse" and tg.func.cls.name == "HexaryTrie":
                    seen["traverse"] += 1
                    a0 = ev.node.args[0] if len(ev.node.args) == 1 else None

                    def chosen_(a_, depth=0):
                        bs = ctx.E.bindings(f).get(a_.id, []) if isinstance(a_, ast.Name) else []
                        if bs and all(isinstance(b, ast.Name) for b in bs) and depth < 4:
                            return all(chosen_(b, depth + 1) for b in bs)
                        return bool(bs) and all(isinstance(b, ast.Call) and any(t.kind == "def" and t.func.name == "nearest_right" for t in ctx.R.resolve_call(b, f, count=False)) for b in bs)
                    chosen = chosen_(a0)
                    if not chosen:
                        problems.append("traverse() is not called with the chosen prefix")
                if nm == "traverse_from" and tg.func.cls.name == "HexaryTrie":
                    seen["traverse_from"] += 1
                    # what the cache returned for the chosen prefix: (parent node, remaining path), in that order
                    gets = [e2 for e2 in st.events if e2.k == "call" and e2.a == "ok" and isinstance(e2.node, ast.Call)
                            and any(t.kind == "def" and t.func.name == "get" and t.func.cls is not None and t.func.cls.name == "TrieFrontierCache"
                                    for t in ctx.R.resolve_call(e2.node, f, count=False))]
                    if gets:
                        g0 = eng.ev(gets[0].node, f, st)
                        if args != [("sub", g0, C(0)), ("sub", g0, C(1))]:
                            problems.append("traverse_from() is called with `%s`; the cache returns (parent node, remaining path), which must be passed on in that order" % ", ".join(tstr(a)[:30] for a in args))
                    else:
                        problems.append("traverse_from() is used without a cache lookup for the chosen prefix")
                if nm == "add" and tg.func.cls is not None and tg.func.cls.name == "TrieFrontierCache":
                    seen["cache-add"] = seen.get("cache-add", 0) + 1
                    def bound_to(a_, names, depth=0):
                        bs_ = ctx.E.bindings(f).get(a_.id, []) if isinstance(a_, ast.Name) else []
                        if bs_ and all(isinstance(b, ast.Name) for b in bs_) and depth < 4:
                            return all(bound_to(b, names, depth + 1) for b in bs_)  # alias of another local
                        return bool(bs_) and all(isinstance(b, ast.Call) and any(t.kind == "def" and t.func.name in names for t in ctx.R.resolve_call(b, f, count=False)) for b in bs_)
                    aa = list(ev.node.args)
                    if len(aa) == 3:
                        aa[2] = util.expand_locals(ctx, f, aa[2])  # `if segs := node.sub_segments: cache.add(p, node, segs)`
                    okadd = len(aa) == 3 and bound_to(aa[0], ("nearest_right",)) and bound_to(aa[1], ("traverse", "traverse_from")) \
                        and isinstance(aa[2], ast.Attribute) and aa[2].attr == "sub_segments" and isinstance(aa[2].value, ast.Name) and aa[2].value.id == aa[1].id
                    if not okadd:
                        problems.append("cache.add(%s) does not register (chosen prefix, the node just loaded, its sub_segments)" % ", ".join(tstr(a)[:25] for a in args))
                if nm == "explore":
                    seen["explore"] += 1
                    if len(args) == 2 and not (args[1][0] == "attr" and args[1][2] == "sub_segments"):
                        problems.append("explore() is not given the node's own sub_segments")
            if ev.k == "yield":
                seen["yield"] += 1
    c = "walk-loop:NodeIterator.nodes"
    if problems:
        ctx.bad(c, f.loc(), problems[0])
    elif not (seen["explore"] and seen["yield"] and seen["traverse"] and seen["traverse_from"]):
        ctx.bad(c, f.loc(), "nodes() lost one of traverse / traverse_from / explore / yield: %s" % seen)
    else:
        ctx.ok(c, f.loc(), "each step traverses to the chosen prefix (from the root or a cached parent), explores the node's sub_segments and yields it")


@rule("SIB3", ["C10"])
def sib3(ctx, pid):
    """keys / values are projections of items / nodes with one and the same filter (node.value)."""
    eng = S(ctx)
    c = ctx.P.cls(ITER)
    facts = {}
    for name in ("items", "values", "keys"):
        f = c.methods.get(name)
        if f is None:
            raise AnalysisError("anchor vanished: NodeIterator.%s" % name)
        loops = [n for n in walk_shallow(f.node) if isinstance(n, ast.For)]
        if len(loops) != 1:
            ctx.unsure("projection:NodeIterator.%s" % name, f.loc(), "expected a single loop")
            return
        lp = loops[0]
        src = None
        if isinstance(lp.iter, ast.Call):
            tg = ctx.R.resolve_call(lp.iter, f, count=False)[0]
            if tg.kind == "def":
                src = tg.func.name
        ys = set()
        conds = set()
        for p, st in pq.states(ctx, f, unroll=1):
            yi = [i for i, ev in enumerate(st.events) if ev.k == "yield"]
            if not yi:
                continue
            yev = st.events[yi[0]]
            elem = ("iter", eng.ev(lp.iter, f, st), 0)
            yt = eng.ev(yev.node.value, f, st)
            ys.add(_abstract(yt, elem))
            cs = frozenset((_abstract(truth_norm(t, pol)[0], elem), truth_norm(t, pol)[1]) for t, pol, n in st.log)
            conds.add(cs)
        facts[name] = (src, ys, conds, f)
    node = ("sub", ("ELEM",), C(1))
    pref = ("sub", ("ELEM",), C(0))
    want_filter = {frozenset({(("attr", node, "value"), True)})}
    # items
    src, ys, conds, f = facts["items"]
    key_t = ("call", "trie.utils.nibbles:nibbles_to_bytes", (("bin", "+", pref, ("attr", node, "suffix")),), ())
    ok_items = src == "nodes" and conds == want_filter and ys == {("tuple", (key_t, ("attr", node, "value")))}
    if ok_items:
        ctx.ok("projection:NodeIterator.items", f.loc(), "items() yields (bytes(prefix + suffix), value) for exactly the nodes with a value")
    else:
        ctx.bad("projection:NodeIterator.items", f.loc(), "items() is not `for prefix, node in nodes(): if node.value: yield bytes(prefix+suffix), node.value` (source %s, filter %s, yields %s)"
                % (src, _fs(conds), "; ".join(tstr(y)[:70] for y in ys)))
    src, ys, conds, f = facts["values"]
    if src == "nodes" and conds == facts["items"][2] and ys == {("attr", node, "value")}:
        ctx.ok("projection:NodeIterator.values", f.loc(), "values() uses the same filter as items() and yields node.value")
    elif src == "items" and ys == {("sub", ("ELEM",), C(1))} and conds == {frozenset()}:
        ctx.ok("projection:NodeIterator.values", f.loc(), "values() is the second projection of items()")
    else:
        ctx.bad("projection:NodeIterator.values", f.loc(), "values() filter %s / yield %s differs from items() filter %s"
                % (_fs(conds), "; ".join(tstr(y)[:50] for y in ys), _fs(facts["items"][2])))
    src, ys, conds, f = facts["keys"]
    if src == "items" and ys == {("sub", ("ELEM",), C(0))} and conds == {frozenset()}:
        ctx.ok("projection:NodeIterator.keys", f.loc(), "keys() is the first projection of items()")
    elif src == "nodes" and conds == facts["items"][2] and ys == {key_t}:
        ctx.ok("projection:NodeIterator.keys", f.loc(), "keys() uses the same filter and key reconstruction as items()")
    else:
        ctx.bad("projection:NodeIterator.keys", f.loc(), "keys() is not a projection of items(): source %s, filter %s, yields %s"
                % (src, _fs(conds), "; ".join(tstr(y)[:50] for y in ys)))


def _fs(conds):
    return "; ".join(" & ".join("%s is %s" % (tstr(t)[:40], p) for t, p in sorted(cs, key=str)) or "<none>" for cs in conds)


def _abstract(t, elem):
    if t == elem:
        return ("ELEM",)
    if isinstance(t, tuple):
        return tuple(_abstract(x, elem) if isinstance(x, tuple) else x for x in t)
    return t


# ---------------------------------------------------------------------------
# C11
# ---------------------------------------------------------------------------
@rule("AL1", ["C11"])
def al1(ctx, pid):
    """No method of HexaryTrieFog other than __init__ mutates the receiver; returned fogs are built on fresh sets."""
    Ssum = ctx.E.summaries()
    n = 0
    for f in util.class_functions(ctx, FOG):
        if f.name == "__init__":
            continue
        n += 1
        bad = [e for e in Ssum[f.qual] if e.op in ("W", "D", "M", "SET", "DELATTR") and e.loc[0][0] in ("self", "param", "global")
               and (e.state == "FOG" or (e.loc[0][0] == "self"))]
        c = "receiver-pure:%s" % fkey(f)
        if bad:
            e = bad[0]
            ctx.bad(c, e.where(), "`%s` modifies the receiver's unexplored set in place (the fog must be immutable; a rejected or repeated call would leave an effect)"
                    % util.norm_src(e.node), witness={"effects": [repr(x) for x in bad[:4]]})
        else:
            ctx.ok(c, f.loc(), "no effect on the receiver or on any parameter", nontrivial=bool(ctx.E.primitives(f)))
    ctx.expect_min("HexaryTrieFog methods", n, 10, "explore, mark_all_complete, nearest_*, serialize, deserialize, ...")
    # fresh sets handed to _new_trie_fog
    ntf = ctx.P.cls(FOG).methods.get("_new_trie_fog")
    if ntf is None:
        raise AnalysisError("anchor vanished: function trie.fog:HexaryTrieFog._new_trie_fog not found")
    k = 0
    for f in util.class_functions(ctx, FOG):
        for node in walk_shallow(f.node):
            if isinstance(node, ast.Call) and any(t.kind == "def" and t.func is ntf for t in ctx.R.resolve_call(node, f, count=False)):
                k += 1
                a = node.args[0] if node.args else None
                c = "fresh-result:%s" % fkey(f)
                if a is not None and ctx.E.is_fresh_expr(a, f):
                    ctx.ok(c, f.loc(node), "the new fog is built on a fresh set (`%s`)" % ast.unparse(a)[:40])
                else:
                    ctx.bad(c, f.loc(node), "the returned fog shares its set `%s` with another object" % (ast.unparse(a) if a is not None else "?"))
    ctx.expect_min("_new_trie_fog call sites", k, 3, "explore, mark_all_complete, deserialize")
    # _new_trie_fog stores the set on a fresh object
    effs = [e for e in ctx.E.primitives(ntf) if e.op == "SET"]
    if effs and all(e.loc[0][0] == "fresh" for e in effs):
        ctx.ok("fresh-object:HexaryTrieFog._new_trie_fog", ntf.loc(), "the set is stored on a newly constructed fog")
    else:
        ctx.bad("fresh-object:HexaryTrieFog._new_trie_fog", ntf.loc(), "_new_trie_fog does not build a new object")


@rule("PROV1", ["C11"])
def prov1(ctx, pid):
    """nearest_unknown / nearest_right return only elements of the unexplored set; the fog exceptions
    are raised only from the emptiness / out-of-range probes (EXC7)."""
    eng = S(ctx)
    unexpl = ("attr", ("self",), "_unexplored_prefixes")
    for name in ("nearest_unknown", "nearest_right"):
        f = ctx.P.func(FOG + "." + name)
        rets = set()
        for p, st in pq.states(ctx, f):
            if p.exit[0] == "return" and st.ret is not None:
                rets.add(st.ret)
        bad = [r for r in rets if not (r[0] == "sub" and r[1] == unexpl)]
        c = "member:%s" % fkey(f)
        if not rets:
            ctx.bad(c, f.loc(), "no return path")
        elif bad:
            ctx.bad(c, f.loc(), "returns `%s`, which is not an element of the unexplored set" % tstr(bad[0])[:60])
        else:
            ctx.ok(c, f.loc(), "all %d return values are subscripts of self._unexplored_prefixes" % len(rets))
        # index / key provenance
        keyt = ("call", "ctor:trie.typing:Nibbles", (("p", f.params[1]),), ())
        idx = ("call", "m:bisect", (unexpl, keyt), ())
        okidx = {C(0), C(-1), idx, ("bin", "-", idx, C(1))}
        weird = [r for r in rets if r[0] == "sub" and r[1] == unexpl and r[2] not in okidx]
        c = "index:%s" % fkey(f)
        if weird:
            ctx.bad(c, f.loc(), "returned element index `%s` is not 0, -1, bisect(key) or bisect(key) - 1" % tstr(weird[0][2])[:50])
        else:
            ctx.ok(c, f.loc(), "returned indices derive from bisect(Nibbles(key)) only")
        # EXC7
        for exc, origin in ctx.X.escapes(f):
            short = exc.split(".")[-1]
            if short not in ("PerfectVisibility", "FullDirectionalVisibility"):
                continue
            cst = "probe:%s:%s" % (fkey(f), short)
            cause = origin[4] if origin[0] == "raise" and len(origin) > 4 else None
            if not cause or cause[0] != "index":
                ctx.bad(cst, "%s:%s" % (f.rel, origin[2]), "%s is raised without an IndexError of subscripting the unexplored set as its cause" % short, rule="EXC7")
                continue
            # which subscript failed
            subs = [n for n in walk_shallow(f.node) if isinstance(n, ast.Subscript) and n.lineno == cause[2]]
            it = None
            for sn in subs:
                st0 = __import__("pta.sym", fromlist=["State"]).State()
                # evaluate the index under the function's straight-line bindings
                for p, st in pq.states(ctx, f, until=lambda ev, sn=sn: ev.k == "src" and ev.node is sn):
                    it = eng.ev(sn.slice, f, st)
                    break
            want = C(0) if short == "PerfectVisibility" else idx
            if it == want:
                ctx.ok(cst, "%s:%s" % (f.rel, origin[2]), "%s comes from the failing probe self._unexplored_prefixes[%s]" % (short, tstr(want)[:30]), rule="EXC7")
            else:
                ctx.bad(cst, "%s:%s" % (f.rel, origin[2]), "%s is raised for a failing subscript [%s], expected [%s]" % (short, tstr(it)[:30] if it else "?", tstr(want)[:30]), rule="EXC7")
        if name == "nearest_right":
            excs = {e.split(".")[-1] for e, o in ctx.X.escapes(f)}
            if not {"PerfectVisibility", "FullDirectionalVisibility"} <= excs:
                ctx.bad("probe:%s:missing" % fkey(f), f.loc(), "nearest_right no longer raises both visibility exceptions", rule="EXC7")
        elif "PerfectVisibility" not in {e.split(".")[-1] for e, o in ctx.X.escapes(f)}:
            ctx.bad("probe:%s:missing" % fkey(f), f.loc(), "nearest_unknown no longer raises PerfectVisibility", rule="EXC7")
    # is_complete <=> nothing left
    f = ctx.P.func(FOG + ".is_complete")
    rets = set()
    for p, st in pq.states(ctx, f):
        if st.ret is not None:
            rets.add(st.ret)
    want = {("cmp", "==", ("len", unexpl), C(0))}
    alt = {("un", "not", unexpl)}
    tab = pq.bool_table(ctx, f)
    if rets == want or rets == alt or tab in (
            {(frozenset({("==", ("len", unexpl), C(0))}), True), (frozenset({("!=", ("len", unexpl), C(0))}), False)},
            {(frozenset({(unexpl, False)}), True), (frozenset({(unexpl, True)}), False)}):
        ctx.ok("complete-iff-empty:HexaryTrieFog.is_complete", f.loc(), "is_complete is len(unexplored) == 0")
    else:
        ctx.bad("complete-iff-empty:HexaryTrieFog.is_complete", f.loc(), "is_complete returns `%s`" % "; ".join(tstr(r) for r in rets))


@rule("PROV6", ["C11"])
def prov6(ctx, pid):
    """explore: result = copy of the receiver's set - {old} + {old + seg for every validated segment};
    duplicates and nested segments are refused; mark_all_complete removes exactly the listed prefixes."""
    eng = S(ctx)
    f = ctx.P.func(FOG + ".explore")
    unexpl = ("attr", ("self",), "_unexplored_prefixes")
    old = ("call", "ctor:trie.typing:Nibbles", (("p", f.params[1]),), ())
    segs_src = ("p", f.params[2])
    n_ok = 0
    problems = []
    excs = {}
    for p, st in pq.states(ctx, f, unroll=1):
        if p.exit[0] == "raise":
            excs.setdefault(p.exit[1].split(".")[-1], 0)
            excs[p.exit[1].split(".")[-1]] += 1
            continue
        if p.exit[0] != "return":
            continue
        # mutations of the working copy along the path
        muts = []
        for ev in st.events:
            if ev.k == "call" and ev.a == "ok":
                tg = ctx.R.resolve_call(ev.node, f, count=False)[0]
                if tg.kind == "cmeth" and tg.meth in ("remove", "update", "add", "discard", "pop", "clear", "difference_update"):
                    recv = eng.ev(tg.recv, f, st)
                    args = [eng.ev(a, f, st) for a in ev.node.args]
                    muts.append((tg.meth, recv, args))
        copy_t = ("call", "m:copy", (unexpl,), ())
        if muts and muts[0][1] == ("call", "ext:sortedcontainers.SortedSet", (unexpl,), ()):
            copy_t = muts[0][1]  # SortedSet(x) is a copy of x as well
        want_upd = None
        ok = True
        if len(muts) != 2 or muts[0][0] != "remove" or muts[1][0] != "update":
            ok = False
            problems.append("working set is modified by %s, expected remove(old) then update(children)" % [m[0] for m in muts])
        else:
            if muts[0][1] != copy_t or muts[1][1] != copy_t:
                ok = False
                problems.append("the modified set is `%s`, not a copy() of the receiver's set" % tstr(muts[0][1])[:50])
            if muts[0][2] != [old]:
                ok = False
                problems.append("removed element is `%s`, not Nibbles(old_prefix)" % tstr(muts[0][2][0])[:50])
            u = muts[1][2][0] if muts[1][2] else None
            # [old + segment for segment in sub_segments] with sub_segments = [Nibbles(s) for s in foggy]
            good = (u is not None and u[0] == "listcomp" and not u[3] and len(u[2]) == 1
                    and u[2][0][0] == "listcomp" and not u[2][0][3] and u[2][0][2] == (segs_src,)
                    and u[1] == ("bin", "+", old, ("iter", u[2][0], "c")))
            if u is not None and u[0] in ("listcomp", "gen", "setcomp") and u[3]:
                ok = False
                problems.append("the comprehension adding the children has a filter")
            elif not good:
                ok = False
                problems.append("added children are `%s`, expected [old + Nibbles(seg) for every seg]" % (tstr(u)[:80] if u else "?"))
        if st.ret is None or not (st.ret[0] == "call" and st.ret[1].endswith("_new_trie_fog") and st.ret[2][-1] == copy_t):
            ok = False
            problems.append("returned fog is not built from the modified copy")
        if ok:
            n_ok += 1
    c = "swap:HexaryTrieFog.explore"
    if problems:
        ctx.bad(c, f.loc(), problems[0], witness={"problems": sorted(set(problems))})
    elif n_ok == 0:
        ctx.bad(c, f.loc(), "no successful path")
    else:
        ctx.ok(c, f.loc(), "on all %d successful paths: copy, remove(old), update([old + seg ...]) unfiltered, new fog from the copy" % n_ok)
    # refusals
    _check_explore_refusals(ctx, f, old)
    # mark_all_complete
    g = ctx.P.func(FOG + ".mark_all_complete")
    lp = [n for n in walk_shallow(g.node) if isinstance(n, ast.For)]
    good = False
    why = "no loop over the given prefixes"
    if len(lp) == 1:
        it = eng.ev(lp[0].iter, g, __import__("pta.sym", fromlist=["State"]).State())
        src_ok = it == ("call", "ext:map", (("cls", "trie.typing:Nibbles"), ("p", g.params[1])), ()) or \
            (it[0] in ("listcomp", "gen") and not it[3] and it[2] == (("p", g.params[1]),))
        rem = [n for n in ast.walk(lp[0]) if isinstance(n, ast.Call) and isinstance(n.func, ast.Attribute) and n.func.attr in ("remove", "discard")]
        tests = [n for n in ast.walk(lp[0]) if isinstance(n, ast.Compare) and isinstance(n.ops[0], (ast.NotIn, ast.In))]
        if not src_ok:
            why = "loop does not run over Nibbles(prefix) for every given prefix"
        elif len(rem) != 1 or not (isinstance(rem[0].args[0], ast.Name) and isinstance(lp[0].target, ast.Name) and rem[0].args[0].id == lp[0].target.id):
            why = "loop body does not remove exactly the current prefix"
        elif not tests and not any(isinstance(t_, ast.Try) and util.contains(t_, rem[0]) and any(h_.type is not None and "KeyError" in ast.unparse(h_.type)
                                   and any(isinstance(x_, ast.Raise) for x_ in ast.walk(h_)) for h_ in t_.handlers) for t_ in ast.walk(lp[0])):
            why = "membership of the prefix is not checked before removal"
        else:
            good = True
    if good:
        ctx.ok("remove-listed:HexaryTrieFog.mark_all_complete", g.loc(), "each listed prefix is checked for membership and removed from the copy")
    else:
        ctx.bad("remove-listed:HexaryTrieFog.mark_all_complete", g.loc(), why)


def _check_explore_refusals(ctx, f, old):
    """duplicate check and nested-prefix check of explore (structure by provenance)."""
    eng = S(ctx)
    # the validated segment list: the local bound to [Nibbles(s) for s in <segments parameter>]
    SEG = None
    for name, bs in ctx.E.bindings(f).items():
        for b in bs:
            if isinstance(b, ast.ListComp) and isinstance(b.generators[0].iter, ast.Name) and b.generators[0].iter.id == f.params[2] \
                    and isinstance(b.elt, ast.Call) and ast.unparse(b.elt.func) == "Nibbles" and not b.generators[0].ifs:
                SEG = name
            elif isinstance(b, ast.Call) and isinstance(b.func, ast.Name) and b.func.id in ("list", "tuple") and len(b.args) == 1 and isinstance(b.args[0], ast.Call) \
                    and isinstance(b.args[0].func, ast.Name) and b.args[0].func.id == "map" and len(b.args[0].args) == 2 \
                    and ast.unparse(b.args[0].args[0]) == "Nibbles" and isinstance(b.args[0].args[1], ast.Name) and b.args[0].args[1].id == f.params[2]:
                SEG = name  # list(map(Nibbles, segments)): the same validated list
    if SEG is None:
        ctx.unsure("refuse-nested:HexaryTrieFog.explore", f.loc(), "cannot find the validated segment list [Nibbles(s) for s in segments]")
        return
    raises = [n for n in walk_shallow(f.node) if isinstance(n, ast.Raise)]
    kinds = {"unknown-parent": None, "duplicates": None, "nested": None}
    for r in raises:
        # enclosing conditions
        conds = []
        for n in walk_shallow(f.node):
            if isinstance(n, (ast.If,)) and util.contains(n, r) and any(util.contains(b, r) or b is r for b in n.body):
                conds.append(n.test)
        h = None
        for n in walk_shallow(f.node):
            if isinstance(n, ast.ExceptHandler) and util.contains(n, r):
                h = n
        src = " ".join(ast.unparse(util.expand_locals(ctx, f, c)).replace(" ", "") if not isinstance(c, ast.Name) else ast.unparse(c) for c in conds)
        # `unique = set(segs); if len(unique) != len(segs)`: the expansion replaces `segs` by its comprehension as well
        segdef = [b for b in ctx.E.bindings(f).get(SEG, []) if isinstance(b, ast.AST)]
        if len(segdef) == 1:
            src = src.replace(ast.unparse(segdef[0]).replace(" ", ""), SEG)
        notin_parent = [c_ for c_ in conds if isinstance(c_, ast.Compare) and len(c_.ops) == 1 and isinstance(c_.ops[0], ast.NotIn)
                        and "_unexplored_prefixes" in ast.unparse(util.expand_locals(ctx, f, c_.comparators[0]))]
        if h is not None and "KeyError" in ast.unparse(h.type or ast.Name(id="")):
            kinds["unknown-parent"] = r
        elif notin_parent and kinds["unknown-parent"] is None:
            kinds["unknown-parent"] = r  # `if old_prefix not in <the set>: raise ValidationError` instead of catching remove()'s KeyError
        elif any(pat % ((SEG, SEG) if pat.startswith("len(%s(") is False else (SEG, SEG)) in src for pat in
                 ("len(set(%s))!=len(%s)", "len(%s)!=len(set(%s))", "len(frozenset(%s))!=len(%s)", "len(%s)!=len(frozenset(%s))")):
            kinds["duplicates"] = r
        elif any(isinstance(c, ast.Compare) and isinstance(c.ops[0], ast.In) for c in conds):
            kinds["nested"] = (r, conds)
    for k in ("unknown-parent", "duplicates"):
        c = "refuse-%s:HexaryTrieFog.explore" % k
        if kinds[k] is None:
            ctx.bad(c, f.loc(), "the %s refusal (ValidationError) is gone" % k)
        else:
            ctx.ok(c, f.loc(kinds[k]), "%s is refused with ValidationError" % k, nontrivial=False)
    c = "refuse-nested:HexaryTrieFog.explore"
    if kinds["nested"] is None:
        ctx.bad(c, f.loc(), "the nested-segment refusal is gone")
        return
    r, conds = kinds["nested"]
    # provenance: `X in sub_segments` with X = segment[:L], L ranging over every length of the
    # segments that is strictly shorter than len(segment)
    intest = [c_ for c_ in conds if isinstance(c_, ast.Compare) and isinstance(c_.ops[0], ast.In)][0]
    problems = []
    fors = [n for n in walk_shallow(f.node) if isinstance(n, ast.For) and util.contains(n, r)]
    fors.sort(key=lambda n: n.lineno)
    bind = ctx.E.bindings(f)

    def only(name):
        bs = [b for b in bind.get(name, []) if isinstance(b, ast.AST)]
        return bs[0] if len(bs) == 1 else None
    x = intest.left
    xdef = only(x.id) if isinstance(x, ast.Name) else x
    if not (isinstance(xdef, ast.Subscript) and isinstance(xdef.slice, ast.Slice) and xdef.slice.lower is None and xdef.slice.upper is not None):
        problems.append("the tested value is not a prefix slice segment[:L]")
    else:
        Lname = xdef.slice.upper.id if isinstance(xdef.slice.upper, ast.Name) else None
        segname = xdef.value.id if isinstance(xdef.value, ast.Name) else None
        inner = [n for n in fors if isinstance(n.target, ast.Name) and n.target.id == Lname]
        outer = [n for n in fors if isinstance(n.target, ast.Name) and n.target.id == segname]
        if not inner or not outer:
            problems.append("prefix length / segment are not loop variables")
        else:
            if not (isinstance(outer[0].iter, ast.Name) and outer[0].iter.id == SEG):
                problems.append("outer loop does not run over every sub-segment")
            src = inner[0].iter
            sdef = only(src.id) if isinstance(src, ast.Name) else src
            # a table of the shorter lengths per segment length, looked up with len(segment):
            # {k: [l for l in pool if l < k] for k in pool}[len(segment)] is [l for l in pool if l < len(segment)]
            if isinstance(sdef, ast.Subscript) and isinstance(sdef.value, ast.Name) and not isinstance(sdef.slice, ast.Slice):
                tdef = only(sdef.value.id)
                if isinstance(tdef, ast.DictComp) and len(tdef.generators) == 1 and not tdef.generators[0].ifs and isinstance(tdef.generators[0].target, ast.Name) \
                        and isinstance(tdef.key, ast.Name) and tdef.key.id == tdef.generators[0].target.id:
                    kname = tdef.key.id
                    idx = sdef.slice
                    import copy as _copy

                    class _Sub(ast.NodeTransformer):
                        def visit_Name(self, n):
                            return _copy.deepcopy(idx) if n.id == kname and isinstance(n.ctx, ast.Load) else n
                    pool0 = tdef.generators[0].iter
                    val = _Sub().visit(_copy.deepcopy(tdef.value))
                    # the looked-up key is a length of a segment, and the table has a row for every such length
                    pdef0 = only(pool0.id) if isinstance(pool0, ast.Name) else pool0
                    if isinstance(pdef0, (ast.SetComp, ast.ListComp)) and ast.unparse(idx).replace(" ", "") == "len(%s)" % segname:
                        sdef = val
            # [length for length in all_lengths if length < len(segment)]
            okc = (isinstance(sdef, (ast.ListComp, ast.GeneratorExp, ast.SetComp)) and len(sdef.generators) == 1
                   and len(sdef.generators[0].ifs) == 1)
            if not okc:
                problems.append("candidate prefix lengths are `%s`, not every strictly shorter length" % (ast.unparse(sdef)[:60] if sdef is not None else "?"))
            else:
                g = sdef.generators[0]
                cond = ast.unparse(g.ifs[0]).replace(" ", "")
                tv = g.target.id if isinstance(g.target, ast.Name) else "?"
                if cond not in ("%s<len(%s)" % (tv, segname), "len(%s)>%s" % (segname, tv)):
                    problems.append("length filter is `%s`, expected `< len(segment)`" % ast.unparse(g.ifs[0]))
                pool = g.iter
                pdef = only(pool.id) if isinstance(pool, ast.Name) else pool
                okp = (isinstance(pdef, (ast.SetComp, ast.ListComp, ast.GeneratorExp)) and not pdef.generators[0].ifs
                       and ast.unparse(pdef.elt).replace(" ", "") == "len(%s)" % (pdef.generators[0].target.id if isinstance(pdef.generators[0].target, ast.Name) else "?")
                       and isinstance(pdef.generators[0].iter, ast.Name) and pdef.generators[0].iter.id == SEG)
                if not okp:
                    problems.append("the pool of lengths `%s` is not {len(s) for every sub-segment}" % (ast.unparse(pdef)[:60] if pdef is not None else "?"))
    coll = intest.comparators[0]
    if isinstance(coll, ast.Name) and coll.id != SEG:
        cdef = only(coll.id)
        # set(sub_segments) / frozenset(sub_segments) / tuple(..): the same elements
        if isinstance(cdef, ast.Call) and isinstance(cdef.func, ast.Name) and cdef.func.id in ("set", "frozenset", "tuple", "list") and len(cdef.args) == 1 \
                and isinstance(cdef.args[0], ast.Name) and cdef.args[0].id == SEG:
            coll = cdef.args[0]
    if not (isinstance(coll, ast.Name) and coll.id == SEG):
        problems.append("membership is not tested against the full list of sub-segments")
    # guard that skips the check must be `len(all_lengths) > 1`
    outer_if = [n for n in walk_shallow(f.node) if isinstance(n, ast.If) and util.contains(n, r) and not any(isinstance(x_, ast.For) and util.contains(x_, n) for x_ in fors)]
    pool_name = None
    for name, bs in bind.items():
        for b in bs:
            if isinstance(b, (ast.SetComp, ast.ListComp)) and isinstance(b.generators[0].iter, ast.Name) and b.generators[0].iter.id == SEG \
                    and isinstance(b.elt, ast.Call) and ast.unparse(b.elt.func) == "len":
                pool_name = name
    for oi in outer_if:
        s = ast.unparse(oi.test).replace(" ", "")
        if pool_name and pool_name in s and s not in ("len(%s)>1" % pool_name, "len(%s)>=2" % pool_name, "1<len(%s)" % pool_name):
            problems.append("the nested check is skipped unless `%s`" % ast.unparse(oi.test))
    if problems:
        ctx.bad(c, f.loc(r), problems[0], witness={"problems": problems})
    else:
        ctx.ok(c, f.loc(r), "every segment is checked against every strictly shorter length present: segment[:L] in sub_segments => ValidationError")


@rule("SIB10", ["C11"])
def sib10(ctx, pid):
    """serialize / deserialize are duals: same byte prefix, encode_nibbles paired with Nibbles(decode_nibbles(..))."""
    eng = S(ctx)
    ser = ctx.P.func(FOG + ".serialize")
    de = ctx.P.func(FOG + ".deserialize")
    unexpl = ("attr", ("self",), "_unexplored_prefixes")
    # serialize: return f"<PREFIX>{prefixes!r}".encode() with prefixes = [encode_nibbles(n) for n in unexplored]
    rets = [n for n in walk_shallow(ser.node) if isinstance(n, ast.Return)]
    c = "serialize-shape:HexaryTrieFog.serialize"
    lit = None
    ok = False
    why = "serialize does not return <literal prefix + repr(list of encoded prefixes)>.encode()"
    if len(rets) == 1:
        rv = util.ret_deref(ser, rets[0])
        if isinstance(rv, ast.Call) and isinstance(rv.func, ast.Attribute) and rv.func.attr == "encode" and not rv.args and isinstance(rv.func.value, ast.JoinedStr):
            js = rv.func.value
            consts = [v for v in js.values if isinstance(v, ast.Constant)]
            fvs = [v for v in js.values if isinstance(v, ast.FormattedValue)]
            if len(consts) == 1 and len(fvs) == 1 and js.values[0] is consts[0] and fvs[0].conversion == ord("r"):
                lit = consts[0].value
                src = fvs[0].value
                sdef = src
                if isinstance(src, ast.Name):
                    bs = [b for b in ctx.E.bindings(ser).get(src.id, []) if isinstance(b, ast.AST)]
                    sdef = bs[0] if len(bs) == 1 else None
                st0 = __import__("pta.sym", fromlist=["State"]).State()
                t = eng.ev(sdef, ser, st0) if sdef is not None else None
                if t and t[0] == "listcomp" and not t[3] and t[2] == (unexpl,) and t[1] == ("call", "trie.utils.nibbles:encode_nibbles", (("iter", unexpl, "c"),), ()):
                    ok = True
                else:
                    why = "serialized list is `%s`, not [encode_nibbles(n) for every unexplored prefix]" % (tstr(t)[:70] if t else "?")
        elif isinstance(rv, ast.Call):
            why = "the serialized bytes are post-processed (`%s`)" % ast.unparse(rv)[-50:]
    if ok:
        ctx.ok(c, ser.loc(), "returns (%r + repr([encode_nibbles(n) ...])).encode() with no post-processing" % lit)
    else:
        ctx.bad(c, ser.loc(), why, witness={"firm": "post-processed" in why})
    # deserialize
    c = "deserialize-shape:HexaryTrieFog.deserialize"
    problems = []
    dlit = None
    pvar = None
    enc = de.params[1]
    for n in walk_shallow(de.node):
        if isinstance(n, ast.Assign) and isinstance(n.value, ast.Constant) and isinstance(n.value.value, bytes) and isinstance(n.targets[0], ast.Name):
            dlit = n.value.value
            pvar = n.targets[0].id
    if dlit is None:
        problems.append("no byte-string prefix literal")
    elif lit is not None and dlit != lit.encode():
        problems.append("prefix literals differ: serialize writes %r, deserialize expects %r" % (lit, dlit))
    src = ast.unparse(de.node).replace(" ", "")
    if pvar is not None:
        if "%s.startswith(%s)" % (enc, pvar) not in src:
            problems.append("the prefix is not checked with startswith")
        if "%s[len(%s):]" % (enc, pvar) not in src:
            problems.append("the payload is not cut at len(prefix)")
    if "ast.literal_eval(" not in src:
        problems.append("payload is not parsed with ast.literal_eval")
    gens = [n for n in walk_shallow(de.node) if isinstance(n, (ast.GeneratorExp, ast.ListComp, ast.SetComp))]
    okg = False
    for g in gens:
        e = ast.unparse(g.elt).replace(" ", "")
        tv = g.generators[0].target.id if isinstance(g.generators[0].target, ast.Name) else "?"
        if e == "Nibbles(decode_nibbles(%s))" % tv and not g.generators[0].ifs:
            okg = True
    mapped = False
    if not okg:
        # map(Nibbles, map(decode_nibbles, entries)): the same rebuild, element by element
        flat = src.replace("trie.utils.nibbles.", "").replace("nibbles.", "")
        mapped = "map(Nibbles,map(decode_nibbles," in flat
        if not mapped:
            problems.append("elements are not rebuilt as Nibbles(decode_nibbles(prefix)) for every entry")
    if problems:
        ctx.bad(c, de.loc(), problems[0], witness={"problems": problems})
    else:
        ctx.ok(c, de.loc(), "checks the same literal prefix, parses the list, rebuilds Nibbles(decode_nibbles(p)) for every entry")
    # __eq__ compares the sets
    eq = ctx.P.cls(FOG).methods.get("__eq__")
    if eq is not None:
        s = ast.unparse(eq.node).replace(" ", "")
        o_ = eq.params[1]
        if "self._unexplored_prefixes==%s._unexplored_prefixes" % o_ in s or "%s._unexplored_prefixes==self._unexplored_prefixes" % o_ in s:
            ctx.ok("eq-by-set:HexaryTrieFog.__eq__", eq.loc(), "equality is equality of the unexplored sets", nontrivial=False)
        else:
            ctx.bad("eq-by-set:HexaryTrieFog.__eq__", eq.loc(), "fog equality is not equality of the unexplored sets")


@rule("PROV5", ["C10", "C08"])
def prov5(ctx, pid):
    """TrieFrontierCache.add stores (trie_node, seg) under prefix + seg with one and the same seg."""
    eng = S(ctx)
    f = ctx.P.func(FCACHE + ".add")
    prefix = ("call", "ctor:trie.typing:Nibbles", (("p", f.params[1]),), ())
    node = ("p", f.params[2])
    n_store = 0
    problems = []
    for p, st in pq.states(ctx, f, unroll=1):
        for ev in st.events:
            if ev.k == "stmt" and isinstance(ev.node, ast.Assign) and isinstance(ev.node.targets[0], ast.Subscript):
                t = ev.node.targets[0]
                if not util.self_attr(t.value, f, "_cache"):
                    continue
                n_store += 1
                # re-evaluate under the state at that point is the final state (single assignment in loop)
                k = eng.ev(t.slice, f, st)
                v = eng.ev(ev.node.value, f, st)
                seg = ("iter", ("p", f.params[3]), 0)
                nseg = ("call", "ctor:trie.typing:Nibbles", (seg,), ())
                if k != ("bin", "+", prefix, nseg):
                    problems.append("cache key is `%s`, expected Nibbles(node_prefix) + Nibbles(segment)" % tstr(k)[:70])
                if v != ("tuple", (node, nseg)):
                    problems.append("cached value is `%s`, expected (trie_node, Nibbles(segment))" % tstr(v)[:70])
    c = "entry:TrieFrontierCache.add"
    if problems:
        ctx.bad(c, f.loc(), problems[0])
    elif n_store == 0:
        ctx.bad(c, f.loc(), "add() stores nothing")
    else:
        ctx.ok(c, f.loc(), "cache[prefix + seg] = (trie_node, seg) with the same segment on both sides")
    g = ctx.P.func(FCACHE + ".get")
    rets = set()
    for p, st in pq.states(ctx, g):
        if st.ret is not None and p.exit[0] == "return":
            rets.add(st.ret)
    want = ("sub", ("attr", ("self",), "_cache"), ("call", "ctor:trie.typing:Nibbles", (("p", g.params[1]),), ()))
    if rets == {want}:
        ctx.ok("lookup:TrieFrontierCache.get", g.loc(), "get(prefix) is cache[Nibbles(prefix)]", nontrivial=False)
    else:
        ctx.bad("lookup:TrieFrontierCache.get", g.loc(), "get() returns `%s`" % "; ".join(tstr(r)[:50] for r in rets))


@rule("PROV1b", ["C11"])
def prov1b(ctx, pid):
    """Decision tables of nearest_unknown / nearest_right and the distance helper."""
    eng = S(ctx)
    unexpl = ("attr", ("self",), "_unexplored_prefixes")
    # ---- nearest_right
    f = ctx.P.func(FOG + ".nearest_right")
    key = ("call", "ctor:trie.typing:Nibbles", (("p", f.params[1]),), ())
    idx = ("call", "m:bisect", (unexpl, key), ())
    left = ("sub", unexpl, ("bin", "-", idx, C(1)))
    rows = {}
    for p, st in pq.states(ctx, f):
        if p.exit[0] != "return":
            continue
        zero = None
        within = None
        for t, pol, _ in st.log:
            r = rel_norm(t, pol)
            if r and r[1] == idx and r[2] == C(0) and r[0] in ("==", "!="):
                zero = r[0] == "=="
            tt, pp = truth_norm(t, pol)
            if tt == ("call", "trie.utils.nodes:key_starts_with", (key, left), ()):
                within = pp
        case = "index0" if zero else ("covered" if within else "not-covered" if within is False else "?")
        rows.setdefault(case, set()).add(st.ret)
    want = {"index0": {("sub", unexpl, C(0))}, "covered": {left}, "not-covered": {("sub", unexpl, idx)}}
    c = "table:HexaryTrieFog.nearest_right"
    if rows == want:
        ctx.ok(c, f.loc(), "bisect index 0 -> first prefix; key inside the prefix on its left -> that prefix; otherwise the prefix at the bisect index")
    else:
        ctx.bad(c, f.loc(), "nearest_right table is %s" % {k: sorted(tstr(x)[:50] for x in v) for k, v in rows.items()},
                witness={"expected": {k: sorted(tstr(x) for x in v) for k, v in want.items()}})
    # ---- nearest_unknown
    g = ctx.P.func(FOG + ".nearest_unknown")
    key = ("call", "ctor:trie.typing:Nibbles", (("p", g.params[1]),), ())
    idx = ("call", "m:bisect", (unexpl, key), ())
    left = ("sub", unexpl, ("bin", "-", idx, C(1)))
    right = ("sub", unexpl, idx)
    dist = FOG + "._prefix_distance"
    ld = ("call", dist, (("self",), left, key), ())
    rd = ("call", dist, (("self",), key, right), ())
    rows = {}
    for p, st in pq.states(ctx, g):
        if p.exit[0] != "return":
            continue
        case = "?"
        for t, pol, _ in st.log:
            r = rel_norm(t, pol)
            if r and r[1] == idx and r[2] == C(0) and r[0] == "==":
                case = "index0"
            elif r and r[0] == "==" and {r[1], r[2]} == {idx, ("len", unexpl)}:
                case = "past-end"
            elif r and r[0] in (">", ">=") and {r[1], r[2]} == {ld, rd}:
                # normalised to (op, bigger, smaller)
                if r[0] == ">" and r[1] == rd:
                    case = "left-closer"
                elif r[0] == ">=" and r[1] == ld:
                    case = "right-closer-or-tie"
                else:
                    case = "distance:%s %s %s" % (tstr(r[1])[:20], r[0], tstr(r[2])[:20])
        rows.setdefault(case, set()).add(st.ret)
    want = {"index0": {("sub", unexpl, C(0))}, "past-end": {("sub", unexpl, C(-1))}, "left-closer": {left}, "right-closer-or-tie": {right}}
    c = "table:HexaryTrieFog.nearest_unknown"
    if rows == want:
        ctx.ok(c, g.loc(), "index 0 -> first; index == len -> last; else the left neighbour iff distance(left, key) < distance(key, right), ties go right")
    else:
        ctx.bad(c, g.loc(), "nearest_unknown table is %s" % {k: sorted(tstr(x)[:50] for x in v) for k, v in rows.items()},
                witness={"expected": {k: sorted(tstr(x) for x in v) for k, v in want.items()}})
    # ---- _prefix_distance: zip_longest, missing low nibble = 15, missing high nibble = 0, yields high - low
    h = ctx.P.func(dist)
    lo, hi = ("p", h.params[0]), ("p", h.params[1])
    zl = ("call", "ext:itertools.zip_longest", (lo, hi), (("fillvalue", C(None)),))
    rows = {}
    for p, st in pq.states(ctx, h, unroll=1):
        ys = [ev for ev in st.events if ev.k == "yield"]
        if not ys:
            continue
        it = ("iter", zl, 0)
        ln, hn = ("sub", it, C(0)), ("sub", it, C(1))
        lnone = st.facts.none.get(ln)
        hnone = st.facts.none.get(hn)
        yt = eng.ev(ys[0].node.value, h, st)
        rows[(lnone, hnone)] = yt
    want = {(True, True): ("bin", "-", C(0), C(15)) if False else C(-15), (True, False): None, (False, True): None, (False, False): None}
    okd = True
    for (ln_, hn_), yt in rows.items():
        it = ("iter", zl, 0)
        l_t = C(15) if ln_ else ("sub", it, C(0))
        h_t = C(0) if hn_ else ("sub", it, C(1))
        if yt != eng.mk_bin("-", h_t, l_t):
            okd = False
    c = "metric:HexaryTrieFog._prefix_distance"
    if okd and len(rows) == 4:
        ctx.ok(c, h.loc(), "per position: high - low with a missing low nibble read as 15 and a missing high nibble as 0 (zip_longest)")
    else:
        ctx.bad(c, h.loc(), "_prefix_distance yields %s" % {str(k): tstr(v)[:40] for k, v in rows.items()})


# ---------------------------------------------------------------------------
@rule("ITERTAB", ["C10"])
def itertab(ctx, pid):
    """Outcome tables of NodeIterator.next / _get_key_after / _get_next_key: for every return path the facts the
    path establishes select the row of the reference table, and the returned term must be that row's value."""
    from .hextab import Facts, Undecided, Mismatch
    NONE = C(None)

    def isnone(q, t, what):
        for op, l, r in q.rels:
            if l == t and r == NONE and op in ("is", "isnot", "==", "!="):
                return op in ("is", "==")
        tv = q.truth.get(t)
        if tv is True:
            return False  # truthy: certainly not None
        if tv is False:
            raise Mismatch("`%s` is tested for truth where `is None` is meant: an empty but valid value (the empty key `()` / b'') is treated like None" % tstr(t)[:60])
        raise Undecided(what)

    def ref_next_key(q):
        if q.truth.get(q.ref("node.value")) is True:
            return q.ref("traversed + node.suffix")
        if q.truth.get(q.ref("node.value")) is None:
            raise Undecided("whether the node holds a value")
        segs = q.ref("node.sub_segments")
        lo, hi = q.eng.len_of(segs, q.st.facts)
        if hi == 0:
            return NONE
        if lo < 1:
            raise Undecided("whether the node has children")
        return q.ref("self._get_next_key(self._trie.traverse_from(node, node.sub_segments[0]), traversed + node.sub_segments[0])")

    def ref_key_after(q):
        if any(ev.k == "stmt" and isinstance(ev.node, ast.Break) for ev in q.st.events):
            raise Mismatch("the scan of the sub-segments is left by `break`: segments further to the right are never looked at")

        def tail():
            suf = q.ref("node.suffix")
            key = ("p", q.f.params[2])
            if (">", suf, key) in q.rels:
                return q.ref("traversed + node.suffix")
            if (">=", key, suf) in q.rels:
                return NONE
            raise Undecided("whether the node's own suffix lies to the right of the key")
        segs = q.ref("node.sub_segments")
        seg = ("iter", segs, 0)
        if not any(ev.k == "loop" for ev in q.st.events):
            return tail()
        head = q.ref("key[:len(S)]", S=seg)
        if (">", head, seg) in q.rels:
            return tail()
        if (">=", seg, head) not in q.rels:
            raise Undecided("whether the segment lies to the left of the key")
        nn = q.ref("self._trie.traverse_from(node, S)", S=seg)
        ccp = q.ref("consume_common_prefix(key, S)", S=seg)
        sr = ("sub", ccp, C(2))
        lo, hi = q.eng.len_of(sr, q.st.facts)
        if hi == 0:
            nk = q.ref("self._get_key_after(X, R, traversed + S)", X=nn, R=("sub", ccp, C(1)), S=seg)
            if isnone(q, nk, "whether the subtree held a key to the right"):
                return tail()
            return nk
        if lo >= 1:
            return q.ref("self._get_next_key(X, traversed + S)", X=nn, S=seg)
        raise Undecided("whether the segment is fully matched by the key")

    def ref_next(q):
        kb = ("p", q.f.params[1])
        root = q.ref("self._trie.root_node")
        start = q.ref("Nibbles(())")
        if isnone(q, kb, "whether a start key was given"):
            nk = q.ref("self._get_next_key(R, Z)", R=root, Z=start)
        else:
            nk = q.ref("self._get_key_after(R, bytes_to_nibbles(key_bytes), Z)", R=root, Z=start)
        if isnone(q, nk, "whether a key was found"):
            return NONE
        return q.ref("nibbles_to_bytes(X)", X=nk)

    for name, reff, min_rows, unroll in (("next", ref_next, 4, None), ("_get_key_after", ref_key_after, 7, 1), ("_get_next_key", ref_next_key, 3, None)):
        f = ctx.P.func(ITER + "." + name)
        probs, unsure = [], []
        rows = 0
        for p, st in pq.states(ctx, f, unroll=unroll):
            if p.exit[0] != "return":
                continue
            q = Facts(ctx, f, st)
            try:
                want = reff(q)
            except Undecided as u:
                unsure.append((p.exit[1], "a path returns `%s` without deciding %s" % (tstr(st.ret)[:60], u.what)))
                continue
            except Mismatch as m:
                probs.append((p.exit[1], str(m)))
                continue
            rows += 1
            if st.ret != want:
                probs.append((p.exit[1], "returns `%s`; under the conditions of this path the result has to be `%s`" % (tstr(st.ret)[:110], tstr(want)[:110])))
        c = "outcome-table:%s" % fkey(f)
        if probs:
            node, why = probs[0]
            ctx.bad(c, f.loc(node), why, witness={"problems": sorted({w for _, w in probs})[:6]})
        elif unsure:
            ctx.unsure(c, f.loc(unsure[0][0]), unsure[0][1])
        elif rows < min_rows:
            ctx.unsure(c, f.loc(), "only %d return paths were classified, %d were confirmed by hand" % (rows, min_rows))
        else:
            ctx.ok(c, f.loc(), "%d return paths: every returned value is the one the reference table gives for the path's conditions" % rows)


@rule("FOGPOL", ["C11"])
def fogpol(ctx, pid):
    """Polarity of the fog's refusals and of __eq__ (the shape rules above find the tests; this rule decides on
    which side of each test the refusal sits): explore refuses exactly when the segment list has duplicates,
    mark_all_complete exactly when the prefix is not in the copy, deserialize exactly when the marker prefix is
    missing; __eq__ is False for other types and set equality otherwise."""
    eng = S(ctx)

    def local_refusal(p):
        return p.exit[0] == "raise" and pq.local_raise(p) is not None

    # ---- explore: duplicates
    f = ctx.P.func(FOG + ".explore")
    rows = set()
    for p, st in pq.states(ctx, f):
        for t, pol, _ in st.log:
            r = rel_norm(t, pol)
            if r and r[0] in ("==", "!=") and {r[1][0], r[2][0]} == {"len"} and any(x[1][0] == "call" and x[1][1] == "ext:set" for x in (r[1], r[2])):
                # is this the last thing the path learnt before a local refusal?
                last = st.log[-1][0] is t
                rows.add((r[0], "refuse" if (local_refusal(p) and last) else "go on"))
    c = "duplicates-polarity:HexaryTrieFog.explore"
    if not rows:
        ctx.unsure(c, f.loc(), "no path of explore shows the duplicate test in a form the table can read")
    elif rows == {("!=", "refuse"), ("==", "go on")}:
        ctx.ok(c, f.loc(), "len(set(segments)) != len(segments) -> ValidationError; equal -> goes on")
    else:
        ctx.bad(c, f.loc(), "the duplicate test behaves as %s; expected {differs: ValidationError, equal: go on}" % sorted(rows))
    # ---- mark_all_complete: membership
    g = ctx.P.func(FOG + ".mark_all_complete")
    rows = set()
    for p in ctx.X.paths(g, 1):
        member = None
        removed = False
        for ev in p.events:
            if ev.k == "assume" and isinstance(ev.node, ast.Compare) and len(ev.node.ops) == 1 and isinstance(ev.node.ops[0], (ast.In, ast.NotIn)):
                member = ev.a if isinstance(ev.node.ops[0], ast.In) else not ev.a
            if ev.k == "call" and ev.a == "ok" and isinstance(ev.node, ast.Call) and isinstance(ev.node.func, ast.Attribute) and ev.node.func.attr in ("remove", "discard"):
                removed = True
                if member is None and ev.node.func.attr == "remove":
                    member = True  # remove() returned: the element was there
            if ev.k == "call" and ev.a == "KeyError" and isinstance(ev.node, ast.Call) and isinstance(ev.node.func, ast.Attribute) and ev.node.func.attr == "remove":
                member = False     # `try: s.remove(x) except KeyError: raise ValidationError` asks the same question
        if member is None or (p.exit[0] == "raise" and not local_refusal(p)):
            continue
        rows.add((member, "refuse" if local_refusal(p) else ("remove" if removed else "nothing")))
    c = "membership-polarity:HexaryTrieFog.mark_all_complete"
    if not rows:
        ctx.unsure(c, g.loc(), "no path of mark_all_complete shows a membership test or a guarded remove() the table can read")
    elif rows == {(True, "remove"), (False, "refuse")}:
        ctx.ok(c, g.loc(), "a listed prefix that is unexplored is removed, any other is refused with ValidationError")
    else:
        ctx.bad(c, g.loc(), "mark_all_complete behaves as %s; expected {member: remove, not a member: ValidationError}" % sorted(rows, key=str))
    # ---- deserialize: marker
    d = ctx.P.func(FOG + ".deserialize")
    rows = set()
    for p in ctx.X.paths(d):
        sw = None
        for ev in p.events:
            if ev.k == "assume" and isinstance(ev.node, ast.Call) and isinstance(ev.node.func, ast.Attribute) and ev.node.func.attr == "startswith":
                sw = ev.a
        if sw is None:
            continue
        if p.exit[0] == "raise" and not local_refusal(p):
            continue
        rows.add((sw, "refuse" if local_refusal(p) else "parse"))
    c = "marker-polarity:HexaryTrieFog.deserialize"
    if rows == {(True, "parse"), (False, "refuse")}:
        ctx.ok(c, d.loc(), "input without the marker prefix is refused with ValueError, input with it is parsed")
    else:
        ctx.bad(c, d.loc(), "deserialize behaves as %s; expected {marker present: parse, absent: ValueError}" % sorted(rows, key=str))
    # ---- __eq__
    e = ctx.P.func(FOG + ".__eq__")
    o = ("p", e.params[1])
    inst = ("call", "ext:isinstance", (o, ("cls", FOG)), ())
    rows = set()
    unexp = ("attr", ("self",), "_unexplored_prefixes")
    ounexp = ("attr", o, "_unexplored_prefixes")
    for p, st in pq.states(ctx, e, fork_returns=True):
        if p.exit[0] != "return":
            continue
        v = None
        same = None
        for t, pol, _ in st.log:
            r = rel_norm(t, pol)
            if r is not None and {r[1], r[2]} == {unexp, ounexp} and r[0] in ("==", "!="):
                same = r[0] == "=="
                continue
            tt, pp = truth_norm(t, pol)
            if tt == inst:
                v = pp
        rows.add((v, same, st.ret))
    want = {(False, None, C(False)), (True, True, C(True)), (True, False, C(False))}
    c = "eq-table:HexaryTrieFog.__eq__"
    if rows == want:
        ctx.ok(c, e.loc(), "False for other types, equality of the unexplored sets otherwise")
    else:
        ctx.bad(c, e.loc(), "__eq__ behaves as %s; expected {not a fog: False, a fog: equality of the unexplored sets}" % sorted((str(k), str(sm), tstr(v)[:50]) for k, sm, v in rows))
