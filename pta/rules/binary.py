"""BinaryTrie / branches rules (C12, C13): ABS3b slot roles, SIB4 descent agreement + walker decision
tables, TS6 yield before descent, TS7 no kv->kv chain, TS8 subtree erasure, ROUTE2, ABS2b, LIVE (refusals live)."""
import ast

from ..core import rule
from ..model import walk_shallow, AnalysisError, UNKNOWN
from .. import util, pq
from ..pq import S, rel_norm, truth_norm

def rel_norm_b(t, pol):
    """rel_norm, with a bit of a key path tested through an index brought to the slice form the tables use:
    `keypath[i] == 1` (indexing bytes gives an int) is `keypath[i:i + 1] == b"\\x01"`."""
    r = rel_norm(t, pol)
    if r is not None and r[0] in ("==", "!=") and r[1][0] == "sub" and r[2][0] == "c" and type(r[2][1]) is int and r[2][1] in (0, 1) \
            and not (r[1][1][0] == "p" and False):
        x, i = r[1][1], r[1][2]
        if x[0] in ("p", "slice") and not (i[0] == "c" and isinstance(i[1], int) and i[1] < 0):
            hi = ("c", i[1] + 1) if i[0] == "c" and isinstance(i[1], int) else ("bin", "+", i, ("c", 1))
            lo = None if i == ("c", 0) else i
            return (r[0], ("slice", x, lo, hi), ("c", bytes([r[2][1]])))
    return r

from ..sym import C, tstr, is_c
from ..util import fkey

BIN = "trie.binary:BinaryTrie"
PARSE = "trie.utils.nodes:parse_node"
ENC_KV = "trie.utils.nodes:encode_kv_node"
ENC_BR = "trie.utils.nodes:encode_branch_node"
ENC_LF = "trie.utils.nodes:encode_leaf_node"
WALKERS = [
    (BIN + "._get", "node_hash", "keypath"),
    ("trie.branches:_check_if_branch_exist", "node_hash", "key_prefix"),
    ("trie.branches:_get_branch", "node_hash", "keypath"),
    ("trie.branches:_get_witness_for_key_prefix", "node_hash", "keypath"),
    ("trie.branches:_get_trie_nodes", "node_hash", None),
]
HASH_PARAMS = {"node_hash", "root_hash", "child_node_hash", "left_child_node_hash", "right_child_node_hash"}


def consts(ctx):
    if "binconsts" in ctx.cache:
        return ctx.cache["binconsts"]
    cm = ctx.P.modules.get("trie.constants")
    out = {}
    for n in ("KV_TYPE", "BRANCH_TYPE", "LEAF_TYPE", "BLANK_HASH", "BYTE_0", "BYTE_1"):
        v = ctx.P.const(cm, n)
        if v is UNKNOWN:
            raise AnalysisError("anchor vanished: constant %s" % n)
        out[n] = v
    out["kinds"] = {out["KV_TYPE"]: "KV", out["BRANCH_TYPE"]: "BRANCH", out["LEAF_TYPE"]: "LEAF"}
    ctx.cache["binconsts"] = out
    return out


def binkind(ctx, T, facts):
    """Possible node kinds of a parse_node type term under the facts."""
    K = consts(ctx)["kinds"]
    if T in facts.eq and facts.eq[T] in K:
        return frozenset([K[facts.eq[T]]])
    vals = set(K)
    if T in facts.inset:
        vals &= set(facts.inset[T])
    vals -= set(v for v in facts.ne.get(T, ()) if v in K)
    return frozenset(K[v] for v in vals)


def parse_terms(st):
    """{parse call term} seen in the environment as unpacked triple."""
    out = set()
    for v in st.env.values():
        if isinstance(v, tuple) and v and v[0] == "sub" and v[1][0] == "call" and v[1][1] == PARSE and is_c(v[2]):
            out.add(v[1])
    return out


def role_of(t, parses):
    """('T'|'L'|'R', parse term) if t is a component of a parse result."""
    if t[0] == "sub" and t[1] in parses and is_c(t[2]) and t[2][1] in (0, 1, 2):
        return "TLR"[t[2][1]], t[1]
    return None, None


def _param_kinds(ctx, g):
    """For helpers that receive (node_type, left_child, right_child) as parameters: the kinds
    at their call sites (join)."""
    key = ("paramkinds", g.qual)
    if key in ctx.cache:
        return ctx.cache[key]
    ctx.cache[key] = frozenset()
    kinds = set()
    eng = S(ctx)
    tp = [p for p in g.params if p in ("node_type", "nodetype")]
    if not tp:
        return None
    for f in util.all_functions(ctx, include_tools=False):
        for call, tg in ctx.E.call_edges(f):
            if tg.kind == "def" and tg.func is g:
                for p, st in pq.states(ctx, f, until=lambda ev, c=call: ev.node is c and ev.k == "call"):
                    amap = ctx.E.bind_args(call, g, skip_self=g.cls is not None)
                    a = amap.get(tp[0])
                    if a is None:
                        continue
                    T = eng.ev(a, f, st)
                    kinds |= binkind(ctx, T, st.facts)
    ctx.cache[key] = frozenset(kinds)
    return ctx.cache[key]


def _lr_info(ctx, f, st, t):
    """-> (role, kinds) when term t is the L/R component of a parse result or an L/R parameter."""
    parses = parse_terms(st)
    r, pt = role_of(t, parses)
    if r in ("L", "R"):
        return r, binkind(ctx, ("sub", pt, C(0)), st.facts)
    if t[0] == "p" and t[1] in ("left_child", "right_child") and "node_type" in f.params:
        ks = _param_kinds(ctx, f)
        T = ("p", "node_type")
        ks2 = binkind(ctx, T, st.facts)
        return ("L" if t[1] == "left_child" else "R"), (ks & ks2 if ks else ks2)
    return None, None


# ---------------------------------------------------------------------------
@rule("ABS3b", {"C12": {"mods": ["trie.binary"]}, "C13": {"mods": ["trie.branches"]}})
def abs3b(ctx, pid, mods):
    """Slot roles of parse_node results: the 2nd component is a key path only for KV nodes and a
    child hash only for BRANCH nodes; the 3rd is a child hash for KV/BRANCH and the value for LEAF."""
    eng = S(ctx)
    n_uses = 0
    reported = set()
    for f in util.all_functions(ctx, include_tools=False):
        if f.module.name not in mods:
            continue
        if not any(isinstance(n, ast.Call) and ast.unparse(n.func) == "parse_node" for n in walk_shallow(f.node)) \
                and "node_type" not in f.params:
            continue
        for p, st in pq.states(ctx, f):
            # replay the events of this state and look at uses
            for ev in st.events:
                uses = []  # (term, use kind, node)
                if ev.k == "call" and ev.a == "ok" and isinstance(ev.node, ast.Call):
                    tgs = ctx.R.resolve_call(ev.node, f, count=False)
                    tg = tgs[0]
                    if tg.kind == "def":
                        g = tg.func
                        amap = ctx.E.bind_args(ev.node, g, skip_self=g.cls is not None and not g.is_static)
                        for pn, a in amap.items():
                            t = eng.ev(a, f, st)
                            if pn in HASH_PARAMS:
                                uses.append((t, "hash", ev.node))
                            elif pn in ("keypath", "key_prefix"):
                                uses.append((t, "path", ev.node))
                    elif tg.kind == "ext" and tg.name == "len" and ev.node.args:
                        uses.append((eng.ev(ev.node.args[0], f, st), "path", ev.node))
                elif ev.k == "src" and ev.a == "ok" and isinstance(ev.node, ast.Subscript):
                    base = ev.node.value
                    if ctx.X.state_kind(base, f) in ("DB", "MAPPARAM"):
                        uses.append((eng.ev(ev.node.slice, f, st), "hash", ev.node))
                    elif isinstance(ev.node.slice, ast.Slice):
                        uses.append((eng.ev(base, f, st), "path", ev.node))
                elif ev.k == "return" and f.qual == BIN + "._get" and ev.node.value is not None:
                    uses.append((eng.ev(ev.node.value, f, st), "value", ev.node))
                for t, use, node in uses:
                    role, kinds = _lr_info(ctx, f, st, t)
                    if role is None:
                        continue
                    n_uses += 1
                    allowed = {("L", "path"): {"KV"}, ("L", "hash"): {"BRANCH"}, ("R", "hash"): {"KV", "BRANCH"},
                               ("R", "value"): {"LEAF"}, ("L", "value"): set(), ("R", "path"): set()}[(role, use)]
                    key = (f.qual, node.lineno, role, use)
                    if not kinds <= allowed and key not in reported:
                        reported.add(key)
                        ctx.bad("slot:%s:%s-as-%s" % (fkey(f), {"L": "second", "R": "third"}[role], use), f.loc(node),
                                "the %s component of a parsed node is used as a %s on a path where the node may be %s (allowed: %s)"
                                % ({"L": "second", "R": "third"}[role], {"hash": "child hash", "path": "key path", "value": "stored value"}[use],
                                   "/".join(sorted(kinds - allowed)), "/".join(sorted(allowed)) or "never"),
                                witness={"conditions": ["%s is %s" % (tstr(t_)[:80], pol) for t_, pol, _ in st.log][-6:]})
    mins = {"C12": 20, "C13": 15}
    ctx.expect_min("uses of parsed node components", n_uses, mins[pid], "descents, db lookups, key-path comparisons")
    if not reported:
        ctx.ok("slot-roles:%s" % ",".join(mods), "-", "all %d uses of parsed components respect the kv / branch / leaf layout" % n_uses)


# ---------------------------------------------------------------------------
def _walker_rows(ctx, f, hp, kp):
    """Decision table of a walker: {case: set(outcomes)}; plus descent records."""
    eng = S(ctx)
    K = consts(ctx)
    rows = {}
    descents = []
    hterm = ("p", hp)
    kterm = ("p", kp) if kp else None
    for p, st in pq.states(ctx, f, fork_returns=True):
        if p.cut:
            continue
        parses = parse_terms(st)
        # case
        if st.facts.eq.get(hterm) == K["BLANK_HASH"]:
            case = "BLANK"
        elif any(rel_norm_b(t, pol) == ("notin", hterm, ("p", "db")) or (t == ("cmp", "in", hterm, ("p", "db")) and pol is False) for t, pol, _ in st.log):
            case = "ABSENT"
        elif not parses:
            case = "PRE"
        else:
            pt = sorted(parses, key=str)[0]
            T = ("sub", pt, C(0))
            L = ("sub", pt, C(1))
            ks = binkind(ctx, T, st.facts)
            kind = next(iter(ks)) if len(ks) == 1 else "ANY(%s)" % "/".join(sorted(ks))
            case = kind
            if kterm is not None:
                lo, hi = eng.len_of(kterm, st.facts)
                if hi == 0:
                    case += ":empty"
                elif lo >= 1:
                    case += ":nonempty"
                else:
                    case += ":?"
                # prefix relations
                for t, pol, _ in st.log:
                    r = rel_norm_b(t, pol)
                    if r is None:
                        continue
                    op, a, b = r
                    if op in ("==", "!=") and {a, b} == {("slice", kterm, None, ("len", L)), L}:
                        case += ":match" if op == "==" else ":mismatch"
                    elif op in ("==", "!=") and {a, b} == {("slice", L, None, ("len", kterm)), kterm}:
                        case += ":short-match" if op == "==" else ":short-mismatch"
                    elif op in ("==", "!=") and {a, b} == {("slice", kterm, None, C(1)), C(K["BYTE_0"])}:
                        case += ":bit0" if op == "==" else ":bit1"
                    elif op in (">", ">=") and a == ("len", L) and b == ("len", kterm):
                        case += ":shorter" if op == ">" else ":not-longer"
                    elif op in (">", ">=") and a == ("len", kterm) and b == ("len", L):
                        case += ":longer" if op == ">" else ":not-shorter"
        # outcome: ordered actions
        acts = []
        node_term = None
        for ev in st.events:
            if ev.k == "yield":
                acts.append("yield")
            elif ev.k == "call" and ev.a == "ok" and isinstance(ev.node, ast.Call):
                tg = ctx.R.resolve_call(ev.node, f, count=False)[0]
                if tg.kind == "def" and (tg.func.qual in [w[0] for w in WALKERS] or tg.func.qual == "trie.branches:get_trie_nodes"):
                    g = tg.func
                    amap = ctx.E.bind_args(ev.node, g, skip_self=g.cls is not None)
                    ha = amap.get("node_hash")
                    ka = amap.get("keypath") or amap.get("key_prefix")
                    ht = eng.ev(ha, f, st) if ha is not None else None
                    ktm = eng.ev(ka, f, st) if ka is not None else None
                    role, _pt = role_of(ht, parses) if ht is not None else (None, None)
                    if ht == hterm:
                        role = "SELF"
                    res = "-"
                    if ktm is not None and kterm is not None and parses:
                        L = ("sub", sorted(parses, key=str)[0], C(1))
                        if ktm == ("slice", kterm, C(1), None):
                            res = "K[1:]"
                        elif ktm == ("slice", kterm, ("len", L), None):
                            res = "K[len(P):]"
                        elif ktm == kterm:
                            res = "K"
                        else:
                            res = "other(%s)" % tstr(ktm)[:30]
                    acts.append("%s:%s:%s" % ("descend" if ka is not None else "subtrie", role, res))
                    descents.append((case, role, res, ev.node, st))
        if case.startswith("ANY()"):
            continue  # every node kind excluded: infeasible
        if p.exit[0] == "raise":
            if pq.local_raise(p) is not None:
                acts.append("raise:" + p.exit[1].split(".")[-1])
            else:
                continue  # exception from a callee (db read, recursion): not a row of this walker
        elif p.exit[0] == "return":
            rv = st.ret
            if rv is None or rv == C(None):
                acts.append("end" if f.is_generator else "return")  # a generator's bare return is its end
            elif is_c(rv):
                acts.append("return:%r" % (rv[1],))
            else:
                role, _pt = role_of(rv, parses)
                if role:
                    acts.append("return:" + role)
                elif rv[0] == "call" and any(rv[1] == w[0] for w in WALKERS):
                    acts.append("return:rec")
                else:
                    acts.append("return:expr")
        else:
            acts.append("end" if f.is_generator else "return")
        rows.setdefault(case, set()).add(" ".join(acts))
    # a row that holds for several node kinds alike (`if nodetype not in (KV, BRANCH): raise` ... shared code)
    # is one row per kind
    for k in [k_ for k_ in rows if k_.startswith("ANY(") and ")" in k_]:
        members = k[4:k.index(")")].split("/")
        rest = k[k.index(")") + 1:]
        if members and all(m_ in ("LEAF", "KV", "BRANCH") for m_ in members) and not descents_any(descents, k):
            outs = rows.pop(k)
            for m_ in members:
                rows.setdefault(m_ + rest, set()).update(outs)
    return rows, descents


def descents_any(descents, case):
    return any(d[0] == case for d in descents)


# expected decision tables, confirmed by reading today's tree (section 3.8, SIB4)
EXPECT = {
    BIN + "._get": {
        "BLANK": {"return"},
        "LEAF:nonempty": {"return"}, "LEAF:empty": {"return:R"},
        "KV:empty": {"return"}, "KV:nonempty:match": {"descend:R:K[len(P):] return:rec"}, "KV:nonempty:mismatch": {"return"},
        "BRANCH:empty": {"return"}, "BRANCH:nonempty:bit0": {"descend:L:K[1:] return:rec"}, "BRANCH:nonempty:bit1": {"descend:R:K[1:] return:rec"},
    },
    "trie.branches:_check_if_branch_exist": {
        "BLANK": {"return:False"},
        "LEAF:nonempty": {"return:False"}, "LEAF:empty": {"return:True"},
        "KV:empty": {"return:True"},
        "KV:nonempty:shorter:short-match": {"return:True"}, "KV:nonempty:shorter:short-mismatch": {"return:False"},
        "KV:nonempty:not-shorter:match": {"descend:R:K[len(P):] return:rec"}, "KV:nonempty:not-shorter:mismatch": {"return:False"},
        "BRANCH:empty": {"return:True"}, "BRANCH:nonempty:bit0": {"descend:L:K[1:] return:rec"}, "BRANCH:nonempty:bit1": {"descend:R:K[1:] return:rec"},
    },
    "trie.branches:_get_branch": {
        "BLANK": {"end"},
        "LEAF:empty": {"yield end"}, "LEAF:nonempty": {"raise:InvalidKeyError"},
        "KV:empty": {"raise:InvalidKeyError"}, "KV:nonempty:match": {"yield descend:R:K[len(P):] end"}, "KV:nonempty:mismatch": {"yield end"},
        "BRANCH:empty": {"raise:InvalidKeyError"}, "BRANCH:nonempty:bit0": {"yield descend:L:K[1:] end"}, "BRANCH:nonempty:bit1": {"yield descend:R:K[1:] end"},
    },
    "trie.branches:_get_trie_nodes": {
        "ABSENT": {"end"},
        "KV": {"yield subtrie:R:- end"}, "BRANCH": {"yield subtrie:L:- subtrie:R:- end"}, "LEAF": {"yield end"},
    },
}


@rule("SIB4", {"C12": {"walkers": [BIN + "._get"]},
               "C13": {"walkers": [BIN + "._get", "trie.branches:_check_if_branch_exist", "trie.branches:_get_branch",
                                   "trie.branches:_get_witness_for_key_prefix", "trie.branches:_get_trie_nodes"]}})
def sib4(ctx, pid, walkers):
    """Walkers agree with BinaryTrie._get: descent into the kv child only under the prefix-equality
    test with residual K[len(P):]; branch child by the first bit (0 = left) with residual K[1:];
    the per-case decision table of each walker equals the confirmed table."""
    for q in walkers:
        f = ctx.P.func(q)
        hp, kp = [(w[1], w[2]) for w in WALKERS if w[0] == q][0]
        if hp not in f.params or (kp and kp not in f.params):
            ctx.unsure("table:%s" % fkey(f), f.loc(), "walker parameters renamed")
            continue
        rows, descents = _walker_rows(ctx, f, hp, kp)
        # 1. descent agreement (contradiction rule, independent of the tables)
        bad_desc = None
        n_desc = 0
        for case, role, res, node, st in descents:
            if res == "-":
                continue
            n_desc += 1
            parts = case.split(":")
            kind = parts[0]
            if kind == "KV":
                if role != "R" or res != "K[len(P):]" or "match" not in parts:
                    bad_desc = (node, "kv node: descent into %s with residual %s under case %s; the reference reader descends into the child only when key[:len(path)] == path, with residual key[len(path):]" % (role, res, case))
            elif kind == "BRANCH":
                want = {"bit0": "L", "bit1": "R"}
                bit = [x for x in parts if x in want]
                if res != "K[1:]" or not bit or want[bit[0]] != role:
                    bad_desc = (node, "branch node: descent into %s with residual %s under case %s; bit 0 selects the left child, residual is key[1:]" % (role, res, case))
            elif kind.startswith("ANY") or kind in ("LEAF", "PRE"):
                bad_desc = (node, "descent with a key residual on a path that does not fix the node kind (%s)" % case)
        c = "descent:%s" % fkey(f)
        if bad_desc:
            ctx.bad(c, f.loc(bad_desc[0]), bad_desc[1])
        else:
            ctx.ok(c, f.loc(), "all %d keyed descents follow the reference convention" % n_desc)
        # 2. decision table
        exp = EXPECT.get(q)
        c = "table:%s" % fkey(f)
        if exp is None:
            _witness_table(ctx, f, rows)
            continue
        diffs = []

        def toks(cs):
            return set(x for x in cs.split(":") if x != "?")
        covered = set()
        for case, outs in exp.items():
            # a row that does not test a dimension applies to every value of it
            got = set()
            for rc, ro in rows.items():
                if toks(rc) <= toks(case) and rc.split(":")[0] == case.split(":")[0]:
                    got |= ro
                    covered.add(rc)
            got = got or None
            if got is None:
                diffs.append("case %s is not handled (expected %s)" % (case, "/".join(sorted(outs))))
            elif got != outs:
                diffs.append("case %s: %s, expected %s" % (case, "/".join(sorted(got)), "/".join(sorted(outs))))
        extra = [c_ for c_ in rows if c_ not in covered and not c_.startswith(("PRE",))]
        for c_ in extra:
            diffs.append("unexpected case %s -> %s" % (c_, "/".join(sorted(rows[c_]))))
        if diffs:
            interpretable = all(not d.startswith("unexpected case ANY") and ":?" not in d for d in diffs)
            if interpretable:
                ctx.bad(c, f.loc(), diffs[0], witness={"differences": diffs, "table": {k: sorted(v) for k, v in rows.items()}})
            else:
                ctx.unsure(c, f.loc(), "walker has a shape the table extractor does not interpret: %s" % diffs[0])
        else:
            ctx.ok(c, f.loc(), "decision table (%d cases) equals the confirmed table" % len(exp))


def _witness_table(ctx, f, rows):
    """_get_witness_for_key_prefix: cross-check against _get_branch on the shared cases."""
    c = "table:%s" % fkey(f)
    problems = []

    def outs(prefix):
        r = set()
        for k, v in rows.items():
            if k.startswith(prefix):
                r |= v
        return r
    leaf_ne = outs("LEAF:nonempty")
    if not leaf_ne or any(not o.endswith("raise:InvalidKeyError") for o in leaf_ne):
        problems.append("a prefix running past a leaf is not refused with InvalidKeyError (sibling _get_branch refuses it): %s" % sorted(leaf_ne))
    kvm = {k: v for k, v in rows.items() if k.startswith("KV") and "match" in k.split(":")}
    if not kvm or any("yield descend:R:K[len(P):]" not in " ".join(v) for v in kvm.values()):
        problems.append("kv node with matching path: expected `yield node` then descent into the child with K[len(P):]: %s" % {k: sorted(v) for k, v in kvm.items()})
    short = {k: v for k, v in rows.items() if "short-match" in k.split(":") and "shorter" in k.split(":")}
    if not short or any("yield subtrie:R:-" not in " ".join(v) for v in short.values()):
        problems.append("prefix ending inside a kv path must yield the node and its whole subtrie: %s" % {k: sorted(v) for k, v in short.items()})
    for bit, role in (("bit0", "L"), ("bit1", "R")):
        br = {k: v for k, v in rows.items() if k.startswith("BRANCH") and bit in k}
        if not br or any("yield descend:%s:K[1:]" % role not in " ".join(v) for v in br.values()):
            problems.append("branch node %s: expected `yield node` then descent into %s with K[1:]: %s" % (bit, role, {k: sorted(v) for k, v in br.items()}))
    # the node the walk stands on belongs to the witness whatever the comparison says: a reader of the witness
    # has to load it to find out that the key diverges
    for k, v in sorted(rows.items()):
        kind = k.split(":")[0]
        if kind not in ("KV", "BRANCH"):
            continue
        for o in sorted(v):
            a = o.split()
            if a and a[0].startswith("raise"):
                continue
            if not (a and (a[0] == "yield" or (a[0] == "subtrie:SELF:-" and "empty" in k.split(":")))):
                problems.append("case %s ends with `%s`: the %s node reached by the walk is not part of the witness (sibling _get_branch yields the node before it compares)" % (k, o, kind.lower()))
    if problems:
        ctx.bad(c, f.loc(), problems[0], witness={"problems": problems, "table": {k: sorted(v) for k, v in rows.items()}})
    else:
        ctx.ok(c, f.loc(), "witness walker agrees with _get_branch on leaf refusal, kv descent, in-path subtrie and branch bit (%d cases)" % len(rows))


# ---------------------------------------------------------------------------
@rule("TS6", ["C13"])
def ts6(ctx, pid):
    """The current node is yielded before every descent that passes one of its children."""
    eng = S(ctx)
    n = 0
    for q in ("trie.branches:_get_branch", "trie.branches:_get_witness_for_key_prefix", "trie.branches:_get_trie_nodes"):
        f = ctx.P.func(q)
        bad = None
        cnt = 0
        for p, st in pq.states(ctx, f):
            parses = parse_terms(st)
            yielded = set()
            for ev in st.events:
                if ev.k == "yield" and ev.node.value is not None:
                    yielded.add(eng.ev(ev.node.value, f, st))
                elif ev.k == "yieldfrom":
                    call = ev.node.value
                    if not isinstance(call, ast.Call):
                        continue
                    args = [eng.ev(a, f, st) for a in call.args]
                    child = [a for a in args if role_of(a, parses)[0] in ("L", "R")]
                    if not child:
                        continue  # passes its own hash on: the callee yields it first
                    cnt += 1
                    pt = role_of(child[0], parses)[1]
                    node_t = pt[2][0] if pt[2] else None
                    if node_t not in yielded:
                        bad = bad or (call, "descent into a child at line %d is not preceded by `yield node`" % call.lineno)
            # leaf reached with empty key must be yielded by the branch walker
        n += cnt
        c = "yield-before-descent:%s" % fkey(f)
        if bad:
            ctx.bad(c, f.loc(bad[0]), bad[1])
        else:
            ctx.ok(c, f.loc(), "the node is yielded before each of the %d child descents" % cnt)
    ctx.expect_min("child descents in the yielding walkers", n, 8, "3 in _get_branch, 3+ in the witness walker, 3 in _get_trie_nodes")
    # PROV3: only db-loaded values are yielded
    for q in ("trie.branches:_get_branch", "trie.branches:_get_witness_for_key_prefix", "trie.branches:_get_trie_nodes"):
        f = ctx.P.func(q)
        vals = set()
        for p, st in pq.states(ctx, f):
            for ev in st.events:
                if ev.k == "yield" and ev.node.value is not None:
                    vals.add(eng.ev(ev.node.value, f, st))
        bad = [v for v in vals if not (v[0] == "sub" and v[1] == ("p", "db") and v[2] == ("p", "node_hash"))]
        c = "yields-db-values:%s" % fkey(f)
        if bad:
            ctx.bad(c, f.loc(), "yields `%s`, which is not db[node_hash]" % tstr(bad[0])[:50], rule="PROV3")
        elif vals:
            ctx.ok(c, f.loc(), "every yielded value is db[node_hash]", rule="PROV3")
    # if_branch_valid: the validating read dominates `return True`
    f = ctx.P.func("trie.branches:if_branch_valid")
    ok = True
    n_ret = 0
    why = ""
    for p, st in pq.states(ctx, f):
        if p.exit[0] != "return":
            continue
        n_ret += 1
        checked = False
        nonempty = False
        for t, pol, node in st.log + st.alog:
            r = rel_norm_b(t, pol)
            if r and r[0] == "==" and any(x[0] == "call" and x[1] == BIN + ".get" for x in (r[1], r[2])):
                other = r[2] if r[1][0] == "call" and r[1][1] == BIN + ".get" else r[1]
                getc = r[1] if other is r[2] else r[2]
                recv = getc[2][0]
                good_recv = recv[0] == "call" and recv[1] == "ctor:" + BIN
                if other == ("p", "value") and good_recv and getc[2][1] == ("p", "key"):
                    # the trie is built over {keccak(n): n for n in branch} at the claimed root
                    kws = dict(recv[3])
                    if kws.get("root_hash", recv[2][1] if len(recv[2]) > 1 else None) == ("p", "root_hash"):
                        checked = True
            tt, pp = truth_norm(t, pol)
            if tt == ("p", "branch") and pp is True:
                nonempty = True
        if not checked:
            ok = False
            why = "a path returns True without asserting BinaryTrie(db, root_hash).get(key) == value"
        elif not nonempty:
            ok = False
            why = "a path returns True without requiring a non-empty branch"
    # the only refusals are: empty branch, malformed node (validator), wrong answer at the root
    extra = None
    for p, st in pq.states(ctx, f):
        if p.exit[0] != "raise" or p.exit[1] != "AssertionError" or pq.local_raise(p) is None:
            continue
        last = st.alog[-1] if st.alog else (st.log[-1] if st.log else None)
        if last is None:
            continue
        tt, pp = truth_norm(last[0], last[1])
        r = rel_norm_b(last[0], last[1])
        known = (tt == ("p", "branch") and pp is False) or (r is not None and r[0] == "!=" and any(
            x[0] == "call" and x[1] == BIN + ".get" for x in (r[1], r[2])))
        if not known:
            extra = extra or (last[2], tstr(tt)[:70])
    if extra:
        ctx.unsure("refusals:if_branch_valid", f.loc(extra[0]), "if_branch_valid has an additional refusal `%s` that the rule cannot show to be implied by a genuine branch (it may reject valid proofs)" % extra[1])
    else:
        ctx.ok("refusals:if_branch_valid", f.loc(), "a branch is refused only when it is empty, holds a malformed node, or does not give the claimed answer at the claimed root")
    c = "verdict-dominated:if_branch_valid"
    if n_ret == 0:
        ctx.bad(c, f.loc(), "if_branch_valid never returns")
    elif ok:
        ctx.ok(c, f.loc(), "every `return True` is dominated by the non-empty check and by get(key) == value at the claimed root")
    else:
        ctx.bad(c, f.loc(), why)


# ---------------------------------------------------------------------------
@rule("TS7", ["C12"])
def ts7(ctx, pid):
    """Canonical shape: the child of every kv node that is built is known not to be a kv node
    (no kv->kv chain); a whole subtree is erased only under if_delete_subtrie."""
    eng = S(ctx)
    K = consts(ctx)
    n_sites = 0
    bad = {}
    for f in util.class_functions(ctx, BIN):
        for p, st in pq.states(ctx, f):
            parses = parse_terms(st)
            for ev in st.events:
                if ev.k != "call" or ev.a != "ok" or not isinstance(ev.node, ast.Call):
                    continue
                tg = ctx.R.resolve_call(ev.node, f, count=False)[0]
                if tg.kind != "def" or tg.func.qual != ENC_KV or len(ev.node.args) < 2:
                    continue
                n_sites += 1
                child = eng.ev(ev.node.args[1], f, st)
                ok, why = _child_not_kv(ctx, f, st, child, parses)
                if not ok:
                    bad.setdefault((f.qual, ev.node.lineno), (f, ev.node, why))
    ctx.expect_min("encode_kv_node call sites on paths", n_sites, 8, "blank arm, compress arms, split arms")
    if bad:
        for (q, ln), (f, node, why) in sorted(bad.items()):
            ctx.bad("kv-child:%s:%s" % (fkey(f), util.norm_src(node)[:50]), f.loc(node), why)
    else:
        ctx.ok("kv-child:BinaryTrie", "trie/binary.py", "the child of every constructed kv node is a fresh branch/leaf, the child of a parsed kv node, or a hash parsed as branch/leaf on that path")
    # TS8 subtree erasure
    viol = None
    n_blank = 0
    for name in ("_set", "_set_kv_node", "_set_branch_node"):
        f = ctx.P.func(BIN + "." + name)
        ids = "if_delete_subtrie"
        for p, st in pq.states(ctx, f):
            if p.exit[0] != "return" or st.ret != C(K["BLANK_HASH"]):
                continue
            n_blank += 1
            parses = parse_terms(st)
            ok = False
            log = [(truth_norm(t, pol)) for t, pol, _ in st.log]
            if (("p", ids), True) in log:
                ok = True
            if st.facts.eq.get(("p", "node_hash")) == K["BLANK_HASH"] and name == "_set":
                ok = True
            for pt in parses:
                if binkind(ctx, ("sub", pt, C(0)), st.facts) == frozenset(["LEAF"]):
                    ok = True
            for t, v in st.facts.eq.items():
                if v == K["BLANK_HASH"] and t[0] == "call" and t[1] == BIN + "._set":
                    ok = True  # the child subtree became empty
            if not ok:
                viol = viol or (f, p.exit[1], [(tstr(t)[:60], pol) for t, pol in log][-5:])
    c = "subtree-erasure:BinaryTrie._set"
    if viol:
        f, node, conds = viol
        ctx.bad(c, f.loc(node), "a non-leaf subtree is replaced by the blank hash on a path that neither assumes if_delete_subtrie nor an emptied child: %s" % conds,
                rule="TS8", witness={"conditions": conds})
    else:
        ctx.ok(c, "trie/binary.py", "all %d blank-hash returns are under if_delete_subtrie, a leaf, a blank node or an emptied child" % n_blank, rule="TS8")
    ctx.expect_min("blank-hash return paths", n_blank, 6, "blank arm, leaf arm, key-exhausted arms, emptied child")


def _child_not_kv(ctx, f, st, child, parses):
    # fresh branch / leaf
    if child[0] == "call" and child[1] == BIN + "._hash_and_save" and len(child[2]) == 2:
        inner = child[2][1]
        if inner[0] == "call" and inner[1] in (ENC_BR, ENC_LF):
            return True, ""
        return False, "child is a freshly stored `%s`, which may be a kv node" % tstr(inner)[:40]
    role, pt = role_of(child, parses)
    if role == "R":
        ks = binkind(ctx, ("sub", pt, C(0)), st.facts)
        if ks == frozenset(["KV"]):
            return True, ""  # child of a parsed kv node (canonical input, A2)
        return False, "third component of a parsed node used as kv child while the node may be %s" % "/".join(sorted(ks))
    if child == ("p", "right_child") and "node_type" in f.params:
        return True, ""  # child of the kv node being rewritten
    # a hash whose parse on this path fixed a non-kv kind
    for pt in parses:
        dbsub = pt[2][0] if pt[2] else None
        if dbsub is not None and dbsub[0] == "sub" and dbsub[2] == child:
            ks = binkind(ctx, ("sub", pt, C(0)), st.facts)
            if "KV" not in ks:
                return True, ""
            return False, "child hash was parsed on this path and may be a kv node (kv -> kv chain; the two paths must be merged)"
        if dbsub is not None and dbsub[0] == "sub" and dbsub[2][0] == "ite":
            # db[a if c else b]: the chosen hash
            ks = binkind(ctx, ("sub", pt, C(0)), st.facts)
            if child[0] == "ite" and child[2:] == dbsub[2][2:]:
                if "KV" not in ks:
                    return True, ""
                return False, "child hash was parsed on this path and may be a kv node (kv -> kv chain; the two paths must be merged)"
    return False, "cannot establish that the child `%s` is not a kv node" % tstr(child)[:50]


# ---------------------------------------------------------------------------
@rule("ROUTE2", ["C12"])
def route2(ctx, pid):
    """delete is _set(root, key, b''); delete_subtrie additionally passes if_delete_subtrie=True; set passes the value."""
    eng = S(ctx)
    c = ctx.P.cls(BIN)
    setf = c.methods["_set"]
    want = {
        "set": {"value": ("p", "value"), "if_delete_subtrie": C(False)},
        "delete": {"value": C(b""), "if_delete_subtrie": C(False)},
        "delete_subtrie": {"value": C(b""), "if_delete_subtrie": C(True)},
    }
    for name, w in want.items():
        f = c.methods.get(name)
        if f is None:
            raise AnalysisError("anchor vanished: BinaryTrie.%s" % name)
        calls = [n for n in walk_shallow(f.node) if isinstance(n, ast.Call) and any(t.kind == "def" and t.func is setf for t in ctx.R.resolve_call(n, f, count=False))]
        cst = "route:%s" % fkey(f)
        if len(calls) != 1:
            ctx.bad(cst, f.loc(), "expected exactly one call of _set, found %d" % len(calls))
            continue
        amap = ctx.E.bind_args(calls[0], setf, skip_self=True)
        # the arguments as evaluated on the paths that reach the call (locals holding the encoded key etc.)
        gots = []
        for p_, st_ in pq.states(ctx, f):
            evs = [ev for ev in st_.events if ev.k == "call" and ev.node is calls[0]]
            if not evs:
                continue
            ct = st_.cterms.get(id(calls[0]))
            if ct is None or ct[0] != "call" or len(ct[2]) < 1:
                continue
            pos = list(ct[2][1:])
            kws = dict(ct[3]) if len(ct) > 3 and ct[3] else {}
            g_ = {}
            for i_, pn in enumerate(("node_hash", "keypath", "value", "if_delete_subtrie")):
                if i_ < len(pos):
                    g_[pn] = pos[i_]
                elif pn in kws:
                    g_[pn] = kws[pn]
                else:
                    d = setf.defaults().get(pn)
                    g_[pn] = eng.ev(d, setf, __import__("pta.sym", fromlist=["State"]).State()) if d is not None else None
            if g_ not in gots:
                gots.append(g_)
        if len(gots) != 1:
            ctx.unsure(cst, f.loc(calls[0]), "the arguments of _set differ between paths (%d forms)" % len(gots))
            continue
        got = gots[0]
        probs = []
        if got["node_hash"] != ("attr", ("self",), "root_hash"):
            probs.append("starts at `%s`, not at self.root_hash" % tstr(got["node_hash"]))
        if got["keypath"] != ("call", "trie.utils.binaries:encode_to_bin", (("p", "key"),), ()):
            probs.append("key path is `%s`, not encode_to_bin(key)" % tstr(got["keypath"]))
        for pn, wv in w.items():
            if got[pn] != wv:
                probs.append("%s is `%s`, expected `%s`" % (pn, tstr(got[pn]), tstr(wv)))
        # result assigned to the root
        stores = [e for e in ctx.E.primitives(f) if e.op == "SET" and e.state == "ROOT" and e.value is calls[0]]
        if not stores:
            probs.append("the result of _set is not assigned to self.root_hash")
        if probs:
            ctx.bad(cst, f.loc(calls[0]), probs[0])
        else:
            ctx.ok(cst, f.loc(calls[0]), "self.root_hash = self._set(self.root_hash, encode_to_bin(key), %s, if_delete_subtrie=%s)" % (tstr(w["value"]), tstr(w["if_delete_subtrie"])))
    # get is _get(root, encode_to_bin(key))
    f = c.methods.get("get")
    getf = c.methods.get("_get")
    if f is None or getf is None:
        raise AnalysisError("anchor vanished: BinaryTrie.get / _get")
    rets = pq.rets(ctx, f)
    w = ("call", BIN + "._get", (("self",), ("attr", ("self",), "root_hash"), ("call", "trie.utils.binaries:encode_to_bin", (("p", f.params[1]),), ())), ())
    if rets == {w}:
        ctx.ok("route:BinaryTrie.get", f.loc(), "get(key) is _get(self.root_hash, encode_to_bin(key))")
    else:
        ctx.bad("route:BinaryTrie.get", f.loc(), "get returns `%s`, expected _get(self.root_hash, encode_to_bin(key))" % "; ".join(tstr(r)[:70] for r in rets))
    # exists is `get(key) is not None`
    f = c.methods["exists"]
    rets = set()
    for p, st in pq.states(ctx, f):
        if p.exit[0] == "return" and st.ret is not None:
            rets.add(st.ret)
    gk = ("call", BIN + ".get", (("self",), ("p", "key")), ())
    tab = pq.bool_table(ctx, f)
    if tab is not None and tab == {(frozenset({("isnot", gk, C(None))}), True), (frozenset({("is", gk, C(None))}), False)}:
        ctx.ok("exists:BinaryTrie.exists", f.loc(), "exists(key) is get(key) is not None", rule="SIB1")
    else:
        ctx.bad("exists:BinaryTrie.exists", f.loc(), "exists returns `%s`" % "; ".join(tstr(r) for r in rets), rule="SIB1")


@rule("LIVE", ["C12"])
def live(ctx, pid):
    """Every refusal (raise NodeOverrideError) is reachable: a dead refusal means a conflicting key is silently accepted.
    Every dispatch on the node type is exhaustive (no implicit None)."""
    eng = S(ctx)
    n = 0
    cases = set()
    for f in util.class_functions(ctx, BIN):
        raises = [r for r in walk_shallow(f.node) if isinstance(r, ast.Raise) and r.exc is not None and "NodeOverrideError" in ctx.R.exc_name(r.exc, f)]
        if not raises:
            continue
        alive = set()
        for p, st in pq.states(ctx, f):
            lr = pq.local_raise(p)
            if lr is not None:
                alive.add(lr.lineno)
                if "NodeOverrideError" in p.exit[1]:
                    # refusal cases are counted per node kind, not per raise statement: two arms merged into one
                    # site that serves both kinds are still two cases
                    ks = set()
                    for pt in parse_terms(st):
                        ks |= binkind(ctx, ("sub", pt, C(0)), st.facts)
                    for k_ in (ks or {"-"}):
                        cases.add((f.qual, k_))
        for i, r in enumerate(sorted(raises, key=lambda r: r.lineno)):
            n += 1
            c = "refusal-live:%s#%d" % (fkey(f), i)
            if r.lineno in alive:
                ctx.ok(c, f.loc(r), "the refusal is reachable under its path conditions")
            else:
                ctx.bad(c, f.loc(r), "this NodeOverrideError can never be raised: the conditions leading to it contradict each other (a conflicting key is accepted instead)")
    ctx.expect_min("NodeOverrideError sites", len(cases), 4, "leaf arm, kv arm, branch arm of _set; split arm of _set_kv_node (%d raise statements)" % n)
    # ABS2b: the dispatch of _get / _set is exhaustive
    K = consts(ctx)
    for name in ("_set",):
        f = ctx.P.func(BIN + "." + name)
        bad = None
        for p, st in pq.states(ctx, f):
            if p.exit[0] == "fall" and not p.cut:
                parses = parse_terms(st)
                ks = set()
                for pt in parses:
                    ks |= binkind(ctx, ("sub", pt, C(0)), st.facts)
                if ks or not parses:
                    bad = (p, ks)
            if p.exit[0] == "raise" and p.exit[1] == "Exception" and pq.local_raise(p) is not None:
                parses = parse_terms(st)
                ks = set()
                for pt in parses:
                    ks |= binkind(ctx, ("sub", pt, C(0)), st.facts)
                if ks:
                    bad = (p, ks)
        c = "dispatch-exhaustive:%s" % fkey(f)
        if bad:
            ctx.bad(c, f.loc(), "a %s node falls through the type dispatch (implicit None / invariant raise)" % "/".join(sorted(bad[1])) if bad[1] else "a path falls off the end before any node was parsed", rule="ABS2")
        else:
            ctx.ok(c, f.loc(), "kv, branch and leaf are all handled; the fall-through is infeasible", rule="ABS2")


# ---------------------------------------------------------------------------
@rule("ABS4b", ["C12"])
def abs4b(ctx, pid):
    """Key-consumption conservation in the update path of the binary trie: split offsets share the
    common-prefix length c (selector K[c:c+1], new tail K[c+1:], old tail P[c+1:], kept head P[:c]);
    recursion consumes exactly the matched prefix / one bit; bit 1 means right at every site."""
    eng = S(ctx)
    K_ = consts(ctx)
    B0, B1, BLANK = C(K_["BYTE_0"]), C(K_["BYTE_1"]), C(K_["BLANK_HASH"])
    f = ctx.P.func(BIN + "._set_kv_node")
    K, P, R = ("p", "keypath"), ("p", "left_child"), ("p", "right_child")
    problems = []
    n_checked = 0
    seen = {"newtail": 0, "oldtail": 0, "head": 0, "selector": 0, "rec": 0, "order": 0}
    for p, st in pq.states(ctx, f):
        cterm = None
        for v in st.env.values():
            if isinstance(v, tuple) and v and v[0] == "call" and v[1] == "trie.utils.nodes:get_common_prefix_length":
                cterm = v
        c1 = ("bin", "+", cterm, C(1)) if cterm else None
        sel_pol = None
        for t, pol, node in st.log:
            r = rel_norm_b(t, pol)
            if r and r[0] in ("==", "!=") and r[2] in (B0, B1) and r[1][0] == "slice" and r[1][1] == K and cterm is not None:
                seen["selector"] += 1
                n_checked += 1
                if (r[1][2], r[1][3]) != (cterm, c1):
                    problems.append((node, "the diverging bit is read as `%s`, expected keypath[c:c+1]" % tstr(r[1])[:50]))
                is1 = (r[2] == B1) == (r[0] == "==")
                sel_pol = is1
        for ev in st.events:
            if ev.k != "call" or ev.a != "ok" or not isinstance(ev.node, ast.Call):
                continue
            tg = ctx.R.resolve_call(ev.node, f, count=False)[0]
            if tg.kind != "def":
                continue
            args = [eng.ev(a, f, st) for a in ev.node.args]
            if tg.func.qual == ENC_KV and args:
                a = args[0]
                if a[0] == "slice" and a[1] == K:
                    seen["newtail"] += 1
                    n_checked += 1
                    if (a[2], a[3]) != (c1, None):
                        problems.append((ev.node, "the new key's tail is `%s`, expected keypath[c+1:]" % tstr(a)[:50]))
                elif a[0] == "slice" and a[1] == P and a[2] is not None:
                    seen["oldtail"] += 1
                    n_checked += 1
                    if (a[2], a[3]) != (c1, None):
                        problems.append((ev.node, "the old path's tail is `%s`, expected left_child[c+1:]" % tstr(a)[:50]))
                    if len(args) > 1 and args[1] != R:
                        problems.append((ev.node, "the old tail does not keep the old child"))
                elif a[0] == "slice" and a[1] == P:
                    seen["head"] += 1
                    n_checked += 1
                    if (a[2], a[3]) != (None, cterm):
                        problems.append((ev.node, "the kept head is `%s`, expected left_child[:c]" % tstr(a)[:50]))
            elif tg.func.qual == BIN + "._set":
                seen["rec"] += 1
                n_checked += 1
                if len(args) < 2 or args[0] != R or args[1] != ("slice", K, ("len", P), None):
                    problems.append((ev.node, "recursion passes (%s), expected (right_child, keypath[len(left_child):])" % ", ".join(tstr(x)[:30] for x in args[:2])))
                if not any(rel_norm_b(t, pol) in (("==", ("slice", K, None, ("len", P)), P), ("==", P, ("slice", K, None, ("len", P)))) for t, pol, _ in st.log):
                    problems.append((ev.node, "recursion into the child without keypath[:len(left_child)] == left_child"))
            elif tg.func.qual == ENC_BR and len(args) == 2 and sel_pol is not None:
                seen["order"] += 1
                n_checked += 1
                # new value's bit 1 -> new node is the right child
                def is_new(t):
                    s_ = tstr(t)
                    return "value" in s_
                new_right = is_new(args[1]) and not is_new(args[0])
                new_left = is_new(args[0]) and not is_new(args[1])
                if (sel_pol and not new_right) or (not sel_pol and not new_left):
                    problems.append((ev.node, "branch children are (%s) when the new key's bit is %d; bit 1 must select the right child" % ("new, old" if new_left else "old, new", 1 if sel_pol else 0)))
    c = "split-offsets:BinaryTrie._set_kv_node"
    if problems:
        node, why = problems[0]
        ctx.bad(c, f.loc(node), why, witness={"problems": sorted({w for _, w in problems})})
    elif not all(seen.values()):
        ctx.bad(c, f.loc(), "a component of the split is missing: %s" % {k: v for k, v in seen.items() if not v})
    else:
        ctx.ok(c, f.loc(), "selector keypath[c:c+1], new tail keypath[c+1:], old tail left_child[c+1:], kept head left_child[:c], bit 1 = right (%d site occurrences)" % n_checked)
    # _set_branch_node
    g = ctx.P.func(BIN + "._set_branch_node")
    L, R = ("p", "left_child"), ("p", "right_child")
    problems = []
    n = 0
    for p, st in pq.states(ctx, g):
        bit0 = None
        for t, pol, node in st.log:
            r = rel_norm_b(t, pol)
            if r and r[0] in ("==", "!=") and r[1] == ("slice", K, None, C(1)) and r[2] in (B0, B1):
                bit0 = (r[2] == B0) == (r[0] == "==")
        for ev in st.events:
            if ev.k == "call" and ev.a == "ok" and isinstance(ev.node, ast.Call):
                tg = ctx.R.resolve_call(ev.node, g, count=False)[0]
                if tg.kind == "def" and tg.func.qual == BIN + "._set":
                    n += 1
                    args = [eng.ev(a, g, st) for a in ev.node.args]
                    want = L if bit0 else R
                    if bit0 is None or args[0] != want or args[1] != ("slice", K, C(1), None):
                        problems.append((ev.node, "recursion into `%s` with `%s` when the first bit is %s; bit 0 selects the left child, residual keypath[1:]"
                                         % (tstr(args[0]), tstr(args[1])[:30], "unknown" if bit0 is None else ("0" if bit0 else "1"))))
        # locals identified by role, not by name: the collapse bit is the local whose value is one of the
        # two bit constants; the new children are the arguments of encode_branch_node(left, right)
        fbs = [v for k_, v in st.env.items() if k_ not in g.params and v in (B0, B1)]
        fb = fbs[0] if fbs else None
        if fb is None:
            ites = [v for k_, v in st.env.items() if k_ not in g.params and isinstance(v, tuple) and v and v[0] == "ite"]
            fb = ites[0] if ites else None
        nln = nrn = None
        for c_ in walk_shallow(g.node):
            if isinstance(c_, ast.Call) and ast.unparse(c_.func) == "encode_branch_node" and len(c_.args) == 2 and all(isinstance(a, ast.Name) for a in c_.args):
                nln, nrn = c_.args[0].id, c_.args[1].id
        if fb is not None and fb in (B0, B1):
            n += 1
            nr, nl = st.env.get(nrn), st.env.get(nln)
            blank = K_["BLANK_HASH"]
            right_alive = None
            if nr is not None and st.facts.eq.get(nr) == blank or nr == BLANK:
                right_alive = False
            elif nr is not None and blank in st.facts.ne.get(nr, ()):
                right_alive = True
            elif nl is not None and (st.facts.eq.get(nl) == blank or nl == BLANK):
                right_alive = True
            elif nl is not None and blank in st.facts.ne.get(nl, ()):
                right_alive = False
            if right_alive is None:
                problems.append((g.node, "the collapse bit is chosen on a path that does not say which child survives"))
            elif (fb == B1) != right_alive:
                problems.append((g.node, "the bit prepended when a branch collapses is %s although the %s child survives (right child alive => bit 1)"
                                 % (tstr(fb), "right" if right_alive else "left")))
        elif fb is not None:
            problems.append((g.node, "cannot interpret how the collapse bit is chosen: `%s`" % tstr(fb)[:60]))
    c = "branch-bits:BinaryTrie._set_branch_node"
    concrete = [x for x in problems if not x[1].startswith("cannot interpret")]
    if concrete:
        node, why = concrete[0]
        ctx.bad(c, g.loc(node), why)
    elif problems:
        node, why = problems[0]
        ctx.unsure(c, g.loc(node), why)
    elif n < 3:
        ctx.bad(c, g.loc(), "recursions / collapse bit not found")
    else:
        ctx.ok(c, g.loc(), "bit 0 -> left child with keypath[1:]; collapse prepends bit 1 iff the right child survives")


@rule("SETTAB", ["C12"])
def settab(ctx, pid):
    """Decision table of the BinaryTrie._set dispatcher: which (node kind, key exhausted?, mode) combinations
    are refused with NodeOverrideError, erased, stored or handed to the kv / branch handlers."""
    eng = S(ctx)
    K_ = consts(ctx)
    f = ctx.P.func(BIN + "._set")
    hterm, kterm = ("p", "node_hash"), ("p", "keypath")
    val, ids = ("p", "value"), ("p", "if_delete_subtrie")
    rows = {}
    for p, st in pq.states(ctx, f):
        if p.cut:
            continue
        parses = parse_terms(st)
        if st.facts.eq.get(hterm) == K_["BLANK_HASH"]:
            kind = "BLANK"
        elif not parses:
            continue
        else:
            ks = binkind(ctx, ("sub", sorted(parses, key=str)[0], C(0)), st.facts)
            if not ks:
                continue
            kind = next(iter(ks)) if len(ks) == 1 else "ANY(%s)" % "/".join(sorted(ks))
        lo, hi = eng.len_of(kterm, st.facts)
        key = "empty" if hi == 0 else "nonempty" if lo >= 1 else "any"
        log = dict((truth_norm(t, pol)[0], truth_norm(t, pol)[1]) for t, pol, _ in st.log)
        vflag = log.get(val)
        dflag = log.get(ids)
        case = "%s:key-%s:value-%s:subtrie-%s" % (kind, key, {True: "set", False: "empty", None: "any"}[vflag], {True: "yes", False: "no", None: "any"}[dflag])
        lr = pq.local_raise(p)
        if lr is not None:
            out = "raise " + p.exit[1].split(".")[-1]
        elif p.exit[0] == "raise":
            continue
        elif p.exit[0] == "return":
            r = st.ret
            if r == C(K_["BLANK_HASH"]):
                out = "blank"
            elif r[0] == "call" and r[1] == BIN + "._set_kv_node":
                out = "kv-handler"
            elif r[0] == "call" and r[1] == BIN + "._set_branch_node":
                out = "branch-handler"
            elif r[0] == "call" and r[1] == BIN + "._hash_and_save":
                inner = r[2][1]
                if inner[0] == "call" and inner[1] == ENC_LF and inner[2] == (val,):
                    out = "store leaf(value)"
                elif inner[0] == "call" and inner[1] == ENC_KV and inner[2][0] == kterm and inner[2][1] == ("call", BIN + "._hash_and_save", (("self",), ("call", ENC_LF, (val,), ())), ()):
                    out = "store kv(keypath, leaf(value))"
                else:
                    out = "store " + tstr(inner)[:40]
            else:
                out = "return " + tstr(r)[:40]
        else:
            out = "fall"
        rows.setdefault(case, set()).add(out)
    want = {
        "BLANK:key-any:value-set:subtrie-any": {"store kv(keypath, leaf(value))"},
        "BLANK:key-any:value-empty:subtrie-any": {"blank"},
        "LEAF:key-nonempty:value-any:subtrie-any": {"raise NodeOverrideError"},
        "LEAF:key-empty:value-any:subtrie-yes": {"blank"},
        "LEAF:key-empty:value-set:subtrie-no": {"store leaf(value)"},
        "LEAF:key-empty:value-empty:subtrie-no": {"blank"},
        "KV:key-empty:value-any:subtrie-yes": {"blank"},
        "KV:key-empty:value-any:subtrie-no": {"raise NodeOverrideError"},
        "KV:key-nonempty:value-any:subtrie-any": {"kv-handler"},
        "BRANCH:key-empty:value-any:subtrie-yes": {"blank"},
        "BRANCH:key-empty:value-any:subtrie-no": {"raise NodeOverrideError"},
        "BRANCH:key-nonempty:value-any:subtrie-any": {"branch-handler"},
    }
    c = "table:BinaryTrie._set"
    if rows == want:
        ctx.ok(c, f.loc(), "12 cases: conflicts refused with NodeOverrideError, erasure only for leaf/blank or in subtrie mode, otherwise the kv / branch handler")
    else:
        diffs = []
        for k in sorted(set(rows) | set(want)):
            if rows.get(k) != want.get(k):
                diffs.append("%s: %s, expected %s" % (k, sorted(rows.get(k, [])), sorted(want.get(k, []))))
        interp = all("ANY(" not in d for d in diffs)
        (ctx.bad if interp else ctx.unsure)(c, f.loc(), "dispatcher table differs: " + diffs[0], **({"witness": {"differences": diffs}} if interp else {}))
    # handler arguments are passed in the handlers' parameter order
    for hname in ("_set_kv_node", "_set_branch_node"):
        h = ctx.P.func(BIN + "." + hname)
        bad = None
        for p, st in pq.states(ctx, f):
            if p.exit[0] == "return" and st.ret is not None and st.ret[0] == "call" and st.ret[1] == h.qual:
                parses = parse_terms(st)
                pt = sorted(parses, key=str)[0]
                wantmap = {"keypath": kterm, "node_hash": hterm, "node_type": ("sub", pt, C(0)), "left_child": ("sub", pt, C(1)),
                           "right_child": ("sub", pt, C(2)), "value": val, "if_delete_subtrie": ids}
                args = st.ret[2][1:]
                for pn, a in zip(h.params[1:], args):
                    if pn in wantmap and a != wantmap[pn]:
                        bad = (pn, a)
        cst = "handler-args:BinaryTrie.%s" % hname
        if bad:
            ctx.bad(cst, f.loc(), "%s receives `%s` for its parameter %s" % (hname, tstr(bad[1])[:40], bad[0]))
        else:
            ctx.ok(cst, f.loc(), "%s receives keypath / node parts / value / mode in its parameter order" % hname)


# ---------------------------------------------------------------------------
def _subterms(t):
    if isinstance(t, tuple) and t and isinstance(t[0], str):
        yield t
    if isinstance(t, tuple):
        for x in t:
            if isinstance(x, tuple):
                yield from _subterms(x)


def _grid(rels, x, base, lo=0, hi=6):
    """values d in lo..hi of len(x) - base that satisfy every logged relation between len(x) and base + const"""
    from ..sym import linform
    lenx = ("len", x)
    ok = set(range(lo, hi + 1))
    used = 0
    for op, l, r in rels:
        a, b = linform(l), linform(r)
        if a is None or b is None:
            continue
        atoms = dict(a[0])
        for k_, v in b[0].items():
            atoms[k_] = atoms.get(k_, 0) - v
        atoms = {k_: v for k_, v in atoms.items() if v}
        const = a[1] - b[1]
        if set(atoms) != {lenx, base} or atoms[lenx] != -atoms[base] or abs(atoms[lenx]) != 1:
            continue
        used += 1
        s_ = atoms[lenx]
        keep = set()
        for d in ok:
            v = s_ * d + const
            if {"==": v == 0, "!=": v != 0, ">": v > 0, ">=": v >= 0}[op]:
                keep.add(d)
        ok = keep
    return ok, used


@rule("SPLIT", ["C12"])
def split(ctx, pid):
    """The complete outcome table of BinaryTrie._set_kv_node.  With K the key path, P the node's path, R its
    child, c = get_common_prefix_length(P, K[:len(P)]), dK = len(K) - c, dP = len(P) - c:
      erase      : BLANK_HASH without recursion only for if_delete_subtrie and K a proper prefix of P
      match      : child emptied -> BLANK_HASH; child a kv node -> kv(P + its path, its child); else kv(P, child)
      mismatch   : unchanged exactly for an empty value or if_delete_subtrie; dK = 0 -> NodeOverrideError;
                   new = leaf(value) iff dK = 1, kv(K[c+1:], leaf(value)) iff dK >= 2; old = R iff dP = 1,
                   kv(P[c+1:], R) iff dP >= 2; bit K[c:c+1] = 1 puts new to the right; kv(P[:c], ..) on top iff c > 0."""
    eng = S(ctx)
    K_ = consts(ctx)
    B1, BLANK = C(K_["BYTE_1"]), C(K_["BLANK_HASH"])
    f = ctx.P.func(BIN + "._set_kv_node")
    need = ["keypath", "node_hash", "left_child", "right_child", "value", "if_delete_subtrie"]
    if any(n_ not in f.params for n_ in need):
        raise AnalysisError("anchor vanished: parameters of BinaryTrie._set_kv_node")
    K, NH, P, R, V, IDS = (("p", n_) for n_ in need)
    KP = ("slice", K, None, ("len", P))
    c = ("call", "trie.utils.nodes:get_common_prefix_length", (P, KP), ())
    c_alt = ("call", "trie.utils.nodes:get_common_prefix_length", (KP, P), ())
    SELF = ("self",)

    def Hs(x):
        return ("call", BIN + "._hash_and_save", (SELF, x), ())

    def kv(a, b):
        return ("call", ENC_KV, (a, b), ())

    def br(a, b):
        return ("call", ENC_BR, (a, b), ())

    leaf = Hs(("call", "trie.utils.nodes:encode_leaf_node", (V,), ()))
    sub = ("call", BIN + "._set", (SELF, R, ("slice", K, ("len", P), None), V, IDS), ())
    pt = ("call", "trie.utils.nodes:parse_node", (("sub", ("attr", SELF, "db"), sub),), ())
    probs = []
    arms = {"erase": 0, "match-empty": 0, "match-kv": 0, "match-other": 0, "unchanged": 0, "refuse": 0, "split": 0}
    for p, st in pq.states(ctx, f):
        local = pq.local_raise(p) if p.exit[0] == "raise" else None
        if p.exit[0] != "return" and local is None:
            continue
        rels = []
        truth = {}
        for t, pol, _ in st.log:
            r = rel_norm_b(t, pol)
            if r is not None:
                rels.append(r)
            else:
                tt, pp = truth_norm(t, pol)
                truth[tt] = pp
        cc = c
        if any(c_alt in list(_subterms(r)) for r in rels) or c_alt in truth:
            cc = c_alt
        node = p.exit[1]
        called_set = any(ev.k == "call" and ev.a == "ok" and isinstance(ev.node, ast.Call)
                         and any(t.kind == "def" and t.func.qual == BIN + "._set" for t in ctx.R.resolve_call(ev.node, f, count=False)) for ev in st.events)
        matched = ("==", KP, P) in rels or ("==", P, KP) in rels
        mism = ("!=", KP, P) in rels or ("!=", P, KP) in rels
        if p.exit[0] == "return" and st.ret == BLANK and not called_set:
            arms["erase"] += 1
            pre = ("==", K, ("slice", P, None, ("len", K))) in rels or ("==", ("slice", P, None, ("len", K)), K) in rels
            # (K == P is erased here or, equivalently, by the recursion of the matching arm: both bounds are the same function)
            shorter = (">", ("len", P), ("len", K)) in rels or (">=", ("len", P), ("len", K)) in rels
            if not (truth.get(IDS) is True and pre and shorter):
                probs.append((node, "the node is erased without recursion on a path that does not establish if_delete_subtrie, len(keypath) <= len(path) and keypath == path[:len(keypath)]"))
            continue
        if matched:
            if not called_set:
                probs.append((node, "the key continues below this node but the child is not visited"))
                continue
            if p.exit[0] != "return":
                continue
            if ("==", sub, BLANK) in rels:
                arms["match-empty"] += 1
                want = BLANK
            else:
                kind = [r for r in rels if r[0] in ("==", "!=") and r[1] == ("sub", pt, C(0)) and r[2] == C(K_["KV_TYPE"])]
                if not kind:
                    probs.append((node, "the rebuilt node does not depend on the type of the new child"))
                    continue
                if kind[0][0] == "==":
                    arms["match-kv"] += 1
                    want = Hs(kv(eng.mk_bin("+", P, ("sub", pt, C(1))), ("sub", pt, C(2))))
                else:
                    arms["match-other"] += 1
                    want = Hs(kv(P, sub))
            if st.ret != want:
                probs.append((node, "matching path: returns `%s`, expected `%s`" % (tstr(st.ret)[:80], tstr(want)[:80])))
            continue
        if not mism:
            probs.append((node, "outcome on a path that neither matches nor mismatches the node's path"))
            continue
        # ---- mismatch arm
        if p.exit[0] == "return" and st.ret == NH:
            arms["unchanged"] += 1
            if not (truth.get(V) is False or truth.get(IDS) is True):
                probs.append((node, "the node is returned unchanged although the value is non-empty and this is not a subtrie delete"))
            continue
        if not (truth.get(V) is True and truth.get(IDS) is False):
            probs.append((node, "the node is rebuilt on a path that does not establish a non-empty value and a plain set"))
            continue
        dK, usedK = _grid(rels, K, cc)
        dP, usedP = _grid(rels, P, cc, lo=1)
        if local is not None:
            arms["refuse"] += 1
            if dK != {0}:
                probs.append((local, "NodeOverrideError is raised for len(keypath) - c in %s, expected exactly 0 (the key ends inside the node's path)" % sorted(dK)))
            continue
        arms["split"] += 1
        c1 = eng.mk_bin("+", cc, C(1))
        if dK == {1}:
            new = leaf
        elif dK == set(range(2, 7)):
            new = Hs(kv(("slice", K, c1, None), leaf))
        else:
            probs.append((node, "the new key's node is built for len(keypath) - c in %s; the cases are exactly 1 (a leaf) and >= 2 (a kv node over keypath[c+1:]); 0 must be refused" % sorted(dK)))
            continue
        if dP == {1}:
            old = R
        elif dP == set(range(2, 7)):
            old = Hs(kv(("slice", P, c1, None), R))
        else:
            probs.append((node, "the old child is re-attached for len(path) - c in %s; the cases are exactly 1 (the child itself) and >= 2 (a kv node over path[c+1:])" % sorted(dP)))
            continue
        sel = [r for r in rels if r[0] in ("==", "!=") and r[1] == ("slice", K, cc, c1) and r[2] == B1]
        if not sel:
            probs.append((node, "the branch is built without testing the diverging bit keypath[c:c+1] against 1"))
            continue
        newsub = Hs(br(old, new)) if sel[0][0] == "==" else Hs(br(new, old))
        cz = truth.get(cc)
        if cz is None:
            z = [r for r in rels if r[1] == cc and r[2] == C(0)]
            if z:
                cz = {"!=": True, ">": True, "==": False}.get(z[0][0])
        if cz is None:
            probs.append((node, "the result does not depend on whether a common prefix remains (c > 0)"))
            continue
        want = Hs(kv(("slice", P, None, cc), newsub)) if cz else newsub
        if st.ret != want:
            probs.append((node, "split: returns `%s`, expected `%s`" % (tstr(st.ret)[:110], tstr(want)[:110])))
    cst = "outcome-table:BinaryTrie._set_kv_node"
    missing = [a for a, n_ in arms.items() if n_ == 0]
    if probs:
        node, why = probs[0]
        ctx.bad(cst, f.loc(node) if isinstance(node, ast.AST) else f.loc(), why, witness={"problems": sorted({w for _, w in probs})[:8], "arms": arms})
    elif missing:
        ctx.bad(cst, f.loc(), "no path realises the arm(s) %s of the kv-node update" % ", ".join(missing), witness={"arms": arms})
    else:
        ctx.ok(cst, f.loc(), "erase / match (emptied, kv child, other child) / unchanged / refuse (dK = 0) / split (%d paths: leaf iff dK = 1, old child iff dP = 1, bit 1 -> right, kv(P[:c]) iff c > 0): every return value equals the table" % arms["split"])


def _simp_ite(t, rels, truth):
    """resolve conditional-expression terms whose condition the path has decided"""
    if not isinstance(t, tuple) or not t:
        return t
    if t[0] == "ite" and len(t) == 4:
        cond = t[1]
        for pol in (True, False):
            r = rel_norm_b(cond, pol)
            if r is not None and (r in rels or (r[0] in ("==", "!=") and (r[0], r[2], r[1]) in rels)):
                return _simp_ite(t[2] if pol else t[3], rels, truth)
            if r is None:
                tt, pp = truth_norm(cond, pol)
                if truth.get(tt) is pp:
                    return _simp_ite(t[2] if pol else t[3], rels, truth)
    return tuple(_simp_ite(x, rels, truth) if isinstance(x, tuple) else x for x in t)


@rule("BRTAB", ["C12"])
def brtab(ctx, pid):
    """The complete outcome table of BinaryTrie._set_branch_node: bit 0 of the key path selects the left child;
    the other child is kept; if one of the two new children is blank the branch collapses into a kv node over the
    survivor - (bit + its path, its child) when the survivor is a kv node, (bit, survivor) when it is a branch or a
    leaf, bit = 1 exactly when the right child survives - otherwise the branch is rebuilt from both children."""
    eng = S(ctx)
    K_ = consts(ctx)
    B0, B1, BLANK = C(K_["BYTE_0"]), C(K_["BYTE_1"]), C(K_["BLANK_HASH"])
    f = ctx.P.func(BIN + "._set_branch_node")
    need = ["keypath", "left_child", "right_child", "value", "if_delete_subtrie"]
    if any(n_ not in f.params for n_ in need):
        raise AnalysisError("anchor vanished: parameters of BinaryTrie._set_branch_node")
    K, L, R, V, IDS = (("p", n_) for n_ in need)
    SELF = ("self",)

    def Hs(x):
        return ("call", BIN + "._hash_and_save", (SELF, x), ())

    def kv(a, b):
        return ("call", ENC_KV, (a, b), ())

    def rec(child):
        return ("call", BIN + "._set", (SELF, child, ("slice", K, C(1), None), V, IDS), ())

    probs, unsure = [], []
    arms = {"rebuild": 0, "collapse-kv": 0, "collapse-other": 0}
    for p, st in pq.states(ctx, f):
        if p.exit[0] != "return":
            continue
        rels, truth = [], {}
        for t, pol, _ in st.log:
            r = rel_norm_b(t, pol)
            if r is not None:
                rels.append(r)
            else:
                tt, pp = truth_norm(t, pol)
                truth[tt] = pp

        def eq(a, b):
            for op, l, r in rels:
                if (l, r) in ((a, b), (b, a)) and op in ("==", "!="):
                    return op == "=="
            return None
        node = p.exit[1]
        bit0 = eq(("slice", K, None, C(1)), B0)
        if bit0 is None:
            b1 = eq(("slice", K, None, C(1)), B1)
            bit0 = None if b1 is None else not b1
        if bit0 is None:
            unsure.append((node, "a path returns without testing the first bit of the key path"))
            continue
        nl, nr = (rec(L), R) if bit0 else (L, rec(R))
        if not any(ev.k == "call" and ev.a == "ok" and isinstance(ev.node, ast.Call) and eng.ev(ev.node, f, st) == (nl if bit0 else nr) for ev in st.events):
            probs.append((node, "bit %d of the key: the recursion does not go into the %s child with keypath[1:], value and the subtrie flag" % (0 if bit0 else 1, "left" if bit0 else "right")))
            continue
        changed, kept = (nl, R) if bit0 else (nr, L)
        if eq(kept, BLANK) is True:
            continue  # a stored branch has two children (A2): the untouched child is never blank
        rels = rels + [("!=", kept, BLANK)]
        cb = eq(changed, BLANK)
        got = _simp_ite(st.ret, rels, truth)
        if cb is None:
            unsure.append((node, "a path returns without comparing the updated child with the blank hash"))
            continue
        if not cb:
            arms["rebuild"] += 1
            want = Hs(("call", ENC_BR, (nl, nr), ()))
        else:
            surv = kept
            fb = B1 if bit0 else B0  # bit 0 went left, so the right child survives
            pt = ("call", "trie.utils.nodes:parse_node", (("sub", ("attr", SELF, "db"), surv),), ())
            kind = None
            for op, l_, r_ in rels:
                l2 = _simp_ite(l_, rels, truth)
                if l2 == ("sub", pt, C(0)):
                    if op == "==" and r_ == C(K_["KV_TYPE"]):
                        kind = "kv"
                    elif op == "in" and kind is None:
                        kind = "other"
                    elif op == "==" and r_ in (C(K_["BRANCH_TYPE"]), C(K_["LEAF_TYPE"])):
                        kind = "other"
            if kind is None:
                unsure.append((node, "a collapsing path does not decide the type of the surviving child"))
                continue
            if kind == "kv":
                arms["collapse-kv"] += 1
                want = Hs(kv(eng.mk_bin("+", fb, ("sub", pt, C(1))), ("sub", pt, C(2))))
            else:
                arms["collapse-other"] += 1
                want = Hs(kv(fb, surv))
        if got != want:
            probs.append((node, "returns `%s`; under the conditions of this path the result has to be `%s`" % (tstr(got)[:110], tstr(want)[:110])))
    cst = "outcome-table:BinaryTrie._set_branch_node"
    missing = [a for a, n_ in arms.items() if n_ == 0]
    if probs:
        node, why = probs[0]
        ctx.bad(cst, f.loc(node), why, witness={"problems": sorted({w for _, w in probs})[:6], "arms": arms})
    elif unsure:
        ctx.unsure(cst, f.loc(unsure[0][0]), unsure[0][1])
    elif missing:
        ctx.bad(cst, f.loc(), "no path realises the arm(s) %s of the branch update" % ", ".join(missing))
    else:
        ctx.ok(cst, f.loc(), "rebuild (%d paths) / collapse over a kv survivor (%d) / collapse over a branch or leaf survivor (%d): every return value equals the table" % (arms["rebuild"], arms["collapse-kv"], arms["collapse-other"]))


@rule("ROUTE3", ["C13"])
def route3(ctx, pid):
    """The public branch / witness helpers are thin wrappers: they hand (db, root, encode_to_bin(key)) in that
    order to their walker and return its result (as a tuple for the generators); if_branch_valid answers True;
    the witness walker adds the whole subtrie exactly when the key prefix is exhausted."""
    eng = S(ctx)
    BR = "trie.branches:"
    E2B = "trie.utils.binaries:encode_to_bin"

    def enc(x):
        return ("call", E2B, (x,), ())
    table = [
        ("check_if_branch_exist", "_check_if_branch_exist", lambda f: (("p", f.params[0]), ("p", f.params[1]), enc(("p", f.params[2]))), False),
        ("get_branch", "_get_branch", lambda f: (("p", f.params[0]), ("p", f.params[1]), enc(("p", f.params[2]))), True),
        ("get_trie_nodes", "_get_trie_nodes", lambda f: (("p", f.params[0]), ("p", f.params[1])), True),
        ("get_witness_for_key_prefix", "_get_witness_for_key_prefix", lambda f: (("p", f.params[0]), ("p", f.params[1]), enc(("p", f.params[2]))), True),
    ]
    for pub, walker, args, tup in table:
        f = ctx.P.func(BR + pub)
        w = ("call", BR + walker, args(f), ())
        if tup:
            w = ("call", "ext:tuple", (w,), ())
        rets = pq.rets(ctx, f)
        c = "route:%s" % pub
        if rets == {w}:
            ctx.ok(c, f.loc(), "returns `%s`" % tstr(w)[:90])
        else:
            ctx.bad(c, f.loc(), "%s returns `%s`, expected `%s`" % (pub, "; ".join(tstr(r)[:70] for r in rets), tstr(w)[:90]))
    # if_branch_valid: the only normal outcome is True
    f = ctx.P.func(BR + "if_branch_valid")
    rets = pq.rets(ctx, f, exits=("return", "fall"), unroll=1)
    if rets == {C(True)}:
        ctx.ok("verdict:if_branch_valid", f.loc(), "every path that passes the checks returns True", nontrivial=False)
    else:
        ctx.bad("verdict:if_branch_valid", f.loc(), "if_branch_valid returns `%s` after passing its checks, expected True" % "; ".join(tstr(r) for r in rets if r is not None))
    # witness walker: subtrie exactly on an exhausted key
    f = ctx.P.func(BR + "_get_witness_for_key_prefix")
    db_, nh_, kp_ = (("p", x) for x in f.params[:3])
    sub = ("call", BR + "get_trie_nodes", (db_, nh_), ())
    probs = []
    n = {True: 0, False: 0}
    for p, st in pq.states(ctx, f):
        truth = {}
        for t, pol, _ in st.log:
            tt, pp = truth_norm(t, pol)
            truth.setdefault(tt, pp)
        empty = None
        if kp_ in truth:
            empty = not truth[kp_]
        else:
            lo, hi = eng.len_of(kp_, st.facts)
            empty = True if hi == 0 else (False if lo >= 1 else None)
        yf = [eng.ev(ev.node.value, f, st) for ev in st.events if ev.k == "yieldfrom" and isinstance(ev.node, ast.YieldFrom)]
        whole = sub in yf
        if p.exit[0] == "raise" and len(st.log) < 2:
            continue  # left by an exception before the walk proper started

        if empty is None:
            if whole:
                probs.append("the whole subtrie is yielded on a path that does not test whether the key prefix is exhausted")
            continue
        n[empty] += 1
        if empty and not whole:
            probs.append("an exhausted key prefix does not yield the subtrie below the node (get_trie_nodes(db, node_hash))")
        if not empty and whole:
            probs.append("the whole subtrie is yielded although the key prefix is not exhausted")
    c = "subtrie-on-exhausted-key:_get_witness_for_key_prefix"
    if probs:
        ctx.bad(c, f.loc(), probs[0])
    elif not (n[True] and n[False]):
        ctx.unsure(c, f.loc(), "paths with exhausted / non-exhausted key prefix: %d / %d" % (n[True], n[False]))
    else:
        ctx.ok(c, f.loc(), "yield from get_trie_nodes(db, node_hash) exactly when the key prefix is empty")
