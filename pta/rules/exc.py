"""Exception-flow rules EXC1..EXC7."""
import ast

from ..core import rule
from ..model import walk_shallow, AnalysisError
from ..reach import Reach
from ..sym import tstr, C
from .. import util
from ..util import fkey
from .eff import HEX, sym

VALIDATION_MOD = "trie.validation"
TRAVERSAL_SPLIT = {
    HEX + "._traverse_from", HEX + "._traverse", HEX + "._traverse_extension",
    "trie.utils.nodes:consume_common_prefix",
}

ENTRY_SETS = {
    "C01": {"entries": ["get", "exists", "__getitem__", "__contains__"], "complete_db": True, "allowed": ()},
    "C03": {"entries": ["get_from_proof"], "complete_db": False, "allowed": ("trie.exceptions.BadTrieProof",)},
}


def classify(ctx, exc, origin):
    """-> (class letter, reason) for exceptions that are allowed without a feasibility argument."""
    kind = origin[0] if origin else None
    of = origin[1] if origin and len(origin) > 1 else ""
    mod = of.split(":")[0]
    if kind == "yield":
        return "T", "thrown into a context manager by its caller"
    if kind == "dbwrite":
        return "F", "failure of a write to the caller-supplied db object (fault, not a property of the trie)"
    if kind == "raise" and mod == VALIDATION_MOD and exc.endswith("ValidationError"):
        return "V", "argument validation (%s)" % of.split(":")[1]
    if kind == "raise" and mod == "trie.exceptions" and of.endswith(".__init__"):
        return "W", "self-check of an exception constructor (%s), unreachable for well-formed hashes (A2)" % of.split(":")[1]
    if of in ("trie.typing:Nibbles.__new__",):
        return "W", "Nibbles element validation on values produced by the trie itself (A2)"
    if kind == "ext" and origin[3] in ("rlp.decode",):
        return "W", "rlp decoding of stored bytes (A2: stored nodes are well-formed)"
    if exc.endswith("InvalidNode") and of.endswith(":get_node_type"):
        return "W", "node classification of stored bytes (A2)"
    if exc.endswith("InvalidNibbles"):
        return "W", "nibble packing of values produced by the trie itself (A2)"
    return None, None


def _raise_index(ctx, origin):
    """Stable identity of a raise site: function + exception + ordinal among the
    function's raises of that exception (no line numbers)."""
    if origin[0] != "raise":
        return "%s:%s" % (origin[0], origin[1].split(":")[-1])
    f = ctx.P.funcs.get(origin[1])
    exc = origin[3].split(".")[-1]
    k = 0
    if f is not None:
        rs = sorted([n for n in walk_shallow(f.node) if isinstance(n, ast.Raise) and n.exc is not None
                     and ctx.R.exc_name(n.exc, f) == origin[3]], key=lambda n: (n.lineno, n.col_offset))
        for i, n in enumerate(rs):
            if n.lineno == origin[2]:
                k = i
    return "%s:raise %s#%d" % (origin[1].split(":")[-1], exc, k)


@rule("EXC1", list(ENTRY_SETS))
def exc1(ctx, pid):
    """An entry point can only be left by an allowed exception; any other raise site
    must be infeasible under the abstract domains (Kind, Len, FieldConst)."""
    spec_ = ENTRY_SETS[pid]
    X = ctx.X0 if spec_["complete_db"] else ctx.X
    R = Reach(ctx, X, TRAVERSAL_SPLIT)
    cls = ctx.P.cls(HEX)
    seen = {}
    n_sites = 0
    for name in spec_["entries"]:
        f = cls.methods.get(name)
        if f is None:
            raise AnalysisError("anchor vanished: HexaryTrie.%s" % name)
        for exc, origin in sorted(X.escapes(f), key=str):
            key = (exc, origin)
            if key in seen:
                seen[key]["entries"].append(name)
                continue
            n_sites += 1
            rec = seen[key] = {"entries": [name]}
            c = "leaves:%s" % _raise_index(ctx, origin)
            loc = "%s:%s" % (ctx.P.funcs[origin[1]].rel if origin[1] in ctx.P.funcs else "?", origin[2])
            rec["c"], rec["loc"] = c, loc
            if exc in spec_["allowed"]:
                rec["v"] = ("ok", "allowed exception of this entry point", False)
                continue
            cl, why = classify(ctx, exc, origin)
            if cl is not None:
                rec["v"] = ("ok", "class %s: %s" % (cl, why), False)
                continue
            R.inconclusive = None
            w = R.feasible(f, exc, origin)
            if w is None:
                rec["v"] = ("ok", "raise site is infeasible on every call chain from %s (guard contradicts the traversal summary / dispatch is exhaustive)" % name, True)
            elif R.inconclusive:
                rec["v"] = ("unsure", R.inconclusive, True)
            else:
                rec["v"] = ("bad", w, True)
    ctx.paths_enumerated += R.paths_run
    for (exc, origin), rec in seen.items():
        tag, data, nt = rec["v"]
        ents = ",".join(rec["entries"])
        if tag == "ok":
            ctx.ob(rec["c"], rec["loc"], "discharged", "%s [%s]: %s" % (exc.split(".")[-1], ents, data), nt)
        elif tag == "unsure":
            ctx.unsure(rec["c"], rec["loc"], "%s [%s]: %s" % (exc.split(".")[-1], ents, data))
        else:
            w = data
            last = w.frames[-1]
            ctx.bad(rec["c"], rec["loc"],
                    "%s can leave %s: the raise is feasible under path conditions %s"
                    % (exc.split(".")[-1], ents, "; ".join(last["path_conditions"][-4:])),
                    witness=w.as_dict())
    ctx.expect_min("escaping (exception, origin) pairs examined", n_sites, 6, "validator, classifier, 2-3 guarded raises, invariant else-arms")
    if pid == "C03":
        # EXC5: nothing about missing nodes may leave the verifier except BadTrieProof
        f = cls.methods["get_from_proof"]
        leaks = [(e, o) for e, o in ctx.X.escapes(f) if e.split(".")[-1] in ("MissingTrieNode", "MissingTraversalNode", "KeyError")]
        c = "translation:HexaryTrie.get_from_proof"
        if leaks:
            e, o = leaks[0]
            ctx.bad(c, f.loc(), "%s raised at %s:%s escapes get_from_proof untranslated" % (e.split(".")[-1], o[1].split(":")[-1], o[2]),
                    witness={"leaks": [str(x) for x in leaks]}, rule="EXC5")
        else:
            has = any(e.endswith("BadTrieProof") and _has_cause(o, "dbread") for e, o in ctx.X.escapes(f))
            if has:
                ctx.ob(c, f.loc(), "discharged", "every missing-node exception of the snapshot read is translated to BadTrieProof", True, rule="EXC5")
            else:
                ctx.bad(c, f.loc(), "no BadTrieProof with a missing-node cause can leave get_from_proof (the translation handler is gone)", rule="EXC5")


def _has_cause(origin, kind):
    o = origin
    n = 0
    while o is not None and n < 10:
        if o[0] == kind:
            return True
        o = o[4] if o[0] == "raise" and len(o) > 4 else None
        n += 1
    return False


def _root_cause(origin):
    o = origin
    n = 0
    while o is not None and n < 10 and o[0] == "raise" and len(o) > 4 and o[4] is not None:
        o = o[4]
        n += 1
    return o


# ---------------------------------------------------------------------------
# EXC2  every fallible db read is covered by a conversion
# ---------------------------------------------------------------------------
EXC2_ENTRIES = {
    "get": "MissingTrieNode", "exists": "MissingTrieNode", "set": "MissingTrieNode", "delete": "MissingTrieNode",
    "__getitem__": "MissingTrieNode", "__setitem__": "MissingTrieNode", "__delitem__": "MissingTrieNode",
    "__contains__": "MissingTrieNode",
    "traverse": "MissingTraversalNode", "traverse_from": "MissingTraversalNode", "root_node": "MissingTraversalNode",
}
SWALLOW_OK = {
    "HexaryTrie._set_root_node": "old-root probe: the node is fetched only to decide whether to prune it; handler is `pass`, the else-arm is the only user",
}


@rule("EXC2", ["C07"])
def exc2(ctx, pid):
    """No KeyError of a db read leaves an entry point; it is converted to the Missing* exception of that entry."""
    cls = ctx.P.cls(HEX)
    X = ctx.X
    for name, want in EXC2_ENTRIES.items():
        f = cls.methods.get(name)
        if f is None:
            raise AnalysisError("anchor vanished: HexaryTrie.%s" % name)
        esc = X.escapes(f)
        raw = [(e, o) for e, o in esc if e == "KeyError" and o[0] == "dbread"]
        conv = [(e, o) for e, o in esc if e.split(".")[-1].startswith("Missing") and _has_cause(o, "dbread")]
        wrong = [(e, o) for e, o in conv if e.split(".")[-1] != want]
        c = "coverage:%s" % fkey(f)
        if raw:
            e, o = raw[0]
            ctx.bad(c, f.loc(), "KeyError of the db read at %s:%s leaves %s unconverted" % (o[1].split(":")[-1], o[2], name),
                    witness={"raw": [str(x) for x in raw]})
        elif wrong:
            e, o = wrong[0]
            ctx.bad(c, f.loc(), "%s leaves %s where %s is promised" % (e.split(".")[-1], name, want), witness={"wrong": [str(x) for x in wrong]})
        elif not conv:
            ctx.bad(c, f.loc(), "no %s with a db-read cause can leave %s (conversion handler missing)" % (want, name))
        else:
            ctx.ok(c, f.loc(), "all %d db-read failure chains surface as %s" % (len(conv), want))
    # swallowed reads (in functions reachable from the entries)
    n_handlers = 0
    reach = set()
    work = [cls.methods[n] for n in EXC2_ENTRIES if n in cls.methods]
    while work:
        g = work.pop()
        if g.qual in reach:
            continue
        reach.add(g.qual)
        for call, tg in ctx.E.call_edges(g):
            if tg.kind == "def":
                work.append(tg.func)
    for f in util.class_functions(ctx, HEX):
        if f.qual not in reach:
            continue
        for p in X.paths(f):
            hs = [ev for ev in p.events if ev.k == "handler" and ev.a == "KeyError" and ev.b and _root_cause(ev.b)[0] == "dbread"]
            if not hs:
                continue
            n_handlers += 1
            if p.exit[0] != "raise":
                c = "swallow:%s" % fkey(f)
                if fkey(f) in SWALLOW_OK:
                    if not any(o.construct == c for o in ctx.obs):
                        # the ignored value must have no user outside the else arm: handler body is a bare pass
                        h = hs[0].node
                        if all(isinstance(s, ast.Pass) for s in h.body):
                            ctx.ok(c, f.loc(h), "ignored probe: %s" % SWALLOW_OK[fkey(f)])
                        else:
                            ctx.bad(c, f.loc(h), "handler of the ignored probe does more than `pass`")
                else:
                    if not any(o.construct == c for o in ctx.obs):
                        ctx.bad(c, f.loc(hs[0].node), "a missing node (KeyError of a db read) is swallowed and execution continues normally")
    ctx.expect_min("paths through KeyError handlers of db reads", n_handlers, 5, "_traverse, _traverse_from, root_node, set, delete, _set_root_node")
    # informational: call sites of the reading primitive
    gn = cls.methods.get("get_node")
    if gn is not None:
        n = 0
        for f in util.class_functions(ctx, HEX):
            for node in walk_shallow(f.node):
                if isinstance(node, ast.Call) and any(t.kind == "def" and t.func is gn for t in ctx.R.resolve_call(node, f, count=False)):
                    n += 1
        ctx.info("get_node-call-sites", gn.loc(), "%d call sites of get_node in HexaryTrie" % n)


# ---------------------------------------------------------------------------
# EXC4  internal exception never escapes
# ---------------------------------------------------------------------------
@rule("EXC4", ["C07", "C08"])
def exc4(ctx, pid):
    name = "trie.hexary._PartialTraversal"
    cls = ctx.P.cls(HEX)
    raised = 0
    for f in util.class_functions(ctx, HEX):
        if any(e == name for e, o in ctx.X.escapes(f)):
            raised += 1
            if util.is_public(f):
                ctx.bad("escape:%s" % fkey(f), f.loc(), "_PartialTraversal can leave public method %s" % f.name)
    ctx.expect_min("functions raising _PartialTraversal", raised, 1, "_traverse_extension")
    for f in util.public_entries(ctx, HEX):
        if not any(e == name for e, o in ctx.X.escapes(f)):
            pass
    ctx.ok("internal-exception-contained", "trie/hexary.py", "_PartialTraversal is caught at every call site of the %d function(s) that can raise it" % raised)


# ---------------------------------------------------------------------------
# EXC3  provenance of Missing* constructor arguments
# ---------------------------------------------------------------------------
def _ctor_sites(ctx, clsnames):
    out = []
    for f in util.class_functions(ctx, HEX):
        for n in walk_shallow(f.node):
            if isinstance(n, ast.Call):
                for t in ctx.R.resolve_call(n, f, count=False):
                    if t.kind == "ctor" and t.cls.name in clsnames:
                        out.append((f, n, t.cls))
    return out


def _arg_terms_at(ctx, f, call):
    """[(State, {param: term})] at the construction site, one per feasible path."""
    S = sym(ctx)
    from ..walk import Path
    res = []
    for p in ctx.X.paths(f):
        idx = [i for i, ev in enumerate(p.events) if ev.node is call and ev.k == "call"]
        if not idx:
            continue
        pre = Path(p.events[: idx[0]], ("fall",))
        for st in S.run(f, pre):
            res.append((st, p.events[: idx[0]]))
    return res


def _is_exc_arg0(t, st_events):
    """term is <caught KeyError>.args[0]"""
    return (t[0] == "sub" and t[2] == C(0) and t[1][0] == "attr" and t[1][2] == "args" and t[1][1][0] in ("exc", "p"))


@rule("EXC3", ["C07"])
def exc3(ctx, pid):
    """Missing* constructor arguments: hash = the key whose lookup failed, root = the trie's root,
    key = the entry's key, prefix = what was consumed before the failing lookup."""
    S = sym(ctx)
    sites = _ctor_sites(ctx, ("MissingTrieNode", "MissingTraversalNode"))
    ctx.expect_min("Missing* construction sites", len(sites), 5, "get, _traverse, _traverse_from, _raise_missing_node, root_node")
    for f, call, ecls in sites:
        init = ecls.methods["__init__"]
        amap = ctx.E.bind_args(call, init, skip_self=True)
        runs = _arg_terms_at(ctx, f, call)
        c0 = "%s@%s" % (ecls.name, fkey(f))
        if not runs:
            ctx.unsure("args:" + c0, f.loc(call), "construction site not on any feasible path")
            continue
        problems = []
        checked = 0
        for st, evs in runs:
            # the caught exception and the failing lookup
            handlers = [ev for ev in evs if ev.k == "handler"]
            h = handlers[-1] if handlers else None
            failing_ptr = None
            if h is not None:
                # the raising call event that led into the handler
                j = evs.index(h)
                if j > 0 and evs[j - 1].k == "call" and evs[j - 1].a != "ok":
                    fc = evs[j - 1].node
                    if fc.args:
                        failing_ptr = S.ev(fc.args[0], f, st)
            exc_param = [p for p in f.params[1:] if ("p", p) in [S.ev(ast.Name(id=p, ctx=ast.Load()), f, st)]]

            def is_exc(t):
                if t[0] == "exc":
                    return True
                if t[0] == "p" and h is None:
                    return True  # exception handed in as a parameter (checked at the call sites)
                return False

            # ---- missing_node_hash
            a = amap.get("missing_node_hash")
            if a is not None:
                t = S.ev(a, f, st)
                ok = False
                if t[0] == "sub" and t[2] == C(0) and t[1][0] == "attr" and t[1][2] == "args" and is_exc(t[1][1]):
                    ok = True
                elif t[0] == "attr" and t[2] == "missing_node_hash" and is_exc(t[1]):
                    ok = True
                elif failing_ptr is not None and t == failing_ptr:
                    ok = True
                checked += 1
                if not ok:
                    problems.append("missing_node_hash is `%s`, not the key whose lookup failed" % tstr(t)[:60])
            # ---- root_hash
            a = amap.get("root_hash")
            if a is not None and ecls.name == "MissingTrieNode":
                t = S.ev(a, f, st)
                checked += 1
                if not (t == ("attr", ("self",), "root_hash")):
                    problems.append("root_hash is `%s`, not the trie's root hash" % tstr(t)[:60])
            # ---- requested_key
            a = amap.get("requested_key")
            if a is not None:
                t = S.ev(a, f, st)
                checked += 1
                if not (t[0] == "p"):
                    problems.append("requested_key is `%s`, not the caller's key parameter" % tstr(t)[:60])
            # ---- prefix / nibbles_traversed
            a = amap.get("prefix") or amap.get("nibbles_traversed")
            if a is not None:
                t = S.ev(a, f, st)
                checked += 1
                ok = False
                if t == C(()) or t == C(None):
                    # root lookup: the failing pointer must be the root hash itself
                    ok = t == C(None) or failing_ptr is None or failing_ptr in (("attr", ("self",), "root_hash"), ("p", "root_hash"))
                elif t[0] == "attr" and t[2] == "nibbles_traversed" and is_exc(t[1]):
                    ok = True
                elif t[0] == "slice" and t[2] is None and t[3] is not None:
                    ok = _prefix_ok(S, f, st, t, failing_ptr, problems)
                if not ok and not any("prefix" in p_ for p_ in problems):
                    problems.append("prefix is `%s`, not the nibbles consumed before the failing lookup" % tstr(t)[:70])
        c = "args:" + c0
        if problems:
            ctx.bad(c, f.loc(call), problems[0], witness={"problems": sorted(set(problems))})
        else:
            ctx.ok(c, f.loc(call), "%d argument roles verified on %d paths" % (checked, len(runs)))
    # forwarding helper: _raise_missing_node(exc, key) call sites pass the caught KeyError and the entry's key
    rm = ctx.P.cls(HEX).methods.get("_raise_missing_node")
    if rm is not None:
        n = 0
        for f in util.class_functions(ctx, HEX):
            for node in walk_shallow(f.node):
                if isinstance(node, ast.Call) and any(t.kind == "def" and t.func is rm for t in ctx.R.resolve_call(node, f, count=False)):
                    n += 1
                    amap = ctx.E.bind_args(node, rm, skip_self=True)
                    ea, ka = amap.get(rm.params[1]), amap.get(rm.params[2])
                    hctx = _enclosing_handler(f, node)
                    c = "forward:%s" % fkey(f)
                    if hctx is None or not (isinstance(ea, ast.Name) and ea.id == hctx.name):
                        ctx.bad(c, f.loc(node), "_raise_missing_node is not given the caught KeyError")
                    elif not (isinstance(ka, ast.Name) and ka.id in f.params):
                        ctx.bad(c, f.loc(node), "_raise_missing_node is not given the entry's key parameter")
                    elif "KeyError" not in ctx.R.exc_name(hctx.type, f):
                        ctx.bad(c, f.loc(node), "enclosing handler does not catch KeyError")
                    else:
                        ctx.ok(c, f.loc(node), "caught KeyError and the entry's key are forwarded")
        ctx.expect_min("_raise_missing_node call sites", n, 2, "set, delete")


def _enclosing_handler(f, node):
    for n in walk_shallow(f.node):
        if isinstance(n, ast.ExceptHandler) and util.contains(n, node):
            return n
    return None


def _prefix_ok(S, f, st, t, failing_ptr, problems):
    """t = K[: len(K) - len(R)] where K is the function's key parameter and R is the
    residual paired with the failing pointer."""
    K, hi = t[1], t[3]
    if not (hi[0] == "bin" and hi[1] == "-" and hi[2] == ("len", K) and hi[3][0] == "len"):
        problems.append("prefix slice bound `%s` is not len(key) - len(residual)" % tstr(hi)[:60])
        return False
    R = hi[3][1]
    if K[0] != "p":
        problems.append("prefix is cut from `%s`, not from the key parameter" % tstr(K)[:40])
        return False
    if failing_ptr is None:
        return True
    # pairing pointer <-> residual
    P = failing_ptr
    if P[0] == "sub" and P[2][0] == "sub" and P[2][2] == C(0):
        prev = P[2][1]
        if R == ("slice", prev, C(1), None):
            return _derives_from(prev, K)
        problems.append("prefix uses residual `%s` but the failing pointer was selected by `%s[0]` (expected residual `%s[1:]`)"
                        % (tstr(R)[:40], tstr(prev)[:30], tstr(prev)[:30]))
        return False
    if P[0] == "sub" and P[1][0] == "call" and R[0] == "sub" and R[1] == P[1] and P[2] != R[2]:
        # two components of one call result (pointer, residual)
        return True
    if P[0] == "sub" and P[1][0] == "call":
        problems.append("prefix residual `%s` is not the residual returned together with the failing pointer" % tstr(R)[:50])
        return False
    return True


def _derives_from(t, K):
    n = 0
    while n < 20:
        if t == K:
            return True
        if t[0] == "slice":
            t = t[1]
        elif t[0] == "sub" and t[1][0] == "call":
            # residual returned by a consuming helper: its key argument
            args = t[1][2]
            t = args[-1] if args else None
            if t is None:
                return False
        else:
            return False
        n += 1
    return False


EXC_CLASSES = {
    "C11": ["PerfectVisibility", "FullDirectionalVisibility"],
    "C07": ["MissingTrieNode", "MissingTraversalNode"],
    "C08": ["TraversedPartialPath", "MissingTraversalNode"],
    "C03": ["BadTrieProof", "MissingTrieNode"],
    "C12": ["NodeOverrideError"],
    "C13": ["InvalidKeyError"],
    "C16": ["InvalidNode", "InvalidNibbles"],
    "C18": ["ValidationError"],
    "C01": ["MissingTrieNode", "ValidationError"],
}


@rule("EXCH", sorted(EXC_CLASSES))
def exch(ctx, pid):
    """The exception classes a property names are distinct, unrelated classes deriving directly from Exception
    (a handler for one never catches another; the exception-flow model relies on it)."""
    m = ctx.P.modules.get("trie.exceptions")
    if m is None:
        raise AnalysisError("anchor vanished: trie.exceptions")
    for name in EXC_CLASSES[pid]:
        c = m.classes.get(name)
        cst = "exception-class:%s" % name
        if c is None:
            ctx.bad(cst, "trie/exceptions.py", "exception class %s is gone" % name)
        elif c.bases != ["Exception"]:
            ctx.bad(cst, "trie/exceptions.py:%d" % c.node.lineno, "%s derives from %s instead of Exception: handlers written for its base would also catch it" % (name, ", ".join(c.bases) or "nothing"))
        else:
            ctx.ok(cst, "trie/exceptions.py:%d" % c.node.lineno, "%s(Exception)" % name, nontrivial=False)
    pt = ctx.P.modules["trie.hexary"].classes.get("_PartialTraversal")
    if pid in ("C07", "C08", "C01"):
        if pt is None or pt.bases != ["Exception"]:
            ctx.bad("exception-class:_PartialTraversal", "trie/hexary.py", "_PartialTraversal is not a direct Exception subclass")
        else:
            ctx.ok("exception-class:_PartialTraversal", "trie/hexary.py", "_PartialTraversal(Exception)", nontrivial=False)


# exception names whose class is deliberately not trie.exceptions' (module, name) -> (origin, reason)
EXC_FOREIGN = {
    ("trie.fog", "ValidationError"): ("eth_utils.ValidationError", "the fog API refuses with eth_utils' ValidationError; tests/core/test_fog.py pins that class"),
}


@rule("EXCORIGIN", ["C01", "C03", "C07", "C08", "C10", "C11", "C12", "C13", "C14", "C15", "C16", "C18"])
def excorigin(ctx, pid):
    """Which class a raised / caught exception *name* denotes: a builtin, a class of the module itself, or an
    import from trie.exceptions.  `ValidationError` imported from another package is an unrelated class that
    no `except trie.exceptions.ValidationError` of a caller catches (fog.py's eth_utils import is the one
    frozen exception)."""
    import builtins
    from ..core import prop_scope
    scope = prop_scope(pid)
    n = 0
    bad = []
    for name, m in sorted(ctx.P.modules.items()):
        if m.is_tools or (scope is not None and m.rel not in scope):
            continue
        used = {}
        for nd in ast.walk(m.tree):
            if isinstance(nd, ast.Raise) and nd.exc is not None:
                e = nd.exc.func if isinstance(nd.exc, ast.Call) else nd.exc
                if isinstance(e, ast.Name):
                    used.setdefault(e.id, nd)
            if isinstance(nd, ast.ExceptHandler) and nd.type is not None:
                for x in ast.walk(nd.type):
                    if isinstance(x, ast.Name):
                        used.setdefault(x.id, nd)
        for u, nd in sorted(used.items()):
            imp = m.imports.get(u)
            if imp is None:
                if u in m.classes:
                    n += 1
                    continue
                if u in m.const_nodes or u in m.funcs:
                    bad.append((m, nd, u, "a module-level name that is not a class"))
                    continue
                if isinstance(getattr(builtins, u, None), type) and issubclass(getattr(builtins, u), BaseException):
                    n += 1
                    continue
                continue  # a local variable holding an exception (`raise exc`): not a class name
            n += 1
            if imp[0] == "pkg" and imp[1] == "trie.exceptions":
                continue
            origin = imp[1] if imp[0] == "ext" else "%s.%s" % (imp[1], imp[2] if len(imp) > 2 else "")
            fz = EXC_FOREIGN.get((name, u))
            if fz is not None and fz[0] == origin:
                continue
            bad.append((m, nd, u, "imported from %s" % origin))
    for m, nd, u, why in bad:
        ctx.bad("exception-origin:%s:%s" % (m.name, u), "%s:%d" % (m.rel, nd.lineno),
                "`%s` in %s is %s, not the class of trie.exceptions: callers catching trie.exceptions.%s no longer see these refusals" % (u, m.rel, why, u))
    if not bad:
        ctx.ok("exception-origins", "trie/", "%d exception names raised or caught in scope denote builtins, local classes or trie.exceptions classes (1 frozen exception: fog.ValidationError)" % n, nontrivial=bool(n))


@rule("EXCACC", ["C07", "C08", "C01"])
def excacc(ctx, pid):
    """Exception payload accessors: a property `x` of an exception class that returns `self.args[i]` reads the slot
    the constructor fills from its parameter `x` (the i-th argument of super().__init__).  The callers' reports
    (which hash is missing, under which root, for which key, at which prefix) are only as good as this table."""
    m = ctx.P.modules.get("trie.exceptions")
    if m is None:
        raise AnalysisError("anchor vanished: trie.exceptions")
    n = 0
    bad = []
    for cname, cls in sorted(m.classes.items()):
        init = cls.methods.get("__init__")
        if init is None:
            continue
        sup = None
        for nd in walk_shallow(init.node):
            if isinstance(nd, ast.Call) and isinstance(nd.func, ast.Attribute) and nd.func.attr == "__init__" \
                    and isinstance(nd.func.value, ast.Call) and ast.unparse(nd.func.value.func) == "super":
                sup = nd
        if sup is None:
            acc = [mn for mn, mt in cls.methods.items() if mt.is_property and any(
                isinstance(x, ast.Attribute) and x.attr == "args" for x in ast.walk(mt.node))]
            if acc:
                bad.append(("accessor:%s.%s" % (cname, sorted(acc)[0]), init, "reads self.args, but the constructor never calls super().__init__(..) to fill them"))
            continue
        binds = ctx.E.bindings(init)

        def deps(e, depth=0):
            out = set()
            for x in ast.walk(e):
                if isinstance(x, ast.Name) and isinstance(x.ctx, ast.Load):
                    if x.id in init.all_params():
                        out.add(x.id)
                    elif depth < 3:
                        for b in binds.get(x.id, []):
                            if isinstance(b, ast.AST):
                                out |= deps(b, depth + 1)
            return out
        slots = [deps(a) if not isinstance(a, ast.Starred) else None for a in sup.args]
        for pname, meth in sorted(cls.methods.items()):
            if not meth.is_property:
                continue
            rets = [r for r in walk_shallow(meth.node) if isinstance(r, ast.Return) and r.value is not None]
            if len(rets) != 1:
                continue
            v = util.ret_deref(meth, rets[0])
            if not (isinstance(v, ast.Subscript) and isinstance(v.value, ast.Attribute) and v.value.attr == "args"
                    and isinstance(v.slice, ast.Constant) and isinstance(v.slice.value, int)):
                continue
            n += 1
            i = v.slice.value
            c = "accessor:%s.%s" % (cname, pname)
            if i < 0 or i >= len(slots) or slots[i] is None:
                bad.append((c, meth, "reads args[%d], which the constructor does not fill positionally" % i))
            elif slots[i] != {pname}:
                bad.append((c, meth, "reads args[%d], which the constructor fills from `%s`, not from its `%s` argument" % (i, ", ".join(sorted(slots[i])) or "a constant", pname)))
    for c, meth, why in bad:
        ctx.bad(c, meth.loc(), "%s %s" % (fkey(meth), why))
    if not bad:
        if n < 9:
            ctx.unsure("accessors:trie.exceptions", "trie/exceptions.py", "only %d args[i] accessors found, 9 were confirmed by hand" % n)
        else:
            ctx.ok("accessors:trie.exceptions", "trie/exceptions.py", "%d accessors each read the args slot filled from the constructor argument of the same name" % n)
