"""Importing this package registers every rule."""
from . import eff  # noqa: F401
from . import exc  # noqa: F401
from . import ctxm  # noqa: F401
from . import val  # noqa: F401
from . import iterfog  # noqa: F401
from . import binary  # noqa: F401
from . import smt  # noqa: F401
from . import enc  # noqa: F401
from . import hexary  # noqa: F401
from . import trav  # noqa: F401
from . import helpers  # noqa: F401
from . import hextab  # noqa: F401
