"""Importing this package registers every rule."""
from . import eff  # noqa: F401
