"""HexaryTrie structural rules: TS1/TS2/PENDG/EFF1p (C06), SIB9/TS3/TS4/TS9/SIB11/ABS6 (C02),
TS5 (C03), ROUTE1/SIB1/ABS3 (C01), READPATH/ORD2 (C07)."""
import ast

from ..core import rule
from ..model import walk_shallow, AnalysisError, UNKNOWN
from .. import util, pq
from ..pq import S, rel_norm, truth_norm
from ..sym import C, tstr, is_c, State, ALLK, INF
from ..util import fkey, Trace

HEX = "trie.hexary:HexaryTrie"
NODES = "trie.utils.nodes:"
NIB = "trie.utils.nibbles:"
GNT = NODES + "get_node_type"
FAMILY = ("_set", "_set_kv_node", "_set_branch_node", "_delete", "_delete_kv_node", "_delete_branch_node", "_normalize_branch_node")


def H(ctx, name):
    return ctx.P.func(HEX + "." + name)


def param_kinds(ctx, g, pname="node"):
    """Join over call sites of the Kind of the argument bound to g's node parameter."""
    key = ("hexparamkinds", g.qual, pname)
    if key in ctx.cache:
        return ctx.cache[key]
    ctx.cache[key] = ALLK
    eng = S(ctx)
    kinds = set()
    n = 0
    for f in util.class_functions(ctx, HEX):
        for call, tg in ctx.E.call_edges(f):
            if tg.kind == "def" and tg.func is g:
                amap = ctx.E.bind_args(call, g, skip_self=True)
                a = amap.get(pname)
                if a is None:
                    continue
                init = _init_state(ctx, f) if f.name in FAMILY and f is not g else None
                for p, st in pq.states_init(ctx, f, init, until=lambda ev, c=call: ev.node is c and ev.k == "call"):
                    n += 1
                    kinds |= eng.kind_of(eng.ev(a, f, st), st.facts)
    res = frozenset(kinds) if n else ALLK
    ctx.cache[key] = res
    return res


def _init_state(ctx, f):
    """Initial facts for a family member: the Kind of its node parameter from its call sites."""
    if "node" not in f.params:
        return None
    fixed = {"_set_kv_node": {"LEAF", "EXT"}, "_delete_kv_node": {"LEAF", "EXT"}, "_set_branch_node": {"BRANCH"},
             "_delete_branch_node": {"BRANCH"}, "_normalize_branch_node": {"BRANCH"}}
    st = State()
    ks = None
    if f.name in fixed:
        ks = param_kinds(ctx, f)
        # the dispatch in _set / _delete guarantees these; fall back to the join if the code changed
    if ks and ks != ALLK:
        st.facts.set_kind(("p", "node"), ks)
    return st


# ---------------------------------------------------------------------------
@rule("TS1", ["C06", "C01", "C05", "C04"])
def ts1(ctx, pid):
    """Every node visited by a mutation is scheduled for pruning (TS1); every node absorbed by a merge is
    scheduled (TS2); the pending-prune increment is guarded exactly by is_pruning and 'node is stored by hash' (PENDG);
    counts are incremented only together with the db write (EFF1 pairing)."""
    eng = S(ctx)
    prune = H(ctx, "_prune_node")
    # ---- TS1
    for name in ("_set", "_delete"):
        f = H(ctx, name)
        node = ("p", "node")
        bad = None
        n = 0
        for p, st in pq.states(ctx, f):
            if p.exit[0] != "return":
                continue
            ks = eng.kind_of(node, st.facts)
            if ks == frozenset(["BLANK"]):
                continue  # scheduling the blank node is a no-op
            n += 1
            sched = False
            for ev in st.events:
                if ev.k == "call" and ev.a == "ok" and isinstance(ev.node, ast.Call):
                    tg = ctx.R.resolve_call(ev.node, f, count=False)[0]
                    if tg.kind == "def" and tg.func is prune and ev.node.args and eng.ev(ev.node.args[0], f, st) == node:
                        sched = True
            if not sched:
                bad = bad or p
        c = "visited-scheduled:%s" % fkey(f)
        if bad:
            ctx.bad(c, f.loc(), "a path through %s returns for a non-blank node without scheduling it for pruning: the replaced node would stay in the db" % name)
        else:
            ctx.ok(c, f.loc(), "_prune_node(node) precedes every return for a non-blank node (%d paths)" % n)
    # ---- each visited node is scheduled exactly once: the dispatchers schedule it, the kind-specific
    # handlers (which receive the same node) must not schedule it again; no term is scheduled twice on a path
    dup = None
    for name in FAMILY:
        f = H(ctx, name)
        init = _init_state(ctx, f)
        for p, st in pq.states_init(ctx, f, init):
            seen_terms = []
            for ev in st.events:
                if ev.k == "call" and ev.a == "ok" and isinstance(ev.node, ast.Call):
                    tg = ctx.R.resolve_call(ev.node, f, count=False)[0]
                    if tg.kind == "def" and tg.func is prune and ev.node.args:
                        t = eng.ev(ev.node.args[0], f, st)
                        if t in seen_terms:
                            dup = dup or (f, ev.node, "the same node `%s` is scheduled for pruning twice on one path" % tstr(t)[:40])
                        seen_terms.append(t)
                        if t == ("p", "node") and name not in ("_set", "_delete"):
                            dup = dup or (f, ev.node, "%s schedules its own node parameter again: _set / _delete already did, a shared node would lose two references for one removal" % name)
    # a node BUILT by the operation (result of a recursive mutation) may be scheduled only after it was
    # persisted on that path: otherwise the prune releases a reference that was never taken
    unp = None
    for name in FAMILY:
        f = H(ctx, name)
        init = _init_state(ctx, f)
        for p, st in pq.states_init(ctx, f, init):
            persisted = set()
            for ev in st.events:
                if ev.k == "call" and ev.a == "ok" and isinstance(ev.node, ast.Call):
                    tg = ctx.R.resolve_call(ev.node, f, count=False)[0]
                    if tg.kind != "def" or not ev.node.args:
                        continue
                    t = eng.ev(ev.node.args[0], f, st)
                    if tg.func.name == "_persist_node":
                        persisted.add(t)
                    elif tg.func is prune and t[0] == "call" and t[1].startswith(HEX + ".") and t[1].split(".")[-1] in FAMILY:
                        if t not in persisted:
                            unp = unp or (f, ev.node, "`%s` is scheduled for pruning although it was built by this operation and not persisted on this path (its reference was never counted)" % tstr(t)[:50])
    if unp:
        ctx.bad("built-node-persisted-before-prune:HexaryTrie", unp[0].loc(unp[1]), unp[2], rule="TS2")
    else:
        ctx.ok("built-node-persisted-before-prune:HexaryTrie", "trie/hexary.py", "a node produced by a recursive mutation is pruned only after _persist_node stored and counted it", rule="TS2")
    c = "scheduled-once:HexaryTrie"
    if dup:
        ctx.bad(c, dup[0].loc(dup[1]), dup[2])
    else:
        ctx.ok(c, "trie/hexary.py", "only the dispatchers _set / _delete schedule the visited node; no node term is scheduled twice on a path")
    # ---- TS2: absorbed nodes
    n_abs = 0
    for name in ("_normalize_branch_node", "_delete_kv_node"):
        f = H(ctx, name)
        init = _init_state(ctx, f)
        bad = None
        for p, st in pq.states_init(ctx, f, init):
            if p.exit[0] != "return" or st.ret is None or st.ret[0] != "list":
                continue
            # a returned display that takes a component X[i] of a node loaded / produced on this path
            absorbed = set()
            for el in st.ret[1]:
                for sub in _subterms(el):
                    if sub[0] == "sub" and len(sub) == 3 and sub[1] and sub[1][0] == "call" and sub[1][1] in (HEX + ".get_node", HEX + "._delete"):
                        absorbed.add(sub[1])
            sched = set()
            for ev in st.events:
                if ev.k == "call" and ev.a == "ok" and isinstance(ev.node, ast.Call):
                    tg = ctx.R.resolve_call(ev.node, f, count=False)[0]
                    if tg.kind == "def" and tg.func is prune and ev.node.args:
                        sched.add(eng.ev(ev.node.args[0], f, st))
            for a in absorbed:
                n_abs += 1
                if a not in sched:
                    bad = bad or (p, a)
        c = "absorbed-scheduled:%s" % fkey(f)
        if bad:
            ctx.bad(c, f.loc(bad[0].exit[1]), "the node `%s` is merged into its parent but not scheduled for pruning: it stays in the db with a stale count" % tstr(bad[1])[:60], rule="TS2")
        else:
            ctx.ok(c, f.loc(), "every merged child node is passed to _prune_node before the merged node is returned", rule="TS2")
    ctx.expect_min("absorptions of loaded nodes", n_abs, 2, "kv-child merge in _normalize_branch_node, extension merge in _delete_kv_node")
    # ---- PENDG: guard table of the pending increment
    f = prune
    incs = [e for e in ctx.E.primitives(f) if e.state == "PEND" and e.op == "W" and e.meth == "aug" and isinstance(e.node, ast.AugAssign) and isinstance(e.node.op, ast.Add)]
    c = "pending-guard:HexaryTrie._prune_node"
    if len(incs) != 1:
        ctx.bad(c, f.loc(), "expected exactly one `_pending_prune_keys[key] += 1`, found %d" % len(incs), rule="PENDG")
    else:
        inc = incs[0]
        conds = set()
        for p, st in pq.states(ctx, f, until=lambda ev: ev.node is inc.node and ev.k == "stmt"):
            conds.add(frozenset((truth_norm(t, pol) if rel_norm(t, pol) is None else rel_norm(t, pol)) for t, pol, _ in st.log))
        mapping = ("call", HEX + "._node_to_db_mapping", (("self",), ("p", f.params[1])), ())
        want = frozenset({(("attr", ("self",), "is_pruning"), True), ("isnot", ("sub", mapping, C(1)), C(None))})
        key_ok = isinstance(inc.key, ast.Name)
        if conds == {want}:
            kt = None
            for p, st in pq.states(ctx, f, until=lambda ev: ev.node is inc.node and ev.k == "stmt"):
                kt = eng.ev(inc.key, f, st)
            if kt == ("sub", mapping, C(0)) and isinstance(inc.node.value, ast.Constant) and inc.node.value.value == 1:
                ctx.ok(c, inc.where(), "pending[key] += 1 under exactly {is_pruning, node is stored by hash}, key = the node's db key", rule="PENDG")
            else:
                ctx.bad(c, inc.where(), "the pending increment does not count the node's db key once (`%s`)" % util.norm_src(inc.node), rule="PENDG")
        else:
            got = sorted(sorted(tstr(x[0] if len(x) == 2 else x[1])[:50] for x in cs) for cs in conds)
            ctx.bad(c, inc.where(), "the pending increment is guarded by %s; it must happen for every hashed node whenever the trie prunes (each occurrence of a shared node is one reference)" % got, rule="PENDG",
                    witness={"guards": got})
    # ---- EFF1 pairing
    sdv = H(ctx, "_set_db_value")
    for g in util.class_functions(ctx, HEX):
        prim = ctx.E.primitives(g)
        rcw = [e for e in prim if e.state == "RC" and e.op == "W" and e.meth == "aug" and util.is_self_root(e)]
        for e in rcw:
            c = "count-with-write:%s" % fkey(g)
            if isinstance(e.node, ast.AugAssign) and not isinstance(e.node.op, ast.Add):
                ctx.bad("count-arithmetic:%s" % fkey(g), e.where(), "a reference count is changed in place by `%s`; counts only go up by one at the db write and are set to the remaining count in _complete_pruning" % util.norm_src(e.node), rule="EFF1")
                continue
            dbw = [x for x in prim if x.state == "DB" and x.op == "W" and util.is_self_root(x)]
            ok = False
            if dbw:
                # same key expression, increment guarded by is_pruning only, both on every pruning path
                same_key = ast.dump(dbw[0].key) == ast.dump(e.key)
                conds = set()
                for p, st in pq.states(ctx, g, until=lambda ev, e=e: ev.node is e.node and ev.k == "stmt"):
                    conds.add(frozenset(truth_norm(t, pol) for t, pol, _ in st.log))
                ok = same_key and conds == {frozenset({(("attr", ("self",), "is_pruning"), True)})} and isinstance(e.node.value, ast.Constant) and e.node.value.value == 1
            if ok:
                ctx.ok(c, e.where(), "ref_count[key] += 1 sits next to db[key] = value, under is_pruning only", rule="EFF1")
            else:
                ctx.bad(c, e.where(), "a reference count is incremented (`%s`) away from the db write of the same key" % util.norm_src(e.node), rule="EFF1")
        rcd = [e for e in prim if e.state == "RC" and (e.op == "D" or (e.op == "W" and e.meth != "aug")) and util.is_self_root(e)]
        if rcd and g.name != "_complete_pruning":
            ctx.bad("count-decrement:%s" % fkey(g), rcd[0].where(), "reference counts are lowered outside _complete_pruning (`%s`)" % util.norm_src(rcd[0].node), rule="EFF1")
    cp = H(ctx, "_complete_pruning")
    ctx.ok("count-decrement:HexaryTrie._complete_pruning", cp.loc(), "only _complete_pruning lowers counts (it runs on the success path only: ORD3)", rule="EFF1", nontrivial=False)
    # whole-object stores of _ref_count
    for g in util.class_functions(ctx, HEX):
        for e in ctx.E.primitives(g):
            if e.state == "RC" and e.op == "SET" and util.is_self_root(e) and g.name not in ("__init__", "squash_changes"):
                ctx.bad("count-rebind:%s" % fkey(g), e.where(), "_ref_count is replaced outside __init__ / squash_changes", rule="EFF1")
    # _complete_pruning arithmetic: new_count = count - prunes; delete iff <= 0
    _check_complete_pruning(ctx, cp)


def _subterms(t):
    if isinstance(t, tuple) and t and isinstance(t[0], str):
        yield t
    if isinstance(t, tuple):
        for x in t:
            if isinstance(x, tuple):
                yield from _subterms(x)


def _check_complete_pruning(ctx, f):
    eng = S(ctx)
    probs = []
    tr = Trace(ctx, f)
    n_del = 0
    for p, st in pq.states(ctx, f, unroll=1):
        nc = None
        # the db delete happens only under new_count <= 0
        for ev in st.events:
            if ev.k in ("src", "stmt") and ev.a in ("ok", None):
                for e in tr.at(ev):
                    if e.state == "DB" and e.op == "D":
                        n_del += 1
                        ok = False
                        for t, pol, _ in st.log:
                            r = rel_norm(t, pol)
                            if r and r[0] == ">=" and r[1] == C(0) and r[2][0] == "bin" and r[2][1] == "-":
                                d = r[2]
                                if d[2][0] == "sub" and d[2][1] == ("attr", ("self",), "_ref_count") and d[3][0] == "sub":
                                    ok = True
                        if not ok:
                            probs.append("a db entry is deleted on a path that does not assume ref_count[key] - prunes <= 0")
    # the count that is kept is the remaining count
    stores = [e for e in ctx.E.primitives(f) if e.state == "RC" and e.op == "W" and e.meth != "aug"]
    rc = ("attr", ("self",), "_ref_count")
    badstore = None
    for p, st in pq.states(ctx, f, unroll=1):
        for ev in st.events:
            if ev.k == "stmt" and any(e.node is ev.node for e in stores):
                e = [e for e in stores if e.node is ev.node][0]
                vt = eng.ev(e.value, f, st)
                kt = eng.ev(e.key, f, st)
                want = ("bin", "-", ("sub", rc, kt), None)
                okv = vt == C(0) or (vt[0] == "bin" and vt[1] == "-" and vt[2] == ("sub", rc, kt) and vt[3][0] == "sub" and vt[3][2] == C(1)
                                     and vt[3][1][0] == "iter")
                if not okv:
                    badstore = badstore or (e, vt)
    if badstore:
        ctx.bad("remaining-count:HexaryTrie._complete_pruning", badstore[0].where(), "the count kept for a node is `%s`; it must be the old count minus the pending prunes" % tstr(badstore[1])[:60], rule="EFF1")
    elif stores:
        ctx.ok("remaining-count:HexaryTrie._complete_pruning", f.loc(), "the stored count is ref_count[key] - pending[key]", rule="EFF1")
    c = "delete-iff-unreferenced:HexaryTrie._complete_pruning"
    if probs:
        ctx.bad(c, f.loc(), probs[0], rule="EFF1")
    elif n_del == 0:
        ctx.bad(c, f.loc(), "_complete_pruning never deletes", rule="EFF1")
    else:
        ctx.ok(c, f.loc(), "del db[key] only when ref_count[key] - pending[key] <= 0", rule="EFF1")


# ---------------------------------------------------------------------------
@rule("SIB9", ["C02", "C03", "C05", "C01", "C07", "C08", "C10"])
def sib9(ctx, pid):
    """Embedding threshold: a node is embedded iff len(rlp) < 32, in writer and reader alike; hashed children are 32 bytes."""
    eng = S(ctx)
    w = H(ctx, "_create_node_to_db_mapping")
    node = ("p", w.params[1])
    enc = ("call", "ext:rlp.codec.encode_raw", (node,), ())
    rows = {}
    for p, st in pq.states(ctx, w):
        if p.exit[0] != "return" or st.ret is None or st.ret[0] != "tuple":
            continue
        a, b = st.ret[1]
        lo, hi = eng.len_of(enc, st.facts)
        if b == C(None) and a == node:
            old = rows.get("embed")
            rows["embed"] = (lo, hi) if old is None else (min(old[0], lo), max(old[1], hi))
        elif b == enc and a[0] == "call" and a[1] in ("ext:eth_hash.auto.keccak", "ext:eth_utils.keccak") and a[2] == (enc,):
            old = rows.get("hash")
            rows["hash"] = (lo, hi) if old is None else (min(old[0], lo), max(old[1], hi))
        elif a == C(b"") and b == C(None):
            rows["blank"] = True
        else:
            rows["other:%s" % tstr(st.ret)[:40]] = (lo, hi)
    c = "embed-threshold:HexaryTrie._create_node_to_db_mapping"
    if rows.get("embed") == (0, 31) and rows.get("hash") == (32, INF) and rows.get("blank") and len(rows) == 3:
        ctx.ok(c, w.loc(), "(node, None) iff len(rlp(node)) in [0, 31]; (keccak(rlp), rlp) iff len >= 32; blank -> (b'', None)")
    else:
        ctx.bad(c, w.loc(), "writer: embedded for len(rlp) in %s, hashed for %s (Yellow Paper: embed iff < 32)%s"
                % (rows.get("embed"), rows.get("hash"), "; other returns: %s" % [k for k in rows if k.startswith("other")] if any(k.startswith("other") for k in rows) else ""),
                witness={"rows": {k: str(v) for k, v in rows.items()}})
    r = H(ctx, "get_node")
    h = ("p", r.params[1])
    rrows = {}
    for p, st in pq.states(ctx, r):
        if p.exit[0] != "return":
            continue
        lo, hi = eng.len_of(h, st.facts)
        ret = st.ret
        if ret == C(b""):
            continue
        if ret[0] == "call" and ret[1] == NODES + "decode_node":
            src = ret[2][0]
            if src == h:
                rrows["inline"] = (lo, hi)
            elif src == ("sub", ("attr", ("self",), "db"), h):
                rrows["db"] = (lo, hi)
            else:
                rrows["other"] = tstr(src)[:40]
    c = "embed-threshold:HexaryTrie.get_node"
    if rrows.get("inline", (None,))[1] == 31 and rrows.get("db", (None,))[0] == 32 and "other" not in rrows:
        ctx.ok(c, r.loc(), "a reference shorter than 32 bytes is decoded in place, otherwise looked up in the db")
    else:
        ctx.bad(c, r.loc(), "reader: inline for len in %s, db lookup for len in %s; the writer embeds iff len(rlp) < 32" % (rrows.get("inline"), rrows.get("db")),
                witness={"rows": {k: str(v) for k, v in rrows.items()}})
    # validate_is_node: hashed children are exactly 32 bytes
    v = ctx.P.func("trie.validation:validate_is_node")
    okv = False
    for lp in [n_ for n_ in walk_shallow(v.node) if isinstance(n_, ast.For) and isinstance(n_.target, ast.Name)]:
        for c_ in ast.walk(lp):
            if isinstance(c_, ast.Call) and ast.unparse(c_.func) == "validate_length" and len(c_.args) == 2 and isinstance(c_.args[0], ast.Name) \
                    and c_.args[0].id == lp.target.id and isinstance(c_.args[1], ast.Constant) and c_.args[1].value == 32:
                okv = True
    if okv:
        ctx.ok("hash-length:validate_is_node", v.loc(), "hashed children of a branch must be 32 bytes", nontrivial=False)
    elif any(isinstance(c_, ast.Call) and ast.unparse(c_.func) == "validate_length" and len(c_.args) == 2 and isinstance(c_.args[1], ast.Constant) and c_.args[1].value == 32
             for c_ in ast.walk(v.node)) and any(isinstance(n_, ast.While) for n_ in ast.walk(v.node)):
        ctx.unsure("hash-length:validate_is_node", v.loc(), "validate_is_node checks a 32-byte length inside a work-list loop the rule cannot relate to the branch's children")
    else:
        ctx.bad("hash-length:validate_is_node", v.loc(), "validate_is_node no longer requires 32-byte child hashes")
    # ABS6: the root is always hashed and stored; blank -> BLANK_NODE_HASH
    f = H(ctx, "_set_raw_node")
    cm = ctx.P.modules["trie.constants"]
    BNH = ctx.P.const(cm, "BLANK_NODE_HASH")
    sdv = H(ctx, "_set_db_value")
    bad = None
    n = 0
    for p, st in pq.states(ctx, f, split={HEX + "._node_to_db_mapping", HEX + "._cached_create_node_to_db_mapping", HEX + "._create_node_to_db_mapping"}):
        if p.exit[0] != "return":
            continue
        n += 1
        wrote = any(ev.k == "call" and ev.a == "ok" and isinstance(ev.node, ast.Call) and any(t.kind == "def" and t.func is sdv for t in ctx.R.resolve_call(ev.node, f, count=False)) for ev in st.events)
        if st.ret == C(BNH):
            if wrote:
                bad = "the blank root is written to the db"
        elif not wrote:
            bad = "a path returns `%s` for a non-blank root without storing the node" % tstr(st.ret)[:40]
        elif not (st.ret[0] == "call" and "keccak" in st.ret[1]) and not (st.ret[0] == "sub"):
            bad = "the root reference `%s` is not a hash" % tstr(st.ret)[:40]
    c = "root-always-hashed:HexaryTrie._set_raw_node"
    if bad:
        ctx.bad(c, f.loc(), bad, rule="ABS6")
    else:
        ctx.ok(c, f.loc(), "every non-blank root is hashed and stored (even when shorter than 32 bytes); the blank root is the constant BLANK_NODE_HASH (%d paths)" % n, rule="ABS6")
    g = H(ctx, "_set_root_node")
    st_root = [e for e in ctx.E.primitives(g) if e.op == "SET" and e.state == "ROOT"]
    ok = len(st_root) == 1 and isinstance(st_root[0].value, ast.Call) and any(t.kind == "def" and t.func is f for t in ctx.R.resolve_call(st_root[0].value, g, count=False))
    if ok:
        ctx.ok("root-from-raw-node:HexaryTrie._set_root_node", g.loc(), "root_hash = _set_raw_node(root_node)", rule="ABS6", nontrivial=False)
    else:
        ctx.bad("root-from-raw-node:HexaryTrie._set_root_node", g.loc(), "the root hash is not the result of _set_raw_node(root_node)", rule="ABS6")
    if ctx.P.const(cm, "BLANK_NODE_HASH") == bytes.fromhex("56e81f171bcc55a6ff8345e692c0f86e5b48e01b996cadc001622fb5e363b421") and ctx.P.const(cm, "BLANK_NODE") == b"":
        ctx.ok("blank-root-constant", "trie/constants.py", "BLANK_NODE_HASH is keccak(rlp(b'')) of the Yellow Paper", rule="ABS6", nontrivial=False)
    else:
        ctx.bad("blank-root-constant", "trie/constants.py", "BLANK_NODE_HASH / BLANK_NODE constants changed", rule="ABS6")


# ---------------------------------------------------------------------------
def ret_kinds(ctx, g, kinds, depth=0):
    """Kinds a family function can return when its node parameter has one of `kinds`."""
    key = ("retkinds", g.qual, kinds)
    if key in ctx.cache:
        return ctx.cache[key]
    ctx.cache[key] = frozenset()
    eng = S(ctx)
    out = set()
    if depth > 4:
        return ALLK
    init = State()
    init.facts.set_kind(("p", "node"), kinds)
    for p, st in pq.states_init(ctx, g, init):
        if p.exit[0] != "return" or st.ret is None:
            continue
        out |= term_kinds(ctx, g, st, st.ret, depth)
    ctx.cache[key] = frozenset(out)
    return ctx.cache[key]


def term_kinds(ctx, f, st, t, depth=0):
    eng = S(ctx)
    if t[0] == "call" and t[1].startswith(HEX + ".") and t[1].split(".")[-1] in FAMILY and len(t[2]) >= 2:
        g = ctx.P.funcs[t[1]]
        ks = term_kinds(ctx, f, st, t[2][1], depth + 1) if depth < 4 else eng.kind_of(t[2][1], st.facts)
        base = eng.kind_of(t, st.facts)
        return ret_kinds(ctx, g, ks, depth + 1) & base if base != ALLK else ret_kinds(ctx, g, ks, depth + 1)
    if t[0] == "call" and t[1] == HEX + ".get_node":
        # child of an extension is a branch in a canonical trie (A2)
        a = t[2][1] if len(t[2]) > 1 else None
        ks = eng.kind_of(t, st.facts)
        if a is not None and a[0] == "sub" and a[2] == C(1) and eng.kind_of(a[1], st.facts) == frozenset(["EXT"]):
            ks = ks & frozenset(["BRANCH"])
        return ks
    return eng.kind_of(t, st.facts)


@rule("TS9", ["C02", "C08", "C05"])
def ts9(ctx, pid):
    """Canonical shape after every mutation: a branch is normalised on every path that may blank a slot (TS3);
    no extension with an empty path can be built (TS4); the child of every extension that is built is known to be a
    branch, i.e. an extension followed by a leaf/extension is merged (TS9); branch arity literals agree (SIB11)."""
    eng = S(ctx)
    # ---- TS3
    f = H(ctx, "_delete_branch_node")
    init = _init_state(ctx, f)
    norm = H(ctx, "_normalize_branch_node")
    bad = None
    n = 0
    for p, st in pq.states_init(ctx, f, init):
        if p.exit[0] != "return":
            continue
        node_t = st.env.get("node", ("p", "node"))
        blanked = False
        t = node_t
        while t[0] == "upd":
            v = t[3]
            if v == C(b"") or st.facts.eq.get(v) == b"":
                blanked = True
            elif b"" not in st.facts.ne.get(v, ()) and not (v[0] == "list"):
                blanked = True  # value of unknown blankness
            t = t[1]
        if not blanked:
            continue
        n += 1
        if not (st.ret[0] == "call" and st.ret[1] == norm.qual and st.ret[2][1] == node_t):
            bad = bad or (p, st)
    c = "normalise-after-blanking:HexaryTrie._delete_branch_node"
    if bad:
        ctx.bad(c, f.loc(bad[0].exit[1]), "a branch slot may have been blanked but the branch is returned without _normalize_branch_node: a branch with one child would survive", rule="TS3")
    elif n == 0:
        ctx.bad(c, f.loc(), "no path blanks a slot: the delete path is gone", rule="TS3")
    else:
        ctx.ok(c, f.loc(), "all %d paths that may blank a slot return _normalize_branch_node(node)" % n, rule="TS3")
    # ---- TS4 + TS9: constructed extension nodes
    n_ext = 0
    viol4 = viol9 = None
    cek = NODES + "compute_extension_key"
    for name in ("_set_kv_node", "_delete_kv_node", "_normalize_branch_node"):
        f = H(ctx, name)
        init = _init_state(ctx, f)
        for p, st in pq.states_init(ctx, f, init):
            if p.exit[0] != "return" or st.ret is None:
                continue
            for sub in _subterms(st.ret):
                if not (sub[0] == "list" and len(sub) == 2 and len(sub[1]) == 2):
                    continue
                k, ch = sub[1]
                path = None
                if k[0] == "call" and k[1] == cek:
                    path = k[2][0]
                elif k[0] == "call" and "|" in k[1] and cek in k[1].split("|"):
                    continue  # resolved per binding below
                elif k[0] == "call" and k[1] == NIB + "encode_nibbles":
                    a = k[2][0]
                    if _inherits(a):
                        continue  # merged key: kind inherited from the absorbed node
                    path = a
                else:
                    continue
                n_ext += 1
                lo, hi = _path_len(ctx, f, st, path)
                if lo < 1:
                    viol4 = viol4 or (f, p, "extension path `%s` may be empty" % tstr(path)[:50])
                ks = _child_kinds(ctx, f, st, ch)
                if ks != frozenset(["BRANCH"]):
                    viol9 = viol9 or (f, p, "extension built over a child that may be %s (`%s`); an extension must point at a branch, otherwise the two nodes are merged" % ("/".join(sorted(ks - {"BRANCH"})), tstr(ch)[:50]))
        # compute_key_fn(...) sites: extension only when is_extension
    ctx.expect_min("constructed extension nodes on paths", n_ext, 4, "common-prefix extension, normalised branch child, kept extension in delete")
    c = "extension-path-nonempty:HexaryTrie"
    if viol4:
        ctx.bad(c, viol4[0].loc(viol4[1].exit[1]), viol4[2], rule="TS4")
    else:
        ctx.ok(c, "trie/hexary.py", "every constructed extension has a path of length >= 1", rule="TS4")
    c = "extension-child-is-branch:HexaryTrie"
    if viol9:
        ctx.bad(c, viol9[0].loc(viol9[1].exit[1]), viol9[2])
    else:
        ctx.ok(c, "trie/hexary.py", "every constructed extension points at a branch (leaf / extension children are merged into the parent key)")
    # the split in _set_kv_node: the remainder node keeps the kind of the split node
    f = H(ctx, "_set_kv_node")
    init = _init_state(ctx, f)
    viol = None
    nsp = 0
    for p, st in pq.states_init(ctx, f, init):
        for ev in st.events:
            if ev.k == "call" and ev.a == "ok" and isinstance(ev.node, ast.Call) and isinstance(ev.node.func, ast.Name):
                tgs = ctx.R.resolve_call(ev.node, f, count=False)
                if len(tgs) == 2 and {t.func.name for t in tgs if t.kind == "def"} == {"compute_extension_key", "compute_leaf_key"}:
                    nsp += 1
                    fn = st.env.get(ev.node.func.id)
                    is_ext = None
                    for t, pol, _ in st.log:
                        tt, pp = truth_norm(t, pol)
                        if tt == ("call", NODES + "is_extension_node", (("p", "node"),), ()):
                            is_ext = pp
                    if fn is None or is_ext is None or (fn == ("fn", cek)) != is_ext:
                        viol = viol or ev.node
                    arg = eng.ev(ev.node.args[0], f, st)
                    if is_ext:
                        lo, hi = eng.len_of(arg, st.facts)
                        if lo < 1:
                            viol4 = viol4 or (f, p, "the remainder of a split extension may be empty (`%s`): a one-nibble remainder must be absorbed by the branch slot" % tstr(arg)[-40:])
    if viol4 and not any(o.construct == "extension-path-nonempty:HexaryTrie" and o.verdict == "violation" for o in ctx.obs):
        ctx.obs[:] = [o for o in ctx.obs if o.construct != "extension-path-nonempty:HexaryTrie"]
        ctx.bad("extension-path-nonempty:HexaryTrie", viol4[0].loc(viol4[1].exit[1] if viol4[1].exit[0] == "return" else None), viol4[2], rule="TS4")
    c = "split-keeps-kind:HexaryTrie._set_kv_node"
    if viol is not None:
        ctx.bad(c, f.loc(viol), "the remainder of a split node is encoded with the wrong key function (extension <-> leaf)")
    elif nsp:
        ctx.ok(c, f.loc(), "the remainder of a split node is an extension iff the split node was one")
    # ---- SIB11 arity literals
    _arity(ctx)


def _inherits(a):
    """key built from an absorbed node's own key: kind (and terminator) are inherited"""
    for sub in _subterms(a):
        if sub[0] == "call" and sub[1] == NIB + "decode_nibbles":
            return True
    return False


def _path_len(ctx, f, st, path):
    eng = S(ctx)
    lo, hi = eng.len_of(path, st.facts)
    if lo < 1 and path[0] == "call" and path[1] == NODES + "extract_key":
        # path of a stored extension node is non-empty (A2)
        if eng.kind_of(path[2][0], st.facts) == frozenset(["EXT"]):
            lo = 1
    return lo, hi


def _child_kinds(ctx, f, st, ch):
    eng = S(ctx)
    # reference produced by _persist_node(X): kind of X
    if ch[0] == "call" and ch[1] == HEX + "._persist_node" and len(ch[2]) == 2:
        return term_kinds(ctx, f, st, ch[2][1])
    # child pointer of a node known to be an extension (canonical input, A2)
    if ch[0] == "sub" and ch[2] == C(1):
        if eng.kind_of(ch[1], st.facts) == frozenset(["EXT"]):
            return frozenset(["BRANCH"])
    # a reference whose node was loaded and classified on this path: get_node(ref)
    for t, ks in st.facts.kind.items():
        if t[0] == "call" and t[1] == HEX + ".get_node" and len(t[2]) > 1 and t[2][1] == ch:
            return ks
    return ALLK


def _arity(ctx):
    """Literals standing for the child count (16) and node length (17)."""
    probs = []
    missing = []
    n = 0
    for q, checks in (
        (NODES + "get_node_type", [("cmp-len", 17)]),
        (NODES + "is_branch_node", [("cmp-len", 17)]),
        ("trie.validation:validate_is_node", [("cmp-len", 17), ("slice-upper", 16), ("index", 16)]),
        (NODES + "annotate_node", [("range", 16)]),
        (HEX + ".regenerate_ref_count", [("slice-upper", 16)]),
        (HEX + "._normalize_branch_node", [("slice-upper", 16)]),
        (HEX + "._set_kv_node", [("mult", 16), ("mult", 17)]),
    ):
        f = ctx.P.func(q)
        lits = {"cmp-len": set(), "slice-upper": set(), "index": set(), "range": set(), "mult": set()}
        for node in walk_shallow(f.node):
            if isinstance(node, ast.Compare) and len(node.ops) == 1:
                cmp_ = util.expand_locals(ctx, f, node)  # `n = len(node); if n == 17`
                for x_, y_ in ((cmp_.left, cmp_.comparators[0]), (cmp_.comparators[0], cmp_.left)):
                    if isinstance(x_, ast.Call) and ast.unparse(x_.func) == "len" and isinstance(y_, ast.Constant) and isinstance(y_.value, int) and y_.value > 2:
                        lits["cmp-len"].add(y_.value)
            if isinstance(node, ast.Subscript) and isinstance(node.slice, ast.Slice) and node.slice.lower is None and isinstance(node.slice.upper, ast.UnaryOp) \
                    and isinstance(node.slice.upper.op, ast.USub) and isinstance(node.slice.upper.operand, ast.Constant) and node.slice.upper.operand.value == 1:
                lits["slice-upper"].add(16)  # node[:-1] of a 17-item branch: its 16 children
            if isinstance(node, ast.Subscript) and isinstance(node.slice, ast.Slice) and isinstance(node.slice.upper, ast.Constant) and node.slice.lower is None \
                    and isinstance(node.slice.upper.value, int) and node.slice.upper.value > 2:
                lits["slice-upper"].add(node.slice.upper.value)
            if isinstance(node, ast.Subscript) and isinstance(node.slice, ast.Constant) and isinstance(node.slice.value, int) and node.slice.value > 2:
                lits["index"].add(node.slice.value)
            if isinstance(node, ast.Call) and ast.unparse(node.func) == "range" and len(node.args) == 1 and isinstance(node.args[0], ast.Constant):
                lits["range"].add(node.args[0].value)
            if isinstance(node, ast.BinOp) and isinstance(node.op, ast.Mult) and isinstance(node.right, ast.Constant) and isinstance(node.left, ast.List):
                lits["mult"].add(node.right.value)
        for kind, want in checks:
            n += 1
            if want not in lits[kind]:
                if lits[kind]:
                    probs.append((f, "%s: expected the literal %d (%s), found %s" % (fkey(f), want, kind, sorted(lits[kind]))))
                else:
                    # no literal of that kind at all: the count is spelled some other way (node[:-1], a named
                    # constant, unpacking) - nothing to compare
                    missing.append((f, "%s: the literal %d (%s) is not spelled out" % (fkey(f), want, kind)))
        for kind, vals in lits.items():
            for v in vals:
                if v not in (16, 17, 32):
                    probs.append((f, "%s: unexpected arity literal %d (%s)" % (fkey(f), v, kind)))
    c = "branch-arity:hexary"
    if probs:
        ctx.bad(c, probs[0][0].loc(), probs[0][1], rule="SIB11", witness={"problems": [p[1] for p in probs]})
    elif missing:
        ctx.unsure(c, missing[0][0].loc(), missing[0][1], rule="SIB11")
    else:
        ctx.ok(c, "trie/", "16 children / 17 items at all %d literal sites" % n, rule="SIB11")
    # _set_kv_node builds 17-element branches on every path
    eng = S(ctx)
    f = H(ctx, "_set_kv_node")
    init = _init_state(ctx, f)
    bad = None
    for p, st in pq.states_init(ctx, f, init):
        nn = st.env.get("new_node")
        t = nn
        while t is not None and t[0] == "upd":
            t = t[1]
        if t is not None and t[0] == "list":
            lo, hi = eng.len_of(t, st.facts)
            if (lo, hi) != (17, 17):
                bad = (lo, hi)
    if bad:
        ctx.bad("new-branch-length:HexaryTrie._set_kv_node", f.loc(), "a new branch node has %s items" % (bad,), rule="SIB11")
    else:
        ctx.ok("new-branch-length:HexaryTrie._set_kv_node", f.loc(), "every new branch node has 17 items", rule="SIB11")


# ---------------------------------------------------------------------------
@rule("TS5", ["C03"])
def ts5(ctx, pid):
    """Proof accumulation: every visited non-blank node is in the tuple that is returned or passed down;
    descent consumes exactly the matched key; the verifier stores every proof node as a root-addressable node."""
    eng = S(ctx)
    f, form = util.proof_walker(ctx)
    if form == "gen":
        _ts5_generator(ctx, f)
        _ts5_verifier(ctx)
        return
    ps = f.params[1:]
    if len(ps) < 4:
        raise AnalysisError("anchor vanished: _get_proof(self, node, trie_key, proven_len, last_proof)")
    node, key, plen, last = (("p", x) for x in ps[:4])
    upd = ("bin", "+", last, ("tuple", (node,)))
    unproven = ("slice", key, plen, None)
    probs = []
    n = 0
    rows = {}
    for p, st in pq.states(ctx, f):
        if p.exit[0] != "return":
            continue
        ks = eng.kind_of(node, st.facts)
        kind = next(iter(ks)) if len(ks) == 1 else "/".join(sorted(ks))
        n += 1
        r = st.ret
        if kind == "BLANK":
            if r not in (last, upd):
                probs.append("blank node: returns `%s`" % tstr(r)[:40])
            continue
        def unproven_empty():
            for t, pol, _ in st.log:
                tt, pp = truth_norm(t, pol)
                if tt == unproven:
                    return not pp
            lo, hi = eng.len_of(unproven, st.facts)
            return True if hi == 0 else (False if lo >= 1 else None)
        if r == upd:
            rows.setdefault(kind, set()).add("stop")
            if kind == "BRANCH" and unproven_empty() is not True:
                probs.append("branch: the walk stops at a branch although the key is not exhausted")
            if kind == "EXT":
                ck_ = ("call", NODES + "extract_key", (node,), ())
                if not any(truth_norm(t, pol) == (("call", NODES + "key_starts_with", (unproven, ck_), ()), False) for t, pol, _ in st.log):
                    probs.append("extension: the walk stops at an extension whose path the key does continue")
            continue
        if kind == "BRANCH" and r[0] == "call" and r[1] == f.qual and unproven_empty() is not False:
            probs.append("branch: the walk descends below a branch although the key is exhausted")
        if r[0] == "call" and r[1] == f.qual:
            args = r[2][1:]
            if len(args) < 4 or args[3] != upd:
                probs.append("%s node: the recursive call does not pass last_proof + (node,) on (`%s`)" % (kind, tstr(args[3] if len(args) > 3 else r)[:50]))
            if len(args) >= 3:
                nxt, k2, pl2 = args[0], args[1], args[2]
                if k2 != key:
                    probs.append("%s node: the key is changed in the recursion" % kind)
                if kind == "EXT":
                    ck = ("call", NODES + "extract_key", (node,), ())
                    if pl2 != eng.mk_bin("+", plen, ("len", ck)):
                        probs.append("extension: proven length becomes `%s`, expected proven_len + len(extension path)" % tstr(pl2)[:50])
                    if nxt != ("call", HEX + ".get_node", (("self",), ("sub", node, C(1))), ()):
                        probs.append("extension: next node is `%s`, expected get_node(node[1])" % tstr(nxt)[:50])
                    if not any(truth_norm(t, pol) == (("call", NODES + "key_starts_with", (unproven, ck), ()), True) for t, pol, _ in st.log):
                        probs.append("extension: descent without key_starts_with(unproven_key, extension path)")
                    extra = [truth_norm(t, pol) for t, pol, _ in st.log if truth_norm(t, pol)[0][0] in ("cmp",) and "len" in tstr(t)]
                    if extra:
                        probs.append("extension: descent additionally requires `%s`; a key ending exactly at the extension's end must still descend into the branch below" % tstr(extra[0][0])[:60])
                    rows.setdefault(kind, set()).add("descend")
                elif kind == "BRANCH":
                    if pl2 != eng.mk_bin("+", plen, C(1)):
                        probs.append("branch: proven length becomes `%s`, expected proven_len + 1" % tstr(pl2)[:50])
                    if nxt != ("call", HEX + ".get_node", (("self",), ("sub", node, eng.mk_sub(unproven, C(0)))), ()):
                        probs.append("branch: next node is `%s`, expected get_node(node[unproven_key[0]])" % tstr(nxt)[:60])
                    rows.setdefault(kind, set()).add("descend")
                else:
                    probs.append("descent below a %s node" % kind)
            continue
        probs.append("%s node: returns `%s`, which does not contain the node (expected last_proof + (node,) or a descent that carries it)" % (kind, tstr(r)[:50]))
    want = {"LEAF": {"stop"}, "EXT": {"stop", "descend"}, "BRANCH": {"stop", "descend"}}
    c = "proof-accumulates:HexaryTrie._get_proof"
    if probs:
        ctx.bad(c, f.loc(), probs[0], witness={"problems": sorted(set(probs))})
    elif rows != want:
        ctx.bad(c, f.loc(), "proof walker outcomes per kind are %s, expected %s" % ({k: sorted(v) for k, v in rows.items()}, {k: sorted(v) for k, v in want.items()}))
    else:
        ctx.ok(c, f.loc(), "every non-blank node on the path is appended before return / descent; extension consumes len(path), branch one nibble (%d paths)" % n)
    # defaults are immutable and start empty
    d = f.defaults()
    pl_d, lp_d = d.get(ps[2]), d.get(ps[3])
    ok = isinstance(pl_d, ast.Constant) and pl_d.value == 0 and lp_d is not None and ast.unparse(lp_d) in ("tuple()", "()")
    if ok:
        ctx.ok("proof-starts-empty:HexaryTrie._get_proof", f.loc(), "proven_len defaults to 0, last_proof to an immutable empty tuple")
    else:
        ctx.bad("proof-starts-empty:HexaryTrie._get_proof", f.loc(), "the accumulator default is `%s` (a mutable default would be shared between calls)" % (ast.unparse(lp_d) if lp_d is not None else None))
    # get_proof starts at the root with the full key
    g = H(ctx, "get_proof")
    rets = pq.rets(ctx, g)
    w = ("call", f.qual, (("self",), ("call", HEX + ".get_node", (("self",), ("attr", ("self",), "root_hash")), ()),
                         ("call", NIB + "bytes_to_nibbles", (("p", "key"),), ())), ())
    if rets == {w}:
        ctx.ok("proof-entry:HexaryTrie.get_proof", g.loc(), "get_proof(key) = _get_proof(root node, nibbles(key)) with the default accumulator")
    else:
        ctx.bad("proof-entry:HexaryTrie.get_proof", g.loc(), "get_proof returns `%s`" % "; ".join(tstr(r)[:70] for r in rets))
    _ts5_verifier(ctx)


def _ts5_gen_path(ctx, f, st, kind, acts, node, key, ck, ksw, probs, rows, whole=None, plen=None):
    eng = S(ctx)
    if kind == "BLANK":
        if acts:
            probs.append("blank node: `%s` is yielded (a blank node is not part of a proof)" % tstr(acts[0][1])[:40])
        return
    if not acts or acts[0] != ("yield", node):
        probs.append("%s node: the walk %s without yielding the node first" % (kind, "goes on" if acts else "ends"))
        return
    rest = acts[1:]
    if any(a[0] == "yield" for a in rest):
        probs.append("%s node: more than one node is yielded in one step" % kind)
        return

    def key_empty():
        for t, pol, _ in st.log:
            tt, pp = truth_norm(t, pol)
            if tt == key:
                return not pp
        lo, hi = eng.len_of(key, st.facts)
        return True if hi == 0 else (False if lo >= 1 else None)
    kswv = None
    for t, pol, _ in st.log:
        tt, pp = truth_norm(t, pol)
        if tt == ksw:
            kswv = pp
    if not rest:
        rows.setdefault(kind, set()).add("stop")
        if kind == "BRANCH" and key_empty() is not True:
            probs.append("branch: the walk stops at a branch although the key is not exhausted")
        if kind == "EXT" and kswv is not False and key_empty() is not True:  # (an exhausted key cannot continue a non-empty path)
            probs.append("extension: the walk stops at an extension whose path the key does continue")
        return
    if len(rest) != 1 or rest[0][1][0] != "call" or rest[0][1][1] != f.qual:
        probs.append("%s node: after the node `%s` follows, expected the walk below the child" % (kind, tstr(rest[0][1])[:50]))
        return
    args = rest[0][1][2][1:]
    if len(args) != (2 if plen is None else 3):
        probs.append("%s node: the walk is continued with %d arguments" % (kind, len(args)))
        return
    if plen is None:
        nxt, k2 = args
    else:
        # (next node, the whole key, proven length): what is left of the key below is key[new proven length:]
        nxt, kw_, pl2 = args
        if kw_ != whole:
            probs.append("%s node: the key is changed in the recursion" % kind)
            return
        d = eng.mk_bin("-", pl2, plen) if hasattr(eng, "mk_bin") else None
        want_ext, want_br = eng.mk_bin("+", plen, ("len", ck)), eng.mk_bin("+", plen, C(1))
        k2 = ("slice", key, ("len", ck), None) if pl2 == want_ext else (("slice", key, C(1), None) if pl2 == want_br else ("slice", whole, pl2, None))
    if kind == "EXT":
        if kswv is not True:
            probs.append("extension: descent without key_starts_with(key, extension path)")
        if nxt != ("call", HEX + ".get_node", (("self",), ("sub", node, C(1))), ()):
            probs.append("extension: next node is `%s`, expected get_node(node[1])" % tstr(nxt)[:50])
        if k2 != ("slice", key, ("len", ck), None):
            probs.append("extension: the key below is `%s`, expected key[len(extension path):]" % tstr(k2)[:50])
        extra = [truth_norm(t, pol) for t, pol, _ in st.log if truth_norm(t, pol)[0][0] in ("cmp",) and "len" in tstr(t)]
        if extra:
            probs.append("extension: descent additionally requires `%s`; a key ending exactly at the extension's end must still descend into the branch below" % tstr(extra[0][0])[:60])
        rows.setdefault(kind, set()).add("descend")
    elif kind == "BRANCH":
        if key_empty() is not False:
            probs.append("branch: the walk descends below a branch although the key is exhausted")
        if nxt != ("call", HEX + ".get_node", (("self",), ("sub", node, eng.mk_sub(key, C(0)))), ()):
            probs.append("branch: next node is `%s`, expected get_node(node[key[0]])" % tstr(nxt)[:60])
        if k2 != ("slice", key, C(1), None):
            probs.append("branch: the key below is `%s`, expected key[1:]" % tstr(k2)[:50])
        rows.setdefault(kind, set()).add("descend")
    else:
        probs.append("descent below a %s node" % kind)


def _ts5_generator(ctx, f):
    """The proof walker as a generator (`get_proof` = tuple(walker(root node, nibbles(key)))): per node kind, the
    node is yielded exactly once before anything else happens with it; a leaf ends the walk; an extension is
    left only when the key does not continue its path, and entered with get_node(node[1]) and the key minus the
    path; a branch ends the walk exactly on an exhausted key and is entered with get_node(node[key[0]]), key[1:]."""
    eng = S(ctx)
    node, whole = ("p", f.params[1]), ("p", f.params[2])
    plen = ("p", f.params[3]) if len(f.params) == 4 else None  # the proven length travels along, or the key is cut
    key = whole if plen is None else ("slice", whole, plen, None)
    ck = ("call", NODES + "extract_key", (node,), ())
    ksw = ("call", NODES + "key_starts_with", (key, ck), ())
    probs = []
    rows = {}
    n = 0
    for p, st in pq.states(ctx, f):
        if p.exit[0] not in ("return", "fall"):
            continue
        ks = eng.kind_of(node, st.facts)
        n += 1
        acts = []
        for ev in st.events:
            if ev.k == "yield" and isinstance(ev.node, ast.Yield):
                acts.append(("yield", eng.ev(ev.node.value, f, st)))
            elif ev.k == "yieldfrom" and isinstance(ev.node, ast.YieldFrom):
                acts.append(("from", eng.ev(ev.node.value, f, st)))
        # a path that does not tell the kinds apart is a path of each of them
        for kind in sorted(ks):
            _ts5_gen_path(ctx, f, st, kind, acts, node, key, ck, ksw, probs, rows, whole, plen)
    want = {"LEAF": {"stop"}, "EXT": {"stop", "descend"}, "BRANCH": {"stop", "descend"}}
    c = "proof-accumulates:HexaryTrie._get_proof"
    if probs:
        ctx.bad(c, f.loc(), probs[0], witness={"problems": sorted(set(probs)), "walker": f.qual})
    elif rows != want:
        ctx.bad(c, f.loc(), "proof walker outcomes per kind are %s, expected %s" % ({k: sorted(v) for k, v in rows.items()}, {k: sorted(v) for k, v in want.items()}))
    else:
        ctx.ok(c, f.loc(), "generator form (%s): every non-blank node on the path is yielded once, before the descent; extension consumes len(path), branch one nibble (%d paths)" % (f.name, n))
    ctx.ok("proof-starts-empty:HexaryTrie._get_proof", f.loc(), "the proof is what the generator yields: no accumulator, nothing shared between calls", nontrivial=False)
    g = H(ctx, "get_proof")
    rets = pq.rets(ctx, g)
    inner = ("call", f.qual, (("self",), ("call", HEX + ".get_node", (("self",), ("attr", ("self",), "root_hash")), ()),
                             ("call", NIB + "bytes_to_nibbles", (("p", "key"),), ())), ())
    wrapped = any(d_.split(".")[-1] in ("to_tuple", "to_list") for d_ in f.decos)
    if plen is not None:
        d0 = f.defaults().get(f.params[3])
        if not (isinstance(d0, ast.Constant) and d0.value == 0 and type(d0.value) is int):
            ctx.bad("proof-starts-empty:HexaryTrie._get_proof", f.loc(), "the proven length does not default to 0")
    if rets == {("call", "ext:tuple", (inner,), ())} or (wrapped and rets == {inner}):
        ctx.ok("proof-entry:HexaryTrie.get_proof", g.loc(), "get_proof(key) = tuple(%s(root node, nibbles(key)))" % f.name)
    else:
        ctx.bad("proof-entry:HexaryTrie.get_proof", g.loc(), "get_proof returns `%s`" % "; ".join(tstr(r)[:70] for r in rets))


def _ts5_verifier(ctx):
    eng = S(ctx)
    # verifier: every proof node stored with _set_raw_node (root-addressable), read through at_root(root_hash).get(key)
    v = H(ctx, "get_from_proof")
    srn = H(ctx, "_set_raw_node")
    loops = [n_ for n_ in walk_shallow(v.node) if isinstance(n_, ast.For)]
    okv = False
    why = "no loop over the proof nodes"
    for lp in loops:
        if isinstance(lp.iter, ast.Name) and lp.iter.id == v.params[3] and isinstance(lp.target, ast.Name):
            calls = [n_ for n_ in ast.walk(lp) if isinstance(n_, ast.Call)]
            stores = [c_ for c_ in calls if any(t.kind == "def" and t.func is srn for t in ctx.R.resolve_call(c_, v, count=False))]
            if len(stores) == 1 and stores[0].args and isinstance(stores[0].args[0], ast.Name) and stores[0].args[0].id == lp.target.id:
                okv = True
            else:
                why = "proof nodes are not stored with _set_raw_node(node) (which hashes every node, including short ones: the root is always addressed by hash)"
    c = "verifier-stores-every-node:HexaryTrie.get_from_proof"
    if okv:
        ctx.ok(c, v.loc(), "each proof node is stored under its keccak via _set_raw_node, whatever its size")
    else:
        ctx.bad(c, v.loc(), why)
    rets = set()
    for p, st in pq.states(ctx, v, unroll=1):
        if p.exit[0] == "return":
            rets.add(st.ret)
    okr = rets and all(r[0] == "call" and r[1] == HEX + ".get" and r[2][1] == ("p", v.params[2]) and r[2][0][0] == "with"
                       and r[2][0][1][0] == "call" and r[2][0][1][1] == HEX + ".at_root" and r[2][0][1][2][1] == ("p", v.params[1]) for r in rets)
    if okr:
        ctx.ok("verifier-reads-at-root:HexaryTrie.get_from_proof", v.loc(), "the answer is at_root(root_hash).get(key) over the scratch db")
    else:
        ctx.bad("verifier-reads-at-root:HexaryTrie.get_from_proof", v.loc(), "the verifier does not answer with at_root(root_hash).get(key): `%s`" % "; ".join(tstr(r)[:60] for r in rets))


# ---------------------------------------------------------------------------
@rule("ROUTE1", ["C01", "C02", "C05", "C06"])
def route1(ctx, pid):
    """set(k, b'') takes the delete path; dict syntax / exists are the method semantics (SIB1);
    a value slot is returned only when the key is fully consumed (ABS3)."""
    eng = S(ctx)
    f = H(ctx, "set")
    val = ("p", f.params[2])
    rows = {}
    for p, st in pq.states(ctx, f):
        for ev in st.events:
            if ev.k == "call" and ev.a == "ok" and isinstance(ev.node, ast.Call):
                tg = ctx.R.resolve_call(ev.node, f, count=False)[0]
                if tg.kind == "def" and tg.func.name in ("_set", "_delete") and tg.func.cls is f.cls:
                    empty = None
                    lo, hi = eng.len_of(val, st.facts)
                    if hi == 0 or st.facts.eq.get(val) == b"":
                        empty = True
                    elif lo >= 1 or b"" in st.facts.ne.get(val, ()):
                        empty = False
                    rows.setdefault(tg.func.name, set()).add(empty)
                    args = [eng.ev(a, f, st) for a in ev.node.args]
                    rootn = ("call", HEX + ".get_node", (("self",), ("attr", ("self",), "root_hash")), ())
                    k = ("call", NIB + "bytes_to_nibbles", (("p", f.params[1]),), ())
                    if args[:2] != [rootn, k] or (tg.func.name == "_set" and args[2:] != [val]):
                        rows.setdefault("badargs", set()).add(tstr(("tuple", tuple(args)))[:80])
    c = "empty-value-deletes:HexaryTrie.set"
    if rows == {"_set": {False}, "_delete": {True}}:
        ctx.ok(c, f.loc(), "_delete(root, key) exactly when value == b''; otherwise _set(root, key, value)")
    else:
        ctx.bad(c, f.loc(), "routing of set: insert path taken for value-empty in %s, delete path for value-empty in %s%s; an empty value must delete"
                % (sorted(map(str, rows.get("_set", []))), sorted(map(str, rows.get("_delete", []))), "; wrong arguments %s" % sorted(rows["badargs"]) if "badargs" in rows else ""))
    g = H(ctx, "delete")
    ok = False
    for p, st in pq.states(ctx, g):
        for ev in st.events:
            if ev.k == "call" and ev.a == "ok" and isinstance(ev.node, ast.Call):
                tg = ctx.R.resolve_call(ev.node, g, count=False)[0]
                if tg.kind == "def" and tg.func.name == "_delete":
                    args = [eng.ev(a, g, st) for a in ev.node.args]
                    ok = args == [("call", HEX + ".get_node", (("self",), ("attr", ("self",), "root_hash")), ()), ("call", NIB + "bytes_to_nibbles", (("p", g.params[1]),), ())]
    if ok:
        ctx.ok("delete-route:HexaryTrie.delete", g.loc(), "delete(key) = _delete(root node, nibbles(key))")
    else:
        ctx.bad("delete-route:HexaryTrie.delete", g.loc(), "delete does not call _delete(root node, nibbles(key))")
    for name in ("set", "delete"):
        h = H(ctx, name)
        sr = H(ctx, "_set_root_node")
        okr = False
        for p, st in pq.states(ctx, h):
            if p.exit[0] in ("fall", "return"):
                calls = [ev for ev in st.events if ev.k == "call" and ev.a == "ok" and isinstance(ev.node, ast.Call)
                         and any(t.kind == "def" and t.func is sr for t in ctx.R.resolve_call(ev.node, h, count=False))]
                if len(calls) == 1:
                    a = eng.ev(calls[0].node.args[0], h, st)
                    okr = a[0] == "call" and a[1] in (HEX + "._set", HEX + "._delete")
                else:
                    okr = False
                    break
        if okr:
            ctx.ok("new-root-installed:HexaryTrie.%s" % name, h.loc(), "the node returned by the mutation becomes the root on every successful path")
        else:
            ctx.bad("new-root-installed:HexaryTrie.%s" % name, h.loc(), "a successful path does not install the mutated node as the new root")
    # SIB1
    c_ = ctx.P.cls(HEX)
    for dn, mn in (("__getitem__", "get"), ("__setitem__", "set"), ("__delitem__", "delete"), ("__contains__", "exists")):
        d = c_.methods.get(dn)
        if d is None:
            raise AnalysisError("anchor vanished: HexaryTrie.%s" % dn)
        calls = [n for n in walk_shallow(d.node) if isinstance(n, ast.Call)]
        ok = len(calls) == 1 and any(t.kind == "def" and t.func is c_.methods[mn] for t in ctx.R.resolve_call(calls[0], d, count=False)) \
            and [a.id if isinstance(a, ast.Name) else None for a in calls[0].args] == d.params[1:] \
            and (mn in ("set", "delete") or any(isinstance(n, ast.Return) and util.ret_deref(d, n) is calls[0] for n in walk_shallow(d.node)))
        if ok:
            ctx.ok("dunder:HexaryTrie.%s" % dn, d.loc(), "forwards its arguments in order to %s" % mn, nontrivial=False, rule="SIB1")
        else:
            ctx.bad("dunder:HexaryTrie.%s" % dn, d.loc(), "%s is not `%s(%s)`" % (dn, mn, ", ".join(d.params[1:])), rule="SIB1")
    ex = c_.methods["exists"]
    rets = pq.rets(ctx, ex)
    gk = ("call", HEX + ".get", (("self",), ("p", ex.params[1])), ())
    w = ("!=", gk, C(b""))
    tab = pq.bool_table(ctx, ex)
    if tab is not None and tab in ({(frozenset({("!=", gk, C(b""))}), True), (frozenset({("==", gk, C(b""))}), False)},
                                   {(frozenset({("!=", C(b""), gk)}), True), (frozenset({("==", C(b""), gk)}), False)}):
        ctx.ok("exists:HexaryTrie.exists", ex.loc(), "exists(key) is get(key) != b''", rule="SIB1")
    else:
        ctx.bad("exists:HexaryTrie.exists", ex.loc(), "exists returns `%s`, expected get(key) != b''" % "; ".join(tstr(r)[:50] for r in rets), rule="SIB1")
    # ABS3 value slots in _get
    g = H(ctx, "_get")
    split = {HEX + "._traverse_from", HEX + "._traverse", HEX + "._traverse_extension"}
    probs = []
    rows = {}
    # the locals that receive the (node, residual key) pair of the traversal
    nname = kname = None
    for n_ in walk_shallow(g.node):
        if isinstance(n_, ast.Assign) and isinstance(n_.value, ast.Call) and isinstance(n_.targets[0], ast.Tuple) and len(n_.targets[0].elts) == 2 \
                and any(t.kind == "def" and t.func.name == "_traverse" for t in ctx.R.resolve_call(n_.value, g, count=False)):
            nname, kname = (x.id if isinstance(x, ast.Name) else None for x in n_.targets[0].elts)
    for p, st in pq.states(ctx, g, split=split):
        if p.exit[0] != "return":
            continue
        node = st.env.get(nname)
        rk = st.env.get(kname)
        ks = eng.kind_of(node, st.facts) if node is not None else ALLK
        r = st.ret
        kind = next(iter(ks)) if len(ks) == 1 else "/".join(sorted(ks))
        if r == C(b""):
            rows.setdefault(kind, set()).add("blank")
            continue
        if node is not None and r[0] == "sub" and r[1] == node:
            idx = r[2]
            if kind == "LEAF":
                okv = idx in (C(1), C(-1)) and any(rel_norm(t, pol) in (("==", rk, ("call", NODES + "extract_key", (node,), ())), ("==", ("call", NODES + "extract_key", (node,), ()), rk)) for t, pol, _ in st.log)
                if not okv:
                    probs.append("leaf value `%s` is returned without remaining_key == extract_key(node)" % tstr(r)[:30])
                rows.setdefault(kind, set()).add("value")
            elif kind == "BRANCH":
                lo, hi = eng.len_of(rk, st.facts) if rk is not None else (0, INF)
                if idx not in (C(16), C(-1)) or hi != 0:
                    probs.append("branch slot `%s` is returned with a residual key of length [%s,%s]; the value slot is node[16] and requires the key to be consumed" % (tstr(r)[:30], lo, hi))
                rows.setdefault(kind, set()).add("value")
            else:
                probs.append("a slot of a %s node is returned as the value" % kind)
        else:
            probs.append("_get returns `%s`" % tstr(r)[:50])
    c = "value-slots:HexaryTrie._get"
    if probs:
        ctx.bad(c, g.loc(), probs[0], rule="ABS3", witness={"problems": sorted(set(probs))})
    elif not ({"LEAF", "BRANCH"} <= set(rows)):
        ctx.bad(c, g.loc(), "_get lost the leaf or branch arm: %s" % {k: sorted(v) for k, v in rows.items()}, rule="ABS3")
    else:
        ctx.ok(c, g.loc(), "leaf value only under residual == leaf key; branch value slot only with an empty residual; blank / extension answer b''", rule="ABS3")


# ---------------------------------------------------------------------------
@rule("RECOUNT", ["C06"])
def recount(ctx, pid):
    """regenerate_ref_count - the recount the property names as the reference: a worklist started at the root
    hash; a popped reference is skipped exactly when it is b'', an embedded node (list) or the blank root hash;
    every other reference is counted once and its node expanded: branch -> the 16 children, extension -> the
    child, leaf / blank -> nothing."""
    eng = S(ctx)
    f = H(ctx, "regenerate_ref_count")
    cm = ctx.P.modules["trie.constants"]
    bnh = ctx.P.const(cm, "BLANK_NODE_HASH")
    root = ("attr", ("self",), "root_hash")
    probs = []
    rows = {}
    n_it = 0
    for p, st in pq.states(ctx, f, unroll=1):
        # the first popped reference
        K = None
        counted = []
        node1 = None
        pushes = []
        conds = set()
        for ev in st.events:
            if ev.k == "call" and ev.a == "ok" and isinstance(ev.node, ast.Call):
                tg = ctx.R.resolve_call(ev.node, f, count=False)[0]
                if tg.kind == "cmeth" and tg.meth == "pop" and K is None:
                    # the local the popped reference is bound to
                    for e2 in st.events:
                        if e2.k == "stmt" and isinstance(e2.node, ast.Assign) and e2.node.value is ev.node and isinstance(e2.node.targets[0], ast.Name):
                            K = st.env.get(e2.node.targets[0].id)
                    if K is None:
                        K = eng.ev(ev.node, f, st)
                elif tg.kind == "def" and tg.func.name == "get_node" and node1 is None and K is not None:
                    a = eng.ev(ev.node.args[0], f, st) if ev.node.args else None
                    t = eng.ev(ev.node, f, st)
                    if a == K:
                        node1 = t
                    else:
                        probs.append((ev.node, "the node that is expanded is get_node(%s), not the reference just popped" % (tstr(a)[:40] if a else "?")))
                elif tg.kind == "cmeth" and tg.meth in ("extend", "append", "insert") and node1 is not None:
                    arg = eng.ev(ev.node.args[0], f, st) if ev.node.args else None
                    if arg is not None and node1 in list(_subterms(arg)) + [arg]:
                        pushes.append((tg.meth, arg))
            if ev.k == "stmt" and isinstance(ev.node, ast.AugAssign) and isinstance(ev.node.target, ast.Name) and isinstance(ev.node.op, ast.Add) and node1 is not None:
                # worklist += [x]  /  worklist += xs   are append / extend
                v_ = ev.node.value
                if isinstance(v_, ast.List) and len(v_.elts) == 1:
                    a_ = eng.ev(v_.elts[0], f, st)
                    if node1 in list(_subterms(a_)) + [a_]:
                        pushes.append(("append", a_))
                else:
                    a_ = eng.ev(v_, f, st)
                    if node1 in list(_subterms(a_)) + [a_]:
                        pushes.append(("extend", a_))
            if ev.k == "stmt" and isinstance(ev.node, ast.AugAssign) and isinstance(ev.node.target, ast.Subscript):
                idx = eng.ev(ev.node.target.slice, f, st)
                val = eng.ev(ev.node.value, f, st)
                counted.append((idx, type(ev.node.op).__name__, val))
        if K is None:
            continue
        wl = K[2][0] if K[0] == "call" and K[1] == "m:pop" else None
        if wl is not None and wl[0] == "mut":
            wl = wl[1]
        if wl != ("list", (root,)):
            probs.append((f.node, "the worklist does not start as [self.root_hash] (popped `%s`)" % tstr(K)[:60]))
            continue
        n_it += 1
        first = [c_ for c_ in counted if c_[0] == K]
        if first:
            if first[0][1:] != ("Add", C(1)) or len(first) != 1:
                probs.append((f.node, "a reference is counted by `%s`, expected exactly += 1" % (first,)))
            # what was known about the popped reference when it was counted
            for t, pol, _ in st.log:
                r = rel_norm(t, pol) or truth_norm(t, pol)
                if K in list(_subterms(r)) or (isinstance(r, tuple) and K in r):
                    if r[0] == "notin" and r[2][0] == "c" and isinstance(r[2][1], (tuple, frozenset)):
                        for v_ in r[2][1]:  # K not in (a, b)  is  K != a and K != b
                            conds.add(("!=", r[1], C(v_)))
                    elif r[0] == "notin" and r[2][0] in ("tuple", "list", "set"):
                        for v_ in r[2][1]:
                            conds.add(("!=", r[1], v_))
                    else:
                        conds.add(r)
            want = {("!=", K, C(b"")), (("call", "ext:isinstance", (K, ("g", "list")), ()), False), ("!=", K, C(bnh))}
            got = {c_ for c_ in conds if not (c_[0] in ("==", "!=") and False)}
            if not want <= got:
                miss = want - got
                probs.append((f.node, "a reference is counted without the skip test `%s` (b'' / embedded node / BLANK_NODE_HASH are not stored nodes)" % tstr(sorted(miss, key=str)[0])[:70]))
            extra = {c_ for c_ in got - want if not _about_node(c_, node1)}
            if extra:
                probs.append((f.node, "a reference is counted only under the extra condition `%s`: stored nodes would be left out of the recount" % tstr(sorted(extra, key=str)[0])[:70]))
        if node1 is not None and not first:
            probs.append((f.node, "a reference is expanded without being counted by `+= 1` first"))
        if node1 is not None:
            ks = eng.kind_of(node1, st.facts)
            if len(ks) == 1:
                rows.setdefault(next(iter(ks)), set()).add(tuple(pushes))
            elif pushes:
                probs.append((f.node, "children are pushed without the node's type being decided"))
    want_rows = {
        "BRANCH": {(("extend", ("slice", None, None, C(16))),)},
        "EXT": {(("append", ("sub", None, C(1))),)},
        "LEAF": {()},
        "BLANK": {()},
    }
    for k, wr in want_rows.items():
        got = rows.get(k)
        if got is None:
            if k in ("BRANCH", "EXT"):
                probs.append((f.node, "no path expands a %s node" % k.lower()))
            continue
        shape = set()
        for pushes in got:
            shp = []
            for meth, arg in pushes:
                if arg[0] == "slice":
                    hi_ = arg[3]
                    if k == "BRANCH" and hi_ == C(-1):
                        hi_ = C(16)  # a branch has 17 items: all but the last are the 16 children
                    shp.append((meth, ("slice", None, arg[2], hi_)))
                elif arg[0] == "sub":
                    shp.append((meth, ("sub", None, arg[2])))
                else:
                    shp.append((meth, arg))
            shape.add(tuple(shp))
        if shape != wr:
            probs.append((f.node, "a %s node pushes %s, expected %s" % (k.lower(), sorted(map(str, shape)), sorted(map(str, wr)))))
    if any(isinstance(nd, ast.Break) for nd in ast.walk(f.node)):
        probs.append((f.node, "the worklist loop is left by `break`: references still on the worklist are never counted"))
    c = "recount-table:HexaryTrie.regenerate_ref_count"
    if probs:
        node, why = probs[0]
        ctx.bad(c, f.loc(node), why, witness={"problems": sorted({w for _, w in probs})})
    elif n_it < 3 or not {"BRANCH", "EXT"} <= set(rows):
        ctx.unsure(c, f.loc(), "regenerate_ref_count has a shape the rule does not recognise (%d iterations, kinds %s)" % (n_it, sorted(rows)))
    else:
        ctx.ok(c, f.loc(), "worklist from [root_hash]; skip exactly b'' / embedded list / BLANK_NODE_HASH; count += 1; branch -> node[:16], extension -> node[1], leaf / blank -> nothing")
    # the result is the freshly built table
    def _base(t):
        while t is not None and t[0] == "upd":
            t = t[1]
        return t
    rets = {_base(st.ret) for p, st in pq.states(ctx, f, unroll=1) if p.exit[0] == "return"}
    if len(rets) == 1 and next(iter(rets))[0] == "call" and "defaultdict" in next(iter(rets))[1]:
        ctx.ok("recount-result:HexaryTrie.regenerate_ref_count", f.loc(), "returns the table it built", nontrivial=False)
    else:
        ctx.bad("recount-result:HexaryTrie.regenerate_ref_count", f.loc(), "returns `%s`, not the recomputed table" % "; ".join(tstr(r)[:40] for r in rets))


def _about_node(r, node1):
    """a condition about the loaded node (its type), not about the reference"""
    if node1 is None:
        return False
    return node1 in list(_subterms(r))
