"""Validation dominance (taint form): VAL1 (bytes), VAL2 (length), VAL3 (constructor guards), VAL4 (Nibbles)."""
import ast
import itertools

from ..core import rule
from ..model import walk_shallow, AnalysisError
from .. import util
from ..util import Trace, fkey
from .eff import HEX, BIN, SMT, sym

PROOF = "trie.smt:SparseMerkleProof"
VMOD = "trie.validation:"
BYTES_VALIDATORS = {VMOD + "validate_is_bytes"}
NODE_VALIDATORS = {VMOD + "validate_is_node", VMOD + "validate_is_bin_node"}
NIBBLES_CTOR = "trie.typing:Nibbles"
# byte-consuming conversions: role 'key' / 'value'
CONV_SINKS = {
    "trie.utils.nibbles:bytes_to_nibbles": "key",
    "trie.utils.binaries:encode_to_bin": "key",
    "ext:eth_utils.to_int": "key",
    "ext:eth_hash.auto.keccak": "value",
    "ext:eth_utils.keccak": "value",
    "trie.utils.nodes:encode_leaf_node": "value",
}
EXEMPT_STATES = {"PEND"}  # transient pending-prune store of prune_pending is covered by ORD3
WRITE_OPS = {"W", "D", "SET", "M", "DELATTR"}


def entry_points(ctx):
    es = []
    for cq in (HEX, BIN, SMT, PROOF):
        for f in util.public_entries(ctx, cq):
            es.append(f)
    for f in util.module_functions(ctx, "trie.branches", public_only=True):
        es.append(f)
    cr = ctx.P.funcs.get("trie.smt:calc_root")
    if cr is None:
        raise AnalysisError("anchor vanished: trie.smt:calc_root")
    es.append(cr)
    return es


class Taint:
    """Per (function, parameter): order of sanitiser / sink / write-effect events on every path."""

    def __init__(self, ctx):
        self.ctx = ctx
        self._check = {}
        self._sink = {}
        self._traces = {}

    def trace(self, f):
        if f.qual not in self._traces:
            self._traces[f.qual] = Trace(self.ctx, f)
        return self._traces[f.qual]

    # -- aliases of a parameter inside f ---------------------------------
    def aliases(self, f, p):
        """names that hold p unchanged, and names that hold an element of p"""
        same, elem = {p}, set()
        changed = True
        while changed:
            changed = False
            for n in walk_shallow(f.node):
                if isinstance(n, ast.Assign) and isinstance(n.value, ast.Name) and n.value.id in same:
                    for t in n.targets:
                        if isinstance(t, ast.Name) and t.id not in same:
                            same.add(t.id)
                            changed = True
                elif isinstance(n, (ast.For, ast.comprehension)) and isinstance(n.iter, ast.Name) and n.iter.id in same:
                    if isinstance(n.target, ast.Name) and n.target.id not in elem:
                        elem.add(n.target.id)
                        changed = True
        return same, elem

    def _callee_key(self, call, f):
        tgs = self.ctx.R.resolve_call(call, f, count=False)
        t = tgs[0]
        if t.kind == "def":
            return t.func.qual, t
        if t.kind == "ctor":
            return t.cls.qual, t
        if t.kind == "ext":
            return "ext:" + t.name, t
        return None, t

    def _param_of_arg(self, call, tg, f, names):
        """[(callee Func, callee param)] for arguments that are exactly one of `names`."""
        out = []
        if tg.kind == "def":
            g = tg.func
            skip = g.cls is not None and not g.is_static
        elif tg.kind == "ctor":
            g = tg.cls.methods.get("__init__") or tg.cls.methods.get("__new__")
            skip = True
        else:
            return out
        if g is None:
            return out
        amap = self.ctx.E.bind_args(call, g, skip_self=skip)
        for pn, a in amap.items():
            if isinstance(a, ast.Name) and a.id in names:
                out.append((g, pn))
        return out

    # -- does the parameter reach a byte sink (role) -------------------------
    def sink_role(self, f, p, depth=0):
        key = (f.qual, p)
        if key in self._sink:
            return self._sink[key]
        self._sink[key] = None
        if depth > 6:
            return None
        same, elem = self.aliases(f, p)
        names = same | elem
        role = None
        for n in walk_shallow(f.node):
            if isinstance(n, ast.Call):
                k, tg = self._callee_key(n, f)
                direct = [a for a in list(n.args) + [kw.value for kw in n.keywords] if isinstance(a, ast.Name) and a.id in names]
                if k in CONV_SINKS and direct:
                    role = role or CONV_SINKS[k]
                for g, q in self._param_of_arg(n, tg, f, names):
                    r = self.sink_role(g, q, depth + 1)
                    if r:
                        role = role or r
            elif isinstance(n, ast.List) and isinstance(n.ctx, ast.Load):
                if any(isinstance(e, ast.Name) and e.id in names for e in n.elts) and f.module.name == "trie.hexary":
                    role = role or "value"
            elif isinstance(n, ast.Assign):
                for t in n.targets:
                    if isinstance(t, ast.Attribute) and t.attr == "root_hash" and isinstance(n.value, ast.Name) and n.value.id in names:
                        role = role or "root"
                    if isinstance(t, ast.Subscript) and isinstance(n.value, ast.Name) and n.value.id in names and f.module.name == "trie.hexary":
                        role = role or "value"  # node[-1] = value
        self._sink[key] = role
        return role

    # -- dominance check ------------------------------------------------------
    def check(self, f, p, validators, depth=0, is_entry=False):
        """None if on every path of f the parameter is sanitised before its first sink use and
        before the first write effect; else a witness string."""
        key = (f.qual, p, tuple(sorted(validators)))
        if key in self._check:
            return self._check[key]
        self._check[key] = None  # recursion guard: assume ok
        if depth > 6:
            return None
        ctx = self.ctx
        same, elem = self.aliases(f, p)
        names = same | elem
        tr = self.trace(f)
        ctor_self = f.name in ("__init__", "__new__")
        wit = None
        # per-element validation loops: `for x in p: validate(x)` at the top level of the body
        elem_loop_end = None
        body = f.node.body
        if len(body) == 1 and isinstance(body[0], ast.With) and f.wrapped_by:
            body = body[0].body
        for st_ in body:
            if isinstance(st_, ast.For) and isinstance(st_.iter, ast.Name) and st_.iter.id in same and isinstance(st_.target, ast.Name):
                for c_ in ast.walk(st_):
                    if isinstance(c_, ast.Call) and c_.args and isinstance(c_.args[0], ast.Name) and c_.args[0].id == st_.target.id:
                        kk, _ = self._callee_key(c_, f)
                        if kk in validators:
                            elem_loop_end = st_.end_lineno
        for path in ctx.X.paths(f):
            clean = False
            for ev in path.events:
                if ev.k in ("call", "src") and ev.a != "ok":
                    continue
                if ev.k == "call" and isinstance(ev.node, ast.Call):
                    call = ev.node
                    k, tg = self._callee_key(call, f)
                    args = [a for a in list(call.args) + [kw.value for kw in call.keywords]]
                    direct = [a for a in args if isinstance(a, ast.Name) and a.id in names]
                    first_direct = bool(call.args) and isinstance(call.args[0], ast.Name) and call.args[0].id in names
                    if k in validators and first_direct:
                        clean = True
                        continue
                    if k == NIBBLES_CTOR and first_direct and NIBBLES_CTOR in validators:
                        clean = True
                        continue
                    if clean:
                        continue
                    if k in CONV_SINKS and direct and all(a.id in elem for a in direct) and elem_loop_end is not None \
                            and call.lineno > elem_loop_end:
                        continue  # every element was validated by the preceding loop
                    if k in CONV_SINKS and direct:
                        wit = "%s: `%s` consumes `%s` before it is validated" % (f.loc(call), ast.unparse(call)[:50], p)
                        break
                    fw = self._param_of_arg(call, tg, f, names)
                    handled = False
                    for g, q in fw:
                        memo = [d for d in g.decos if d.split(".")[-1] in ("lru_cache", "cache") or "memoize" in d]
                        if memo and self._validates_somewhere(g, q, validators):
                            wit = "%s: `%s` is validated inside %s, which is wrapped in `%s`: the arguments are hashed before the validator runs (a bytearray raises TypeError instead) and a cache hit (an equal memoryview) skips it" \
                                % (f.loc(call), p, g.short, memo[0])
                            handled = True
                            break
                        sub = self.check(g, q, validators, depth + 1)
                        if sub is None and self._validates_somewhere(g, q, validators):
                            clean = True
                            handled = True
                            break
                        if sub is not None and (self.sink_role(g, q) or self._has_write(g)):
                            wit = "%s: forwarded unvalidated to %s -> %s" % (f.loc(call), g.short, sub)
                            handled = True
                            break
                    if wit:
                        break
                    if handled:
                        continue
                # write effects at this event
                for e in tr.at(ev):
                    if clean:
                        break
                    if e.op in WRITE_OPS and util.real(e) and e.state not in EXEMPT_STATES and e.loc[0][0] != "local":
                        if ctor_self and e.loc[0][0] == "self":
                            continue  # the object under construction
                        if e.state is None and e.loc[0][0] in ("param",) and e.op == "M":
                            continue
                        wit = "%s: write effect %s %s happens before `%s` is validated" % (e.where(), e.op, e.state, p)
                        break
                if wit:
                    break
                # direct structural sinks in statements
                if ev.k == "stmt" and not clean:
                    s = ev.node
                    if isinstance(s, ast.Assign):
                        for t in s.targets:
                            if isinstance(t, ast.Attribute) and t.attr == "root_hash" and isinstance(s.value, ast.Name) and s.value.id in names \
                                    and not (ctor_self and False):
                                wit = "%s: `%s` stored as root hash before validation" % (f.loc(s), p)
                    if wit:
                        break
            if wit:
                break
        self._check[key] = wit
        return wit

    def _validates_somewhere(self, g, q, validators, depth=0):
        """g (or a callee it forwards q to) calls a validator on q."""
        if depth > 6:
            return False
        same, elem = self.aliases(g, q)
        names = same | elem
        for n in walk_shallow(g.node):
            if isinstance(n, ast.Call):
                k, tg = self._callee_key(n, g)
                if (k in validators) and n.args and isinstance(n.args[0], ast.Name) and n.args[0].id in names:
                    return True
                for h, r in self._param_of_arg(n, tg, g, names):
                    if self._validates_somewhere(h, r, validators, depth + 1):
                        return True
        return False

    def _has_write(self, g):
        return any(e.op in WRITE_OPS and util.real(e) and e.state not in EXEMPT_STATES for e in self.ctx.E.summaries().get(g.qual, ()))


NIBBLE_ANN = ("NibblesInput", "Nibbles", "Sequence[NibblesInput]")
CONFIG_PARAMS = {"db", "prune", "ref_count", "key_size", "default", "parent_node"}


@rule("VAL1", ["C18"])
def val1(ctx, pid):
    """Every key / value / root / node parameter of a public entry point that reaches a byte-consuming
    sink is validated before that sink and before the first write effect, on every path."""
    T = Taint(ctx)
    ctx.cache["taint"] = T
    n_ob = n_info = 0
    for f in entry_points(ctx):
        params = [p for p in f.all_params() if p != f.self_name and not (f.is_classmethod and p == f.params[0])]
        for p in params:
            c = "param:%s(%s)" % (fkey(f), p)
            ann = f.annotation(p)
            anns = ast.unparse(ann) if ann is not None else ""
            if anns in NIBBLE_ANN:
                continue  # VAL4
            role = T.sink_role(f, p)
            if role is None or p in CONFIG_PARAMS:
                n_info += 1
                ctx.info(c, f.loc(), "no byte-consuming sink reached (role: configuration / lookup key into a caller-supplied mapping)")
                continue
            n_ob += 1
            validators = BYTES_VALIDATORS | NODE_VALIDATORS
            w = T.check(f, p, validators, is_entry=True)
            if w is None and not T._validates_somewhere(f, p, validators):
                w = "%s: parameter reaches a %s sink and is never validated" % (f.loc(), role)
            if w is None:
                ctx.ok(c, f.loc(), "role %s: validated before its first sink and before any write effect on every path" % role)
            else:
                ctx.bad(c, f.loc(), "role %s: %s" % (role, w), witness={"entry": f.qual, "param": p, "detail": w})
    ctx.expect_min("(entry, parameter) pairs with a byte sink", n_ob, 40, "measured at design time: 55")
    ctx.expect_min("public entry points", len(entry_points(ctx)), 45, "HexaryTrie, BinaryTrie, SparseMerkleTree, SparseMerkleProof, branches, calc_root")


# ---------------------------------------------------------------------------
def _length_calls(ctx, f):
    """[(call, first arg expr, second arg expr)] of validate_length in f"""
    out = []
    for n in walk_shallow(f.node):
        if isinstance(n, ast.Call) and len(n.args) == 2:
            tgs = ctx.R.resolve_call(n, f, count=False)
            if tgs and tgs[0].kind == "def" and tgs[0].func.qual == VMOD + "validate_length":
                out.append((n, n.args[0], n.args[1]))
    return out


def _dominates(ctx, f, dom_node, target_pred):
    """On every path, an 'ok' call event on dom_node precedes the first event satisfying target_pred."""
    n = 0
    for p in ctx.X.paths(f):
        seen = False
        for ev in p.events:
            if ev.k == "call" and ev.a == "ok" and ev.node is dom_node:
                seen = True
            elif target_pred(ev):
                n += 1
                if not seen:
                    return False, n
                break
    return True, n


def _is_sink_call(ctx, f, ev, names, sinks):
    if ev.k != "call" or ev.a != "ok" or not isinstance(ev.node, ast.Call):
        return False
    tgs = ctx.R.resolve_call(ev.node, f, count=False)
    t = tgs[0]
    k = t.func.qual if t.kind == "def" else ("ext:" + t.name if t.kind == "ext" else None)
    if k not in sinks:
        return False
    return any(isinstance(a, ast.Name) and a.id in names for a in ev.node.args)


@rule("VAL2", ["C18", "C15"])
def val2(ctx, pid):
    """Length validation dominates the uses that rely on it."""
    n = 0
    # (a) key -> to_int in classes with a key-size field
    for cq in (SMT, PROOF):
        for f in util.class_functions(ctx, cq):
            if pid == "C15" and not (cq == PROOF and f.name == "update"):
                continue
            if "key" not in f.params or f.name in ("__init__",):
                continue
            uses = [c for c in walk_shallow(f.node) if isinstance(c, ast.Call) and c.args and isinstance(c.args[0], ast.Name)
                    and c.args[0].id == "key" and any(t.kind == "ext" and t.name == "eth_utils.to_int" for t in ctx.R.resolve_call(c, f, count=False))]
            if not uses:
                continue
            n += 1
            c = "keylen:%s" % fkey(f)
            lcs = [(call, a, b) for call, a, b in _length_calls(ctx, f)
                   if isinstance(a, ast.Name) and a.id == "key" and util.self_attr(b, f, "_key_size")]
            if not lcs:
                ctx.bad(c, f.loc(uses[0]), "`to_int(key)` is not preceded by validate_length(key, self._key_size)")
                continue
            ok, cnt = _dominates(ctx, f, lcs[0][0], lambda ev: _is_sink_call(ctx, f, ev, {"key"}, {"ext:eth_utils.to_int"}))
            if ok:
                ctx.ok(c, f.loc(lcs[0][0]), "validate_length(key, self._key_size) dominates to_int(key) on %d paths" % cnt)
            else:
                ctx.bad(c, f.loc(uses[0]), "a path reaches to_int(key) without validate_length(key, self._key_size)")
    if pid == "C15":
        ctx.expect_min("SparseMerkleProof.update key-length obligations", n, 1, "update")
        return
    # (b) branch parameter: validate_length(branch, len(key) * 8) before it is iterated / sized
    for q in ("trie.smt:calc_root", PROOF + ".__init__"):
        f = ctx.P.func(q)
        c = "branchlen:%s" % fkey(f)
        n += 1
        lcs = []
        for call, a, b in _length_calls(ctx, f):
            if isinstance(a, ast.Name) and a.id == "branch":
                src = ast.unparse(util.expand_locals(ctx, f, b)).replace(" ", "")
                if src in ("len(key)*8", "8*len(key)"):
                    lcs.append(call)
        if not lcs:
            ctx.bad(c, f.loc(), "no validate_length(branch, len(key) * 8)")
            continue

        def uses_branch(ev):
            if ev.k == "call" and ev.a == "ok" and ev.node is not lcs[0]:
                return any(isinstance(x, ast.Name) and x.id == "branch" for a in ev.node.args for x in ast.walk(a))
            if ev.k == "bind" and ev.a == "for":
                return any(isinstance(x, ast.Name) and x.id == "branch" for x in ast.walk(ev.b))
            if ev.k == "stmt" and isinstance(ev.node, ast.Assign):
                return any(isinstance(x, ast.Name) and x.id == "branch" for x in ast.walk(ev.node.value))
            return False

        ok, cnt = _dominates(ctx, f, lcs[0], uses_branch)
        if ok:
            ctx.ok(c, f.loc(lcs[0]), "validate_length(branch, len(key) * 8) dominates every use of branch")
        else:
            ctx.bad(c, f.loc(), "branch is used on a path before its length is validated")
    # (b2) SparseMerkleProof construction: key and value are byte strings before anything is stored
    f = ctx.P.func(PROOF + ".__init__")
    for pn in f.params[1:3]:
        n += 1
        c = "ctor-bytes:%s(%s)" % (fkey(f), pn)
        vcalls = []
        for n_ in walk_shallow(f.node):
            if isinstance(n_, ast.Call) and any(t.kind == "def" and t.func.qual in BYTES_VALIDATORS for t in ctx.R.resolve_call(n_, f, count=False)) \
                    and n_.args and isinstance(n_.args[0], ast.Name) and n_.args[0].id == pn:
                vcalls.append(n_)
        if not vcalls:
            ctx.bad(c, f.loc(), "SparseMerkleProof(%s=..) is not checked with validate_is_bytes: a non-bytes %s is stored and fails later, in update / root_hash" % (pn, pn))
            continue

        def stores(ev):
            return ev.k == "stmt" and isinstance(ev.node, (ast.Assign, ast.AugAssign, ast.AnnAssign)) and any(
                isinstance(t, ast.Attribute) for t in (ev.node.targets if isinstance(ev.node, ast.Assign) else [ev.node.target]))
        ok, cnt = _dominates(ctx, f, vcalls[0], stores)
        if ok:
            ctx.ok(c, f.loc(vcalls[0]), "validate_is_bytes(%s) dominates every attribute store of the constructor" % pn)
        else:
            ctx.bad(c, f.loc(), "the proof object is written before `%s` is validated" % pn)
    # (c) from_db root hash is 32 bytes
    f = ctx.P.func(SMT + ".from_db")
    n += 1
    lcs = [call for call, a, b in _length_calls(ctx, f) if isinstance(a, ast.Name) and a.id == "root_hash"
           and isinstance(b, ast.Constant) and b.value == 32]
    c = "rootlen:%s" % fkey(f)
    if not lcs:
        ctx.bad(c, f.loc(), "from_db does not validate_length(root_hash, 32)")
    else:
        def stores_root(ev):
            return ev.k == "stmt" and isinstance(ev.node, ast.Assign) and any(
                isinstance(t, ast.Attribute) and t.attr == "root_hash" for t in ev.node.targets)
        ok, cnt = _dominates(ctx, f, lcs[0], stores_root)
        if ok:
            ctx.ok(c, f.loc(lcs[0]), "validate_length(root_hash, 32) dominates the root store")
        else:
            ctx.bad(c, f.loc(), "root hash stored before its length is validated")
    # (d) binary node encoders: child hashes are 32 bytes
    for q, ps in (("trie.utils.nodes:encode_kv_node", ["child_node_hash"]),
                  ("trie.utils.nodes:encode_branch_node", ["left_child_node_hash", "right_child_node_hash"])):
        f = ctx.P.func(q)
        for p in ps:
            n += 1
            c = "hashlen:%s(%s)" % (fkey(f), p)
            if p not in f.params:
                ctx.unsure(c, f.loc(), "parameter renamed")
                continue
            lcs = [call for call, a, b in _length_calls(ctx, f) if isinstance(a, ast.Name) and a.id == p
                   and isinstance(b, ast.Constant) and b.value == 32]
            if not lcs:
                ctx.bad(c, f.loc(), "no validate_length(%s, 32)" % p)
                continue

            def returns(ev):
                return ev.k == "return"
            ok, cnt = _dominates(ctx, f, lcs[0], returns)
            if ok:
                ctx.ok(c, f.loc(lcs[0]), "32-byte check dominates the encoding")
            else:
                ctx.bad(c, f.loc(), "a path returns an encoding without the 32-byte check of %s" % p)
    ctx.expect_min("length obligations", n, 9, "3 key-length, 2 branch-length, 1 root-length, 3 child-hash-length")


# ---------------------------------------------------------------------------
def _int_eval(e, env):
    """Tiny evaluator for integer guard expressions (finite case split)."""
    if isinstance(e, ast.Constant):
        return e.value
    if isinstance(e, ast.Name):
        return env[e.id]
    if isinstance(e, ast.UnaryOp) and isinstance(e.op, ast.Not):
        return not _int_eval(e.operand, env)
    if isinstance(e, ast.UnaryOp) and isinstance(e.op, ast.USub):
        return -_int_eval(e.operand, env)
    if isinstance(e, ast.BoolOp):
        vals = [_int_eval(v, env) for v in e.values]
        return all(vals) if isinstance(e.op, ast.And) else any(vals)
    if isinstance(e, ast.BinOp):
        l, r = _int_eval(e.left, env), _int_eval(e.right, env)
        return {ast.Add: l + r, ast.Sub: l - r, ast.Mult: l * r}[type(e.op)]
    if isinstance(e, ast.Call) and isinstance(e.func, ast.Name) and e.func.id == "range":
        return range(*[_int_eval(a, env) for a in e.args])
    if isinstance(e, ast.Compare):
        left = _int_eval(e.left, env)
        for op, right in zip(e.ops, e.comparators):
            r = _int_eval(right, env)
            ok = {ast.Lt: lambda: left < r, ast.LtE: lambda: left <= r, ast.Gt: lambda: left > r, ast.GtE: lambda: left >= r,
                  ast.Eq: lambda: left == r, ast.NotEq: lambda: left != r, ast.In: lambda: left in r,
                  ast.NotIn: lambda: left not in r}[type(op)]()
            if not ok:
                return False
            left = r
        return True
    raise KeyError("unsupported")


@rule("VAL3", ["C18"])
def val3(ctx, pid):
    """Constructor guards: key_size in 1..32; no snapshot from a pruning trie; no ref_count for a non-pruning trie."""
    # no instance of a guarded class is made behind its constructor's back
    byp = []
    for g_ in util.all_functions(ctx, include_tools=False):
        for c_ in ast.walk(g_.node):
            if isinstance(c_, ast.Call) and isinstance(c_.func, ast.Attribute) and c_.func.attr == "__new__" and c_.args:
                t0 = ctx.R.type_of(c_.args[0], g_)
                if t0 is not None and t0[0] == "cls" and t0[1].qual in (HEX, BIN, SMT, PROOF):
                    byp.append((g_, c_, t0[1]))
    if byp:
        g_, c_, cl = byp[0]
        ctx.bad("constructor-bypass:%s" % fkey(g_), g_.loc(c_), "`%s` makes a %s without running __init__: the constructor's argument checks (key size, pruning / ref_count combination, root hash type) are skipped"
                % (util.norm_src(c_), cl.name))
    else:
        ctx.ok("constructor-bypass", "trie/", "no __new__ call creates a trie object without its validating constructor", nontrivial=False)
    # (a) SparseMerkleTree.__init__
    f = ctx.P.func(SMT + ".__init__")
    tr = Trace(ctx, f)
    accept = set()
    undecided = False
    dom_ok = True
    for val in range(-3, 41):
        # which paths are feasible for key_size == val: evaluate each assume on key_size
        for p in ctx.X.paths(f):
            feasible = True
            first_store = None
            for i, ev in enumerate(p.events):
                if ev.k == "assume":
                    names = {n.id for n in ast.walk(ev.node) if isinstance(n, ast.Name)}
                    if names <= {"key_size", "range"} and "key_size" in names:
                        try:
                            if bool(_int_eval(ev.node, {"key_size": val})) != ev.a:
                                feasible = False
                                break
                        except Exception:
                            undecided = True
                if first_store is None and ev.k == "stmt" and any(e.op in ("SET", "W") and e.loc[0][0] == "self" for e in tr.at(ev)):
                    first_store = i
            if not feasible:
                continue
            raised = p.exit[0] == "raise" and p.exit[1].endswith("ValidationError")
            if not raised:
                accept.add(val)
            elif first_store is not None:
                dom_ok = False
    c = "keysize-guard:SparseMerkleTree.__init__"
    want = set(range(1, 33))
    if undecided:
        ctx.unsure(c, f.loc(), "guard on key_size has a shape the integer evaluator does not interpret")
    elif accept != want:
        extra, missing = sorted(accept - want), sorted(want - accept)
        ctx.bad(c, f.loc(), "accepted key sizes differ from 1..32: wrongly accepted %s, wrongly refused %s" % (extra[:5], missing[:5]),
                witness={"accepted": sorted(accept)})
    elif not dom_ok:
        ctx.bad(c, f.loc(), "the key_size refusal happens after a store to the object")
    else:
        ctx.ok(c, f.loc(), "ValidationError exactly for key_size outside 1..32, before any store (45 values evaluated)")
    # (b) at_root refuses pruning tries before building the snapshot
    f = ctx.P.func(HEX + ".at_root")
    S = sym(ctx)
    c = "snapshot-guard:HexaryTrie.at_root"
    bad = None
    n_prune_paths = 0
    for p in ctx.X.paths(f):
        for st in S.run(f, p):
            pruning_true = any(t == ("attr", ("self",), "is_pruning") and pol is True for t, pol, _ in st.log)
            pruning_unknown = not any(t == ("attr", ("self",), "is_pruning") for t, pol, _ in st.log)
            if pruning_true or pruning_unknown:
                if pruning_true:
                    n_prune_paths += 1
                built = any(ev.k == "call" and ev.a == "ok" and any(t.kind == "ctor" and t.cls.qual == f.cls.qual for t in ctx.R.resolve_call(ev.node, f, count=False))
                            for ev in p.events if isinstance(ev.node, ast.Call))
                if built:
                    bad = "a snapshot is constructed on a path that does not exclude self.is_pruning"
                elif pruning_true and not (p.exit[0] == "raise" and p.exit[1].endswith("ValidationError")):
                    bad = "pruning trie: path exits with %s instead of raising ValidationError" % (p.exit[:2],)
    if bad:
        ctx.bad(c, f.loc(), bad)
    elif n_prune_paths == 0:
        ctx.bad(c, f.loc(), "no path tests self.is_pruning: the snapshot guard is gone")
    else:
        ctx.ok(c, f.loc(), "is_pruning => ValidationError before any construction; snapshot only on the non-pruning path")
    # (c) HexaryTrie.__init__: ref_count with prune False -> ValueError
    f = ctx.P.func(HEX + ".__init__")
    c = "refcount-guard:HexaryTrie.__init__"
    res = {}
    for rc in ("none", "empty", "full"):
        rc_none = rc == "none"
        for prune in (True, False):
            outs = set()
            for p in ctx.X.paths(f):
                feas = True
                for ev in p.events:
                    if ev.k != "assume":
                        continue
                    src = ast.unparse(ev.node).replace(" ", "")
                    v = None
                    if src == "ref_countisNone":
                        v = rc_none
                    elif src == "ref_countisnotNone":
                        v = not rc_none
                    elif src == "ref_count":
                        v = rc == "full"  # truthiness: None and an empty mapping are both falsy
                    elif src == "prune":
                        v = prune
                    elif "ref_count" in src or "prune" in src:
                        v = "?"
                    if v == "?":
                        outs.add("?")
                    elif v is not None and v != ev.a:
                        feas = False
                        break
                if feas:
                    if p.exit[0] == "raise" and p.exit[1] != "ValueError":
                        continue  # argument validation of another parameter
                    outs.add("ValueError" if p.exit[0] == "raise" else "ok")
            res[(rc, prune)] = outs
    want = {("none", True): "ok", ("none", False): "ok", ("empty", True): "ok", ("full", True): "ok", ("empty", False): "ValueError", ("full", False): "ValueError"}
    problems = []
    for k, w in want.items():
        got = res[k] - {"raise"} if w == "ok" else res[k]
        if "?" in res[k]:
            problems.append("uninterpreted guard")
        elif w == "ValueError" and got != {"ValueError"}:
            problems.append("%s ref_count given with prune=False is not refused with ValueError (outcomes %s)" % ("an empty" if k[0] == "empty" else "a", sorted(res[k])))
        elif w == "ok" and "ValueError" in res[k]:
            problems.append("legal combination ref_count %s / prune=%s is refused" % ("None" if k[0] == "none" else "given", k[1]))
    if "uninterpreted guard" in problems:
        ctx.unsure(c, f.loc(), "guards on ref_count / prune have a shape the rule does not interpret")
    elif problems:
        ctx.bad(c, f.loc(), problems[0])
    else:
        ctx.ok(c, f.loc(), "ValueError exactly for (ref_count given, prune False); 4 combinations evaluated")


# ---------------------------------------------------------------------------
@rule("VAL4", ["C18", "C11"])
def val4(ctx, pid):
    """Nibbles.__new__ has exactly three exits; public functions taking nibble paths convert through Nibbles first."""
    f = ctx.P.func("trie.typing:Nibbles.__new__")
    if pid == "C18":
        exits = {"identity": 0, "typeerror": 0, "construct": 0, "other": 0}
        detail = []
        for p in ctx.X.paths(f):
            if p.exit[0] == "raise":
                if p.exit[1] == "TypeError":
                    exits["typeerror"] += 1
                elif p.exit[1] == "ValueError" and p.exit[3] and p.exit[3][0] == "ext":
                    pass  # element conversion failing inside tuple.__new__
                else:
                    exits["other"] += 1
                    detail.append(str(p.exit[:2]))
            elif p.exit[0] == "return":
                rv = util.path_deref(p, p.exit[1].value)
                if isinstance(rv, ast.Name) and rv.id == f.params[1]:
                    # identity only under `type(nibbles) is Nibbles`
                    ok = any(ev.k == "assume" and ev.a is True and "type(%s)isNibbles" % f.params[1] == ast.unparse(ev.node).replace(" ", "") for ev in p.events)
                    exits["identity" if ok else "other"] += 1
                    if not ok:
                        detail.append("identity return without exact type test")
                elif isinstance(rv, ast.Call) and ast.unparse(rv.func) == "tuple.__new__":
                    gen = rv.args[1] if len(rv.args) == 2 else None
                    ok = (isinstance(gen, ast.GeneratorExp) and isinstance(gen.elt, ast.Call) and ast.unparse(gen.elt.func) == "Nibble"
                          and not gen.generators[0].ifs and isinstance(gen.generators[0].iter, ast.Name)
                          and gen.generators[0].iter.id == f.params[1]
                          and isinstance(gen.elt.args[0], ast.Name) and gen.elt.args[0].id == gen.generators[0].target.id)
                    exits["construct" if ok else "other"] += 1
                    if not ok:
                        detail.append("construction does not convert every element through Nibble(..)")
                else:
                    exits["other"] += 1
                    detail.append("return " + ast.unparse(rv)[:40])
            else:
                exits["other"] += 1
                detail.append("falls off the end")
        c = "exits:Nibbles.__new__"
        if exits["other"] or not (exits["identity"] and exits["typeerror"] and exits["construct"]):
            ctx.bad(c, f.loc(), "Nibbles.__new__ exits are not {identity for exact Nibbles, TypeError, element-wise Nibble conversion}: %s %s" % (exits, detail[:2]))
        else:
            ctx.ok(c, f.loc(), "three exit kinds: identity under exact type test, TypeError for non-list-like, element-wise Nibble(..) conversion")
        # the list-like test guards the TypeError
        guarded = []
        for p in ctx.X.paths(f):
            if p.exit[0] == "raise" and p.exit[1] == "TypeError":
                guarded.append(any(ev.k == "assume" and ev.a is False and ast.unparse(ev.node).replace(" ", "") == "is_list_like(%s)" % f.params[1] for ev in p.events))
        if guarded and all(guarded):
            ctx.ok("listlike:Nibbles.__new__", f.loc(), "TypeError is guarded by `not is_list_like(..)`", nontrivial=False)
        else:
            ctx.bad("listlike:Nibbles.__new__", f.loc(), "the non-list-like test guarding TypeError is gone")
        # no other method of Nibbles may build an instance behind the validating constructor's back
        ncls = ctx.P.cls("trie.typing:Nibbles")
        byp = None
        for g in ncls.methods.values():
            if g.name == "__new__":
                continue
            for n_ in walk_shallow(g.node):
                if isinstance(n_, ast.Call) and ast.unparse(n_.func) in ("tuple.__new__", "super().__new__", "object.__new__"):
                    byp = (g, n_)
        add = ncls.methods.get("__add__")
        if byp:
            ctx.bad("constructor-bypass:Nibbles.%s" % byp[0].name, byp[0].loc(byp[1]), "`%s` builds a Nibbles without the per-element validation of Nibbles.__new__ (the exact-type fast path would then trust it everywhere)" % ast.unparse(byp[1])[:60])
        elif add is not None:
            rets = [n_ for n_ in walk_shallow(add.node) if isinstance(n_, ast.Return)]
            ok = rets and all(isinstance(util.ret_deref(add, r), ast.Call) and ast.unparse(util.ret_deref(add, r).func) in ("Nibbles", "type(self)", "self.__class__") for r in rets)
            if ok:
                ctx.ok("constructor-bypass:Nibbles", add.loc(), "concatenation re-validates through Nibbles(..)")
            else:
                ctx.bad("constructor-bypass:Nibbles.__add__", add.loc(), "Nibbles.__add__ does not return Nibbles(..) of the concatenation")
    # conversion before use in public nibble-path functions
    mods = ["trie.hexary", "trie.fog"] if pid == "C18" else ["trie.fog"]
    n = 0
    for f2 in util.all_functions(ctx, include_tools=False):
        if f2.module.name not in mods or not util.is_public(f2) or f2.cls is None:
            continue
        for p in f2.params[1:]:
            ann = f2.annotation(p)
            if ann is None:
                continue
            a = ast.unparse(ann)
            if a not in ("NibblesInput", "Nibbles", "Sequence[NibblesInput]"):
                continue
            if f2.cls.name == "Nibbles":
                continue
            n += 1
            c = "convert:%s(%s)" % (fkey(f2), p)
            uses = [x for x in walk_shallow(f2.node) if isinstance(x, ast.Name) and x.id == p and isinstance(x.ctx, ast.Load)]
            okuses = 0
            baduse = None
            for u in uses:
                par = _parent_call(f2, u)
                if par is not None and _is_nibbles_conv(ctx, f2, par, u, a):
                    okuses += 1
                else:
                    baduse = u
            if baduse is not None:
                ctx.bad(c, f2.loc(baduse), "nibble-path parameter `%s` is used without passing through Nibbles(..)" % p)
            elif okuses == 0:
                ctx.info(c, f2.loc(), "parameter unused")
            else:
                ctx.ok(c, f2.loc(), "every use of `%s` goes through Nibbles(..)" % p)
    ctx.expect_min("public nibble-path parameters", n, 5 if pid == "C11" else 8, "explore x2, mark_all_complete, nearest_unknown, nearest_right, cache get/add/delete, traverse, traverse_from")


def _parent_call(f, name_node):
    best = None
    for n in walk_shallow(f.node):
        if isinstance(n, (ast.Call, ast.ListComp, ast.GeneratorExp, ast.For)) and util.contains(n, name_node) and n is not name_node:
            if best is None or util.contains(best, n):
                best = n
    return best


def _is_nibbles_conv(ctx, f, par, u, ann):
    """`Nibbles(p)`; `[Nibbles(s) for s in p]`; `map(Nibbles, p)`; `for s in p: ... Nibbles(s)`."""
    if isinstance(par, ast.Call):
        fn = ast.unparse(par.func)
        if fn == "Nibbles" and par.args and par.args[0] is u:
            return True
        if fn == "map" and len(par.args) == 2 and ast.unparse(par.args[0]) == "Nibbles" and par.args[1] is u:
            return True
        return False
    if isinstance(par, (ast.ListComp, ast.GeneratorExp)):
        g = par.generators[0]
        if g.iter is u and isinstance(par.elt, ast.Call) and ast.unparse(par.elt.func) == "Nibbles" \
                and isinstance(par.elt.args[0], ast.Name) and isinstance(g.target, ast.Name) and par.elt.args[0].id == g.target.id and not g.ifs:
            return True
        return False
    if isinstance(par, ast.For) and par.iter is u and isinstance(par.target, ast.Name):
        tv = par.target.id
        uses = [x for x in ast.walk(par) if isinstance(x, ast.Name) and x.id == tv and isinstance(x.ctx, ast.Load)]
        for x in uses:
            pc = _parent_call(f, x)
            if not (isinstance(pc, ast.Call) and ast.unparse(pc.func) == "Nibbles" and pc.args and pc.args[0] is x):
                return False
        return bool(uses)
    return False


def _format_mismatch(fmt, right):
    """`fmt % right` with a literal format: the number of conversions against the number of operands, and integer
    conversions (%d %i %x %X %o %c-less) against operands that are certainly not integers (a slice, a bytes / str
    literal, a call of bytes / str / repr / hex).  -> reason or None"""
    import re as _re
    specs = [m_.group(2) for m_ in _re.finditer(r"%(\([^)]*\))?[#0\- +]*(?:\d+|\*)?(?:\.(?:\d+|\*))?[hlL]?([diouxXeEfFgGcrsa%])", fmt)]
    named = any(m_.group(1) for m_ in _re.finditer(r"%(\([^)]*\))", fmt))
    specs = [s_ for s_ in specs if s_ != "%"]
    if named:
        return None
    ops = list(right.elts) if isinstance(right, ast.Tuple) else None
    if ops is None:
        if isinstance(right, (ast.Name, ast.Attribute, ast.Call, ast.Subscript)) and len(specs) != 1:
            return None  # may be a tuple at run time: not decidable here
        ops = [right]
    if len(ops) != len(specs):
        return "%d conversion(s) for %d operand(s)" % (len(specs), len(ops))

    def not_int(e):
        if isinstance(e, ast.Subscript) and isinstance(e.slice, ast.Slice):
            return "a slice"
        if isinstance(e, ast.Constant) and isinstance(e.value, (bytes, str)):
            return "a %s literal" % type(e.value).__name__
        if isinstance(e, ast.JoinedStr):
            return "a string"
        if isinstance(e, ast.Call) and isinstance(e.func, ast.Name) and e.func.id in ("bytes", "str", "repr", "hex", "tuple", "list"):
            return "%s(..)" % e.func.id
        return None
    for sp, op in zip(specs, ops):
        if sp in "diouxX":
            w = not_int(op)
            if w:
                return "conversion %%%s is given %s (`%s`), not an integer" % (sp, w, ast.unparse(op)[:30])
    return None


@rule("VALMSG", ["C18", "C16"])
def valmsg(ctx, pid):
    """A refusal must be raised as the class the code names: building its message may not fail first.
    `"... %r" % value` with the bare, still unvalidated parameter raises TypeError for a tuple argument
    (exactly the kind of argument a type check is rejecting); f-strings, str.format and `% (value,)` are safe."""
    from ..core import prop_scope
    scope = prop_scope(pid)
    n = 0
    bad = []
    bad2 = []
    for f in util.all_functions(ctx, include_tools=False):
        if scope is not None and f.module.rel not in scope:
            continue
        for r in walk_shallow(f.node):
            if not (isinstance(r, ast.Raise) and isinstance(r.exc, ast.Call)):
                continue
            cls = ast.unparse(r.exc.func)
            n += 1
            if cls == "TypeError":
                continue  # a failing format would raise the same class
            for b in ast.walk(r.exc):
                if isinstance(b, ast.BinOp) and isinstance(b.op, ast.Mod) and isinstance(b.left, (ast.Constant, ast.JoinedStr)) \
                        and (not isinstance(b.left, ast.Constant) or isinstance(b.left.value, str)):
                    if isinstance(b.right, ast.Name) and b.right.id in f.all_params():
                        bad.append((f, r, b))
                    elif isinstance(b.left, ast.Constant):
                        why = _format_mismatch(b.left.value, b.right)
                        if why:
                            bad2.append((f, r, b, why))
    for f, r, b, why in bad2:
        ctx.bad("refusal-message:%s:format" % fkey(f), f.loc(r), "`%s`: %s, so building the message raises TypeError and the %s is never raised"
                % (util.norm_src(b)[:70], why, ast.unparse(r.exc.func)))
    for f, r, b in bad:
        ctx.bad("refusal-message:%s:%s" % (fkey(f), util.norm_src(b.right)), f.loc(r),
                "`%s`: %%-formatting with the bare parameter `%s` raises TypeError when it is a tuple, so the %s is never raised for such an argument"
                % (util.norm_src(b)[:70], b.right.id, ast.unparse(r.exc.func)))
    if not bad and not bad2:
        ctx.ok("refusal-messages", "trie/", "%d raise sites in scope: no refusal message is %%-formatted with a bare parameter" % n, nontrivial=bool(n))


# ---------------------------------------------------------------------------
def _path_facts(ctx, f, st):
    from ..pq import rel_norm, truth_norm
    eng = sym(ctx)
    rels, truth = [], {}
    for t, pol, _ in st.log:
        r = rel_norm(t, pol)
        if r is not None:
            rels.append(r)
        else:
            tt, pp = truth_norm(t, pol)
            truth[tt] = pp
    calls = []
    for ev in st.events:
        if ev.k == "call" and ev.a == "ok" and isinstance(ev.node, ast.Call):
            calls.append(eng.ev(ev.node, f, st))
    return rels, truth, calls


@rule("VALTAB", ["C18", "C16", "C12"])
def valtab(ctx, pid):
    """The validators themselves, as tables: validate_is_bytes refuses exactly the non-bytes values,
    validate_length exactly the other lengths; validate_is_node accepts blank / a 2-item node whose key is bytes
    and whose value is bytes or a valid embedded node / a 17-item node whose value is bytes and whose children are
    blank, valid embedded nodes or 32-byte hashes, and nothing else; validate_is_bin_node accepts exactly the blank
    hash and type bytes 0..2; the node encoders of the binary trie refuse an empty key path / empty value."""
    from .. import pq
    from ..pq import rel_norm
    from ..sym import C, tstr
    eng = sym(ctx)
    VE = "ValidationError"

    def outcome(p):
        if p.exit[0] == "raise":
            return "refuse" if pq.local_raise(p) is not None and p.exit[1].endswith(VE) else "propagated"
        return "accept"

    # ---- validate_is_bytes
    f = ctx.P.func(VMOD + "validate_is_bytes")
    v = ("p", f.params[0])
    isb = ("call", "ext:isinstance", (v, ("g", "bytes")), ())
    rows = set()
    for p, st in pq.states(ctx, f):
        rels, truth, calls = _path_facts(ctx, f, st)
        rows.add((truth.get(isb), outcome(p)))
    c = "table:validate_is_bytes"
    if rows == {(True, "accept"), (False, "refuse")}:
        ctx.ok(c, f.loc(), "ValidationError exactly when isinstance(value, bytes) is false")
    else:
        ctx.bad(c, f.loc(), "validate_is_bytes behaves as %s; expected {bytes: accept, anything else: ValidationError}" % sorted(rows, key=str))
    # ---- validate_length
    f = ctx.P.func(VMOD + "validate_length")
    v, ln = ("p", f.params[0]), ("p", f.params[1])
    rows = set()
    for p, st in pq.states(ctx, f):
        rels, truth, calls = _path_facts(ctx, f, st)
        rel = [r[0] for r in rels if (r[1], r[2]) in ((("len", v), ln), (ln, ("len", v)))]
        rows.add((rel[0] if rel else None, outcome(p)))
    c = "table:validate_length"
    if rows == {("==", "accept"), ("!=", "refuse")}:
        ctx.ok(c, f.loc(), "ValidationError exactly when len(value) != length")
    else:
        ctx.bad(c, f.loc(), "validate_length behaves as %s; expected {len == length: accept, otherwise: ValidationError}" % sorted(rows, key=str))
    if pid == "C12":
        _encoder_guards(ctx)
        return
    # ---- validate_is_bin_node: evaluated on the finite grid of first bytes
    f = ctx.P.func(VMOD + "validate_is_bin_node")
    cm = ctx.P.modules["trie.constants"]
    types = ctx.P.const(cm, "BINARY_TRIE_NODE_TYPES")
    blank = ctx.P.const(cm, "BLANK_HASH")
    v = ("p", f.params[0])
    rows = {}
    probs = []
    samples = [blank] + [bytes([b]) + b"x" * 33 for b in range(0, 6)]
    for sample in samples:
        outs = set()
        for p, st in pq.states(ctx, f):
            rels, truth, calls = _path_facts(ctx, f, st)
            feas = True
            for op, l, r in rels:
                val = None
                if l == v and r[0] == "c":
                    val = (sample == r[1])
                elif l == ("sub", v, C(0)) and r[0] == "c" and op in ("in", "notin"):
                    val = sample[0] in r[1]
                    if op == "notin":
                        val = not val
                    op = "=="
                elif l == ("sub", v, C(0)) and r[0] == "c":
                    val = sample[0] == r[1]
                else:
                    outs.add("?")
                    continue
                if op == "!=":
                    val = not val
                if not val:
                    feas = False
                    break
            if feas:
                outs.add(outcome(p))
        rows[sample[:1] if sample != blank else b"blank"] = outs
        want = "accept" if (sample == blank or sample[0] in (types or ())) else "refuse"
        if outs != {want}:
            probs.append("a node %s is %s, expected %s" % ("equal to BLANK_HASH" if sample == blank else "with type byte %d" % sample[0], "/".join(sorted(outs)) or "unreachable", want))
    c = "table:validate_is_bin_node"
    if types != (0, 1, 2) and types != [0, 1, 2]:
        ctx.bad(c, "trie/constants.py", "BINARY_TRIE_NODE_TYPES is %r, expected the three type bytes 0, 1, 2" % (types,))
    elif probs:
        ctx.bad(c, f.loc(), probs[0], witness={"problems": probs})
    else:
        ctx.ok(c, f.loc(), "accepts exactly BLANK_HASH and first bytes 0, 1, 2 (evaluated for the blank hash and type bytes 0..5)")
    # ---- validate_is_node
    f = ctx.P.func(VMOD + "validate_is_node")
    N = ("p", f.params[0])
    VB, VL, VN = VMOD + "validate_is_bytes", VMOD + "validate_length", VMOD + "validate_is_node"
    unsure_ = []
    probs = []
    seen = set()
    for p, st in pq.states(ctx, f, unroll=1):
        rels, truth, calls = _path_facts(ctx, f, st)
        out = outcome(p)
        if out == "propagated":
            continue  # a nested validator refused
        vcalls = {(t[1], t[2]) for t in calls if t[0] == "call" and t[1] in (VB, VL, VN)}
        blank = [r[0] for r in rels if r[1] == N and r[2] == C(b"")]
        lens = {r[2][1]: r[0] for r in rels if r[1] == ("len", N) and r[2][0] == "c" and r[0] in ("==", "!=")}
        if blank and blank[0] == "==":
            seen.add("blank")
            if out != "accept" or vcalls:
                probs.append("the blank node is not simply accepted")
            continue
        if lens.get(2) == "==":
            k, val = ("sub", N, C(0)), ("sub", N, C(1))
            il = truth.get(("call", "ext:isinstance", (val, ("g", "list")), ()))
            seen.add("kv-list" if il else "kv-bytes")
            want = {(VB, (k,)), (VN, (val,))} if il else {(VB, (k,)), (VB, (val,))}
            if il is None:
                probs.append("a 2-item node is accepted without distinguishing an embedded child from a byte string")
            elif out != "accept" or vcalls != want:
                probs.append("a 2-item node with %s: validators run %s, expected %s" % ("an embedded child" if il else "a bytes value",
                             sorted(tstr(("call", a, b, ()))[:40] for a, b in vcalls), sorted(tstr(("call", a, b, ()))[:40] for a, b in want)))
            continue
        if lens.get(17) == "==":
            base = {(VB, (("sub", N, C(16)),))}
            el = [t for t in _subterms_all(rels, truth) if t[0] == "iter" and t[1] == ("slice", N, None, C(16))]
            looped = any(ev.k == "loop" for ev in st.events)
            if not looped:
                seen.add("branch-0")
                if out != "accept" or vcalls != base:
                    probs.append("a 17-item node: the value slot is not validated as bytes before the children")
                continue
            if not el:
                if any(t[0] == "iter" and t[1][0] in ("gen", "listcomp") and ("slice", N, None, C(16)) in t[1][2] for t in _subterms_all(rels, truth)):
                    unsure_.append("the children of a 17-item node are iterated through a filtering comprehension over node[:16], which this table does not read")
                    continue
                probs.append("the children of a 17-item node are not iterated as node[:16]")
                continue
            e = el[0]
            eb = [r[0] for r in rels if r[1] == e and r[2] == C(b"")]
            il = truth.get(("call", "ext:isinstance", (e, ("g", "list")), ()))
            exited = any(ev.k == "loopexit" for ev in st.events)
            if not exited:
                probs.append("the scan of the children stops early (break) instead of going on to the next child")
                continue
            if eb and eb[0] == "==":
                seen.add("child-blank")
                want = base
            elif il is True:
                seen.add("child-list")
                want = base | {(VN, (e,))}
            elif il is False:
                seen.add("child-hash")
                want = base | {(VB, (e,)), (VL, (e, C(32)))}
            else:
                if any(t[0] == "iter" and t[1][0] in ("gen", "listcomp") for t in _subterms_all(rels, truth)) or \
                        any(isinstance(n_, (ast.GeneratorExp, ast.ListComp)) and n_.generators[0].ifs for n_ in ast.walk(f.node)):
                    unsure_.append("the children of a 17-item node pass through a filtering comprehension, which this table does not read")
                else:
                    probs.append("a child of a 17-item node is accepted without classifying it (blank / embedded / hash)")
                continue
            if out != "accept" or vcalls != want:
                probs.append("17-item node, child case %s: validators run %s, expected %s" % (sorted(seen)[-1], sorted(tstr(("call", a, b, ()))[:40] for a, b in vcalls),
                             sorted(tstr(("call", a, b, ()))[:40] for a, b in want)))
            continue
        # neither blank nor 2 nor 17 items
        if lens.get(2) == "!=" and lens.get(17) == "!=" and blank and blank[0] == "!=":
            seen.add("other")
            if out != "refuse":
                probs.append("a node that is neither blank nor of 2 / 17 items is accepted")
            continue
        if out == "refuse":
            probs.append("ValidationError on a path that does not exclude the blank node and the 2 / 17 item shapes")
        else:
            probs.append("a node is accepted on a path that does not establish one of the three legal shapes")
    c = "table:validate_is_node"
    allc = {"blank", "kv-list", "kv-bytes", "branch-0", "child-blank", "child-list", "child-hash", "other"}
    recursive = any(isinstance(n_, ast.Call) and isinstance(n_.func, ast.Name) and n_.func.id == f.name for n_ in ast.walk(f.node))
    if unsure_ and not probs:
        ctx.unsure(c, f.loc(), unsure_[0])
    elif probs and not recursive:
        ctx.unsure(c, f.loc(), "validate_is_node no longer recurses into embedded nodes (an explicit work list?): the case table is written for the recursive form (%s)" % probs[0][:80])
    elif probs:
        ctx.bad(c, f.loc(), probs[0], witness={"problems": sorted(set(probs))[:8]})
    elif seen != allc:
        ctx.unsure(c, f.loc(), "cases of validate_is_node not found: %s" % sorted(allc - seen))
    else:
        ctx.ok(c, f.loc(), "blank / (bytes key, bytes or valid embedded value) / (bytes value, children blank, valid embedded or 32-byte hash) / otherwise ValidationError")
    if pid == "C16":
        _encoder_guards(ctx)


def _subterms_all(rels, truth):
    def sub(t):
        if isinstance(t, tuple) and t and isinstance(t[0], str):
            yield t
        if isinstance(t, tuple):
            for x in t:
                if isinstance(x, tuple):
                    yield from sub(x)
    for r in rels:
        yield from sub(r)
    for t in truth:
        yield from sub(t)


def _encoder_guards(ctx):
    """encode_kv_node refuses an empty key path, encode_leaf_node an empty value (both ValidationError)"""
    from .. import pq
    from ..sym import C
    for q, pn_i, what in (("trie.utils.nodes:encode_kv_node", 0, "key path"), ("trie.utils.nodes:encode_leaf_node", 0, "value")):
        f = ctx.P.func(q)
        v = ("p", f.params[pn_i])
        rows = set()
        for p, st in pq.states(ctx, f):
            rels, truth, calls = _path_facts(ctx, f, st)
            if p.exit[0] == "raise" and pq.local_raise(p) is None:
                continue
            empty = None
            for op, l, r in rels:
                if l == v and r == C(b"") and op in ("==", "!="):
                    empty = op == "=="
            none = None
            for op, l, r in rels:
                if l == v and r == C(None) and op in ("is", "isnot"):
                    none = op == "is"
            case = "empty" if (empty or none) else ("nonempty" if empty is False else "?")
            rows.add((case, "refuse" if p.exit[0] == "raise" else "accept"))
        c = "empty-guard:%s" % fkey(f)
        if rows == {("empty", "refuse"), ("nonempty", "accept")}:
            ctx.ok(c, f.loc(), "an empty %s is refused with ValidationError, anything else goes on to the encoder" % what)
        else:
            ctx.bad(c, f.loc(), "%s behaves as %s; expected {empty %s: ValidationError, otherwise: encoded}" % (f.name, sorted(rows), what))
