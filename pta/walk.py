"""Syntax-directed path enumeration with typed exception outcomes.

``Walker(func, ...).paths()`` returns every acyclic path through a function as
a list of events plus an exit.  Python has no goto, so paths are enumerated by
structural recursion: ``run(block)`` yields outcomes
``normal | return | raise(E) | break | continue``.

Precision points the rules depend on:
* a call's raising outcome is emitted *before* the store of the enclosing
  statement (the assignment has not happened on the exception edge);
* handlers are typed (first matching ``except`` wins, ``else`` runs on normal
  outcomes only, ``finally`` runs on every outcome and re-emits it);
* in a generator-based context manager ``yield`` has two outcomes:
  resumed normally / resumed by throw(ANY).
"""
import ast

from .model import Inconclusive
from . import spec


class Ev:
    __slots__ = ("k", "node", "a", "b", "cond")

    def __init__(self, k, node=None, a=None, b=None, cond=False):
        self.k = k
        self.node = node
        self.a = a
        self.b = b
        self.cond = cond

    def __repr__(self):
        ln = getattr(self.node, "lineno", "?")
        return "<%s@%s %s%s>" % (self.k, ln, self.a if self.a is not None else "", " cond" if self.cond else "")


class Path:
    __slots__ = ("events", "exit", "cut")

    def __init__(self, events, exit, cut=False):
        self.events = events
        self.exit = exit  # ('return', node) | ('raise', E, node, origin) | ('fall',)
        self.cut = cut

    @property
    def kind(self):
        return self.exit[0]

    def __repr__(self):
        return "<Path %s %d events>" % (self.exit[:2], len(self.events))


NORMAL = ("normal",)
MAX_PATHS = 200000


def exc_matches(e, handler_names):
    """-> True (definitely caught) | False | None (may be caught: e is ANY)."""
    for h in handler_names:
        if h in ("BaseException",):
            return True
        if e == "ANY":
            # an arbitrary exception may or may not be an Exception (KeyboardInterrupt, GeneratorExit,
            # cancellation are BaseExceptions): `except Exception` may catch it
            continue
        x = e
        seen = 0
        while x is not None and seen < 10:
            if x == h:
                return True
            nx = spec.EXC_PARENT.get(x)
            if nx is None and x not in ("BaseException",):
                # package / unknown exception classes derive from Exception
                nx = "Exception" if x != "Exception" else "BaseException"
            x = nx
            seen += 1
    if e == "ANY":
        return None
    return False


class Walker:
    def __init__(self, func, resolver=None, raises=None, unroll=1, yield_throw=None, node=None, noreturn=None):
        """raises(node, func) -> iterable of (excname, origin) for Call/Subscript nodes."""
        self.f = func
        self.R = resolver
        self.raises = raises
        self.noreturn = noreturn
        self.unroll = unroll
        self.yield_throw = func.is_ctxmgr if yield_throw is None else yield_throw
        self.node = node if node is not None else func.node
        self.npaths = 0

    # ------------------------------------------------------------------
    def paths(self):
        outs = self._block(self.node.body, None)
        res = []
        for evs, out in outs:
            if out[0] == "normal":
                res.append(Path(evs, ("fall",)))
            elif out[0] == "return":
                res.append(Path(evs, out))
            elif out[0] == "raise":
                res.append(Path(evs, out))
            elif out[0] == "cut":
                res.append(Path(evs, ("fall",), cut=True))
            else:
                raise Inconclusive("%s: %s outside loop" % (self.f.loc(), out[0]))
        return res

    # ------------------------------------------------------------------
    def _seq(self, outs, nxt):
        """Continue every normal outcome of ``outs`` with the outcomes of nxt()."""
        res = []
        cont = None
        for evs, out in outs:
            if out[0] == "normal":
                if cont is None:
                    cont = nxt()
                for evs2, out2 in cont:
                    res.append((evs + evs2, out2))
            else:
                res.append((evs, out))
        if len(res) > MAX_PATHS:
            raise Inconclusive("%s: path explosion" % self.f.loc())
        return res

    def _block(self, stmts, cur):
        outs = [([], NORMAL)]
        for s in stmts:
            outs = self._seq(outs, lambda s=s: self._stmt(s, cur))
        return outs

    # ------------------------------------------------------------------
    # expressions: emit call / raising-source events in evaluation order
    # ------------------------------------------------------------------
    def _expr(self, e, cond=False, cur=None):
        """-> list of (events, outcome) for evaluating expression e."""
        if e is None:
            return [([], NORMAL)]
        items = []
        self._collect(e, cond, items)
        hctx = cur
        done = []
        cur = []
        for node, c in items:
            if isinstance(node, (ast.Yield,)):
                ev_ok = Ev("yield", node, "resume", cond=c)
                if self.yield_throw:
                    done.append((cur + [Ev("yield", node, "throw", cond=c)], ("raise", "ANY", node, ("yield", self.f.qual, node.lineno))))
                cur = cur + [ev_ok]
                continue
            if isinstance(node, ast.YieldFrom):
                cur = cur + [Ev("yieldfrom", node, cond=c)]
                continue
            kind = "call" if isinstance(node, ast.Call) else "src"
            if self.raises is not None:
                seen = set()
                for exc, origin in self.raises(node, self.f):
                    if hctx is not None and origin and origin[0] == "raise" and len(origin) > 4 and origin[4] is None:
                        # raised (by a callee) while handling another exception: keep the cause
                        origin = origin[:4] + (hctx[2],)
                    if (exc, origin) in seen:
                        continue
                    seen.add((exc, origin))
                    done.append((cur + [Ev(kind, node, exc, origin, cond=c)], ("raise", exc, node, origin)))
            if kind == "call" and self.noreturn is not None and self.noreturn(node, self.f):
                return done  # the callee never returns normally
            cur = cur + [Ev(kind, node, "ok", cond=c)]
        done.append((cur, NORMAL))
        return done

    def _collect(self, e, cond, items):
        """Post-order (evaluation order) collection of Call / Subscript-load / Yield nodes."""
        if isinstance(e, (ast.Lambda, ast.FunctionDef, ast.ClassDef)):
            return
        if isinstance(e, ast.IfExp):
            self._collect(e.test, cond, items)
            self._collect(e.body, True, items)
            self._collect(e.orelse, True, items)
            return
        if isinstance(e, ast.BoolOp):
            for i, v in enumerate(e.values):
                self._collect(v, cond or i > 0, items)
            return
        if isinstance(e, (ast.ListComp, ast.SetComp, ast.GeneratorExp, ast.DictComp)):
            for i, g in enumerate(e.generators):
                self._collect(g.iter, cond or i > 0, items)
                for c in g.ifs:
                    self._collect(c, True, items)
            if isinstance(e, ast.DictComp):
                self._collect(e.key, True, items)
                self._collect(e.value, True, items)
            else:
                self._collect(e.elt, True, items)
            return
        if isinstance(e, ast.Call):
            self._collect(e.func, cond, items)
            for a in e.args:
                self._collect(a, cond, items)
            for k in e.keywords:
                self._collect(k.value, cond, items)
            items.append((e, cond))
            return
        if isinstance(e, ast.Subscript):
            self._collect(e.value, cond, items)
            self._collect(e.slice, cond, items)
            if isinstance(e.ctx, ast.Load):
                items.append((e, cond))
            return
        if isinstance(e, (ast.Yield, ast.YieldFrom)):
            if e.value is not None:
                self._collect(e.value, cond, items)
            items.append((e, cond))
            return
        for c in ast.iter_child_nodes(e):
            if isinstance(c, ast.expr) or isinstance(c, (ast.keyword, ast.comprehension, ast.Slice, ast.Starred)):
                self._collect(c, cond, items)

    # ------------------------------------------------------------------
    # conditions: decompose and / or / not into atomic assumes
    # ------------------------------------------------------------------
    def _cond(self, test, want, cur=None):
        """-> list of (events, outcome) on which `test` evaluates to `want`."""
        if isinstance(test, ast.UnaryOp) and isinstance(test.op, ast.Not):
            return self._cond(test.operand, not want, cur)
        if isinstance(test, ast.BoolOp):
            is_and = isinstance(test.op, ast.And)
            vals = test.values
            if (is_and and want) or (not is_and and not want):
                # all operands evaluate to `want`
                outs = [([], NORMAL)]
                for v in vals:
                    outs = self._seq(outs, lambda v=v: self._cond(v, want, cur))
                return outs
            # some operand is the first to evaluate to `want`; earlier ones to `not want`
            res = []
            pre = [([], NORMAL)]
            for v in vals:
                res.extend(self._seq(pre, lambda v=v: self._cond(v, want, cur)))
                # raising outcomes of evaluating v are already in res: keep normal ones only
                pre = [p for p in self._seq(pre, lambda v=v: self._cond(v, not want, cur)) if p[1][0] == "normal"]
            return res
        outs = self._expr(test, cur=cur)
        return self._seq(outs, lambda: [([Ev("assume", test, want)], NORMAL)])

    # ------------------------------------------------------------------
    def _stmt(self, s, cur):
        m = getattr(self, "_s_" + type(s).__name__, None)
        if m is None:
            raise Inconclusive("%s: statement kind %s not modelled" % (self.f.loc(s), type(s).__name__))
        return m(s, cur)

    def _simple(self, s, exprs, cur=None):
        outs = [([], NORMAL)]
        for e in exprs:
            outs = self._seq(outs, lambda e=e: self._expr(e, cur=cur))
        return self._seq(outs, lambda: [([Ev("stmt", s)], NORMAL)])

    def _s_Expr(self, s, cur):
        return self._simple(s, [s.value], cur)

    def _s_Pass(self, s, cur):
        return [([Ev("stmt", s)], NORMAL)]

    def _s_Import(self, s, cur):
        return [([Ev("stmt", s)], NORMAL)]

    _s_ImportFrom = _s_Import
    _s_Global = _s_Import
    _s_Nonlocal = _s_Import

    def _s_FunctionDef(self, s, cur):
        return [([Ev("stmt", s)], NORMAL)]

    _s_ClassDef = _s_FunctionDef

    def _s_Assign(self, s, cur):
        if isinstance(s.value, ast.IfExp):
            return self._fork_ifexp(s, s.value, lambda v: ast.copy_location(ast.Assign(targets=s.targets, value=v, lineno=s.lineno), s), cur)
        # evaluation order: value first, then target sub-expressions, then the store itself
        tgt_exprs = []
        for t in s.targets:
            tgt_exprs.extend(self._target_exprs(t))
        outs = [([], NORMAL)]
        for e in [s.value] + tgt_exprs:
            outs = self._seq(outs, lambda e=e: self._expr(e, cur=cur))
        for t in s.targets:
            if isinstance(t, ast.Subscript) and self.raises is not None and list(self.raises(t, self.f)):
                outs = self._seq(outs, lambda t=t: self._src(t))
        return self._seq(outs, lambda: [([Ev("stmt", s)], NORMAL)])

    def _target_exprs(self, t):
        if isinstance(t, ast.Subscript):
            return [t.value, t.slice]
        if isinstance(t, ast.Attribute):
            return [t.value]
        if isinstance(t, (ast.Tuple, ast.List)):
            r = []
            for x in t.elts:
                r.extend(self._target_exprs(x))
            return r
        if isinstance(t, ast.Starred):
            return self._target_exprs(t.value)
        return []

    def _s_AnnAssign(self, s, cur):
        if s.value is None:
            return [([Ev("stmt", s)], NORMAL)]
        return self._simple(s, [s.value] + self._target_exprs(s.target), cur)

    def _s_AugAssign(self, s, cur):
        return self._simple(s, self._target_exprs(s.target) + [s.value], cur)

    def _s_Delete(self, s, cur):
        ex = []
        for t in s.targets:
            ex.extend(self._target_exprs(t))
        outs = [([], NORMAL)]
        for e in ex:
            outs = self._seq(outs, lambda e=e: self._expr(e, cur=cur))
        for t in s.targets:
            if isinstance(t, ast.Subscript):
                outs = self._seq(outs, lambda t=t: self._src(t))
        return self._seq(outs, lambda: [([Ev("stmt", s)], NORMAL)])

    def _src(self, node):
        """Outcomes of a primitive raising source (e.g. ``del d[k]``)."""
        done = []
        if self.raises is not None:
            seen = set()
            for exc, origin in self.raises(node, self.f):
                if (exc, origin) not in seen:
                    seen.add((exc, origin))
                    done.append(([Ev("src", node, exc, origin)], ("raise", exc, node, origin)))
        done.append(([Ev("src", node, "ok")], NORMAL))
        return done

    def _cond_false_only(self, test, cur=None):
        """Normal outcomes on which test is false (raising outcomes of the
        evaluation are reported once, on the true side)."""
        return [p for p in self._cond(test, False, cur) if p[1][0] == "normal"]

    def _s_Assert(self, s, cur):
        ok = self._cond(s.test, True, cur)
        bad = self._cond_false_only(s.test, cur)
        for evs, _out in ok + bad:
            for ev in evs:
                if ev.k == "assume":
                    ev.b = "assert"  # a declared invariant, not a guard that selects behaviour
        origin = ("assert", self.f.qual, s.lineno)
        bad = self._seq(bad, lambda: [([Ev("raise", s, "AssertionError", origin)], ("raise", "AssertionError", s, origin))])
        return ok + bad

    def _fork_ifexp(self, s, ife, mk, cur):
        t = self._seq(self._cond(ife.test, True, cur), lambda: self._stmt(mk(ife.body), cur))
        f = self._seq(self._cond_false_only(ife.test, cur), lambda: self._stmt(mk(ife.orelse), cur))
        return t + f

    def _s_Return(self, s, cur):
        if isinstance(s.value, ast.IfExp):
            return self._fork_ifexp(s, s.value, lambda v: ast.copy_location(ast.Return(value=v), s), cur)
        outs = self._expr(s.value, cur=cur)
        return self._seq(outs, lambda: [([Ev("return", s)], ("return", s))])

    def _s_Raise(self, s, cur):
        outs = self._expr(s.exc, cur=cur)
        if s.cause is not None:
            outs = self._seq(outs, lambda: self._expr(s.cause, cur=cur))
        if s.exc is None:
            if cur is None:
                raise Inconclusive("%s: bare raise outside handler" % self.f.loc(s))
            exc, origin = cur[0], cur[2]
        elif isinstance(s.exc, ast.Name) and cur is not None and cur[1] == s.exc.id:
            exc, origin = cur[0], cur[2]
        else:
            exc = self.R.exc_name(s.exc, self.f) if self.R else ast.unparse(s.exc.func if isinstance(s.exc, ast.Call) else s.exc)
            origin = ("raise", self.f.qual, s.lineno, exc, cur[2] if cur is not None else None)
        return self._seq(outs, lambda: [([Ev("raise", s, exc, origin)], ("raise", exc, s, origin))])

    def _s_If(self, s, cur):
        t = self._seq(self._cond(s.test, True, cur), lambda: self._block(s.body, cur))
        f = self._seq(self._cond_false_only(s.test, cur), lambda: self._block(s.orelse, cur))
        return t + f

    def _loop_tail(self, outs):
        """Map break/continue outcomes of a loop body."""
        res = []
        for evs, out in outs:
            res.append((evs, out))
        return res

    def _s_While(self, s, cur):
        const_true = isinstance(s.test, ast.Constant) and bool(s.test.value) is True

        def iteration(k):
            res = []
            if not const_true:
                ex = self._cond(s.test, False, cur) if k >= self.unroll else self._cond_false_only(s.test, cur)
                if s.orelse:
                    ex = self._seq(ex, lambda: self._block(s.orelse, cur))
                res.extend(ex)
            if k >= self.unroll:
                if const_true:
                    res.append(([Ev("cut", s)], ("cut",)))
                return res
            ent = [([Ev("loop", s, k)], NORMAL)] if const_true else self._seq(self._cond(s.test, True, cur), lambda: [([Ev("loop", s, k)], NORMAL)])
            body = self._seq(ent, lambda: self._block(s.body, cur))
            nxt = None
            for evs, out in body:
                if out[0] in ("normal", "continue"):
                    if nxt is None:
                        nxt = iteration(k + 1)
                    for evs2, out2 in nxt:
                        res.append((evs + evs2, out2))
                elif out[0] == "break":
                    res.append((evs, NORMAL))
                else:
                    res.append((evs, out))
            return res

        return iteration(0)

    def _s_For(self, s, cur):
        head = self._expr(s.iter, cur=cur)

        def iteration(k):
            res = []
            ex = [([Ev("loopexit", s, k)], NORMAL)]
            if s.orelse:
                ex = self._seq(ex, lambda: self._block(s.orelse, cur))
            res.extend(ex)
            if k >= self.unroll:
                return res
            ent = [([Ev("loop", s, k), Ev("bind", s.target, "for", s.iter)], NORMAL)]
            body = self._seq(ent, lambda: self._block(s.body, cur))
            nxt = None
            for evs, out in body:
                if out[0] in ("normal", "continue"):
                    if nxt is None:
                        nxt = iteration(k + 1)
                    for evs2, out2 in nxt:
                        res.append((evs + evs2, out2))
                elif out[0] == "break":
                    res.append((evs, NORMAL))
                else:
                    res.append((evs, out))
            return res

        return self._seq(head, lambda: iteration(0))

    def _s_Break(self, s, cur):
        return [([Ev("stmt", s)], ("break",))]

    def _s_Continue(self, s, cur):
        return [([Ev("stmt", s)], ("continue",))]

    def _s_With(self, s, cur):
        outs = [([], NORMAL)]
        for it in s.items:
            outs = self._seq(outs, lambda it=it: self._expr(it.context_expr, cur=cur))
            outs = self._seq(outs, lambda it=it: [([Ev("with_enter", s, it)] + (
                [Ev("bind", it.optional_vars, "with", it.context_expr)] if it.optional_vars is not None else []), NORMAL)])
        body = self._seq(outs, lambda: self._block(s.body, cur))
        res = []
        entered = set()
        for evs, out in body:
            # only outcomes that got past with_enter run the exit part
            inside = any(e.k == "with_enter" and e.node is s for e in evs)
            if inside:
                res.append((evs + [Ev("with_exit", s, out[0])], out))
            else:
                res.append((evs, out))
        return res

    def _s_Try(self, s, cur):
        body = self._block(s.body, cur)
        res = []
        hnames = []
        for h in s.handlers:
            if h.type is None:
                hnames.append(["BaseException"])
            else:
                n = self.R.exc_name(h.type, self.f) if self.R else ast.unparse(h.type)
                hnames.append(n.split("|"))
        for evs, out in body:
            if out[0] == "raise":
                exc = out[1]
                caught_def = False
                for h, names in zip(s.handlers, hnames):
                    mt = exc_matches(exc, names)
                    if mt is False:
                        continue
                    origin = out[3] if len(out) > 3 else None
                    hc = (exc, h.name, origin)
                    pre = [Ev("handler", h, exc, origin)]
                    if h.name:
                        pre.append(Ev("bind", h, "exc", exc))
                    for evs2, out2 in self._block(h.body, hc):
                        res.append((evs + pre + evs2, out2))
                    if mt is True:
                        caught_def = True
                        break
                if not caught_def:
                    res.append((evs, out))
            elif out[0] == "normal" and s.orelse:
                for evs2, out2 in self._block(s.orelse, cur):
                    res.append((evs + evs2, out2))
            else:
                res.append((evs, out))
        if s.finalbody:
            fin = None
            res2 = []
            for evs, out in res:
                fin = self._block(s.finalbody, cur)
                for evs2, out2 in fin:
                    mark = [Ev("finally", s, out[0])]
                    if out2[0] == "normal":
                        res2.append((evs + mark + evs2, out))
                    else:
                        res2.append((evs + mark + evs2, out2))
            res = res2
        return res


def handler_context(func):
    """Map every node id inside a try-body to the list of enclosing
    (Try node, part) pairs; used by syntactic rules."""
    ctx = {}

    def visit(node, stack):
        for field, val in ast.iter_fields(node):
            if isinstance(node, ast.Try) and field in ("body", "handlers", "orelse", "finalbody"):
                st = stack + [(node, field)]
            else:
                st = stack
            if isinstance(val, list):
                for x in val:
                    if isinstance(x, ast.AST):
                        ctx[id(x)] = st
                        if not isinstance(x, (ast.FunctionDef, ast.ClassDef, ast.Lambda)):
                            visit(x, st)
            elif isinstance(val, ast.AST):
                ctx[id(val)] = st
                if not isinstance(val, (ast.FunctionDef, ast.ClassDef, ast.Lambda)):
                    visit(val, st)

    visit(func.node, [])
    return ctx
