"""Canonical parameter names.

The rules speak about `node`, `trie_key`, `keypath`, ... - the parameter names of the functions as they were when
the rules were written (known_funcs.KNOWN_PARAMS).  Renaming a parameter of an internal function is an ordinary
clean-up; this pass gives a renamed parameter (same position, same count) its old name back on the analyser's
copy of the syntax tree: in the signature, in the body, and in keyword arguments at call sites of that function
name.  A function whose parameter *count* changed is left alone (the rules then say what they cannot find)."""
import ast

from .known_funcs import KNOWN_PARAMS


def _foldable_default(P, f, d):
    """a default the body can be specialised on: a literal, or a module-level name (a sentinel object)"""
    if isinstance(d, ast.Constant):
        return True
    if isinstance(d, ast.UnaryOp) and isinstance(d.operand, ast.Constant):
        return True
    if isinstance(d, ast.Name):
        return d.id in f.module.const_nodes or d.id in f.module.imports
    if isinstance(d, (ast.Tuple,)) and not d.elts:
        return True
    return False


_NO = object()


def _const_test(e):
    """truth value of a test made of literals only (after a parameter was replaced by its default), else _NO"""
    if isinstance(e, ast.Constant):
        return bool(e.value)
    if isinstance(e, ast.UnaryOp) and isinstance(e.op, ast.Not):
        v = _const_test(e.operand)
        return _NO if v is _NO else (not v)
    if isinstance(e, ast.Compare) and len(e.ops) == 1 and isinstance(e.left, ast.Constant) and isinstance(e.comparators[0], ast.Constant):
        a, b = e.left.value, e.comparators[0].value
        op = e.ops[0]
        if isinstance(op, (ast.Is, ast.IsNot)) and (a is None or b is None or isinstance(a, bool) or isinstance(b, bool)):
            same = a is b
            return same if isinstance(op, ast.Is) else not same
        if isinstance(op, (ast.Eq, ast.NotEq)) and type(a) is type(b):
            return (a == b) if isinstance(op, ast.Eq) else (a != b)
        return _NO
    if isinstance(e, ast.Compare) and len(e.ops) == 1 and isinstance(e.ops[0], (ast.Is, ast.IsNot)) and isinstance(e.left, ast.Name) \
            and isinstance(e.comparators[0], ast.Name) and e.left.id == e.comparators[0].id and e.left.id.isupper() | e.left.id.startswith("_"):
        return isinstance(e.ops[0], ast.Is)  # a module-level sentinel compared with itself
    if isinstance(e, ast.BoolOp):
        vals = [_const_test(v) for v in e.values]
        if isinstance(e.op, ast.And):
            if any(v is False for v in vals):
                return False
            return True if all(v is True for v in vals) else _NO
        if any(v is True for v in vals):
            return True
        return False if all(v is False for v in vals) else _NO
    return _NO


def _prune_constant_ifs(block):
    out = []
    for s_ in block:
        for fld in ("body", "orelse", "finalbody"):
            sub = getattr(s_, fld, None)
            if isinstance(sub, list) and sub and isinstance(sub[0], ast.stmt):
                setattr(s_, fld, _prune_constant_ifs(sub) or ([ast.copy_location(ast.Pass(), s_)] if fld == "body" else []))
        if isinstance(s_, ast.Try):
            for h in s_.handlers:
                h.body = _prune_constant_ifs(h.body) or [ast.copy_location(ast.Pass(), s_)]
        if isinstance(s_, ast.If):
            v = _const_test(s_.test)
            if v is not _NO:
                out.extend(s_.body if v else s_.orelse)
                continue
        out.append(s_)
    return out


def specialise_new_defaults(P):
    """A known function that grew a new trailing parameter with a default (a feature for new callers): no call in
    the package passes it, so for every existing caller the parameter *is* its default.  The analyser's copy of
    the function is specialised on that value (the parameter disappears from the signature, its uses become the
    default expression); the rules then see the function the existing API calls.  If any call in the package
    passes the new parameter, nothing is done."""
    import copy
    done = []
    for q, f in list(P.funcs.items()):
        known = KNOWN_PARAMS.get(q)
        if known is None or f.parent is not None or f.module.is_tools:
            continue
        kpos, kkw = known
        a = f.node.args
        if a.posonlyargs or len(f.params) < len(kpos) or len(f.kwonly) < len(kkw):
            continue
        extra_pos = f.params[len(kpos):]
        extra_kw = [k for k in f.kwonly if k not in kkw]
        if not extra_pos and not extra_kw:
            continue
        if len(f.kwonly) - len(extra_kw) != len(kkw):
            continue
        dfl = f.defaults()
        extra = extra_pos + extra_kw
        if any(x not in dfl or not _foldable_default(P, f, dfl[x]) for x in extra):
            continue
        if any(isinstance(n, ast.Name) and n.id in extra and isinstance(n.ctx, (ast.Store, ast.Del)) for n in ast.walk(f.node)):
            continue
        # no call anywhere passes the new parameter(s)
        n_old = len(kpos) - (1 if f.cls is not None and "staticmethod" not in f.decos else 0)
        passed = False
        redundant = []  # calls that pass the new parameter, but with the very default: the argument says nothing
        for g in P.funcs.values():
            for c in ast.walk(g.node):
                if not isinstance(c, ast.Call):
                    continue
                nm = c.func.attr if isinstance(c.func, ast.Attribute) else (c.func.id if isinstance(c.func, ast.Name) else None)
                if nm != f.name:
                    continue
                if any(k.arg is None for k in c.keywords) or any(isinstance(x, ast.Starred) for x in c.args):
                    passed = True
                    continue
                for k in c.keywords:
                    if k.arg in extra:
                        if ast.dump(k.value) == ast.dump(dfl[k.arg]):
                            redundant.append((c, k))
                        else:
                            passed = True
                if len(c.args) > n_old:
                    over = c.args[n_old:]
                    names = extra_pos[:len(over)]
                    if len(over) <= len(extra_pos) and all(ast.dump(a_) == ast.dump(dfl[n_]) for a_, n_ in zip(over, names)):
                        redundant.append((c, None))
                    else:
                        passed = True
        if passed:
            continue
        for c, k in redundant:
            if k is None:
                c.args = c.args[:n_old]
            else:
                c.keywords = [k2 for k2 in c.keywords if k2 is not k]
        sub = {x: dfl[x] for x in extra}

        class T(ast.NodeTransformer):
            def visit_Name(self, n):
                if isinstance(n.ctx, ast.Load) and n.id in sub:
                    return ast.copy_location(copy.deepcopy(sub[n.id]), n)
                return n
        f.node.body = _prune_constant_ifs([T().visit(s_) for s_ in f.node.body]) or [ast.Pass()]
        if extra_pos:
            a.args = a.args[:len(kpos)]
            a.defaults = a.defaults[:len(a.defaults) - len(extra_pos)]
            f.params = f.params[:len(kpos)]
        if extra_kw:
            pairs = [(k, d) for k, d in zip(a.kwonlyargs, a.kw_defaults) if k.arg not in extra_kw]
            a.kwonlyargs = [k for k, _ in pairs]
            a.kw_defaults = [d for _, d in pairs]
            f.kwonly = [k.arg for k in a.kwonlyargs]
        ast.fix_missing_locations(f.node)
        done.append((q, extra))
    return done


def restore_self(P):
    """A known instance method that was turned into a @staticmethod (its body never used `self`): same parameters
    minus the receiver, still called as `self.m(..)`.  On the analyser's copy it gets its receiver back, so that
    the rules find the parameters where they were."""
    done = []
    for q, f in list(P.funcs.items()):
        known = KNOWN_PARAMS.get(q)
        if known is None or f.parent is not None or f.cls is None or f.module.is_tools:
            continue
        kpos = known[0]
        if "staticmethod" not in f.decos or not kpos or kpos[0] != "self" or len(f.params) != len(kpos) - 1:
            continue
        if any(isinstance(n, ast.Name) and n.id == "self" for n in ast.walk(f.node)):
            continue
        # only receiver-style calls (`self.m(..)` / `obj.m(..)`), never `Class.m(..)`
        clsname = f.cls.name
        if any(isinstance(c, ast.Call) and isinstance(c.func, ast.Attribute) and c.func.attr == f.name and isinstance(c.func.value, ast.Name) and c.func.value.id == clsname
               for g in P.funcs.values() for c in ast.walk(g.node)):
            continue
        f.node.decorator_list = [d for d in f.node.decorator_list if not (isinstance(d, ast.Name) and d.id == "staticmethod")]
        f.decos = [d for d in f.decos if d != "staticmethod"]
        f.node.args.args = [ast.arg(arg="self")] + f.node.args.args
        f.params = ["self"] + f.params
        ast.fix_missing_locations(f.node)
        done.append(q)
    return done


def canonical_params(P):
    renamed = []
    kw_maps = {}  # function name -> {new keyword: old keyword}
    for q, f in list(P.funcs.items()):
        known = KNOWN_PARAMS.get(q)
        if known is None or f.parent is not None:
            continue
        kpos, kkw = known
        if len(kpos) != len(f.params) or len(kkw) != len(f.kwonly):
            continue
        mapping = {}
        for new, old in list(zip(f.params, kpos)) + list(zip(f.kwonly, kkw)):
            if new != old:
                mapping[new] = old
        if not mapping:
            continue
        # the old names must be free in the function (not used for something else)
        used = {n.id for n in ast.walk(f.node) if isinstance(n, ast.Name)} | {a.arg for a in ast.walk(f.node) if isinstance(a, ast.arg)}
        if any(old in used and old not in mapping for old in mapping.values()):
            continue
        for a in ast.walk(f.node.args):
            if isinstance(a, ast.arg) and a.arg in mapping:
                a.arg = mapping[a.arg]
        for n in ast.walk(f.node):
            if isinstance(n, ast.Name) and n.id in mapping:
                n.id = mapping[n.id]
            elif isinstance(n, (ast.FunctionDef, ast.Lambda)) and n is not f.node:
                pass
        f.params = [mapping.get(p, p) for p in f.params]
        f.kwonly = [mapping.get(p, p) for p in f.kwonly]
        kw_maps.setdefault(f.name, {}).update(mapping)
        renamed.append((q, dict(mapping)))
    if kw_maps:
        for f in P.funcs.values():
            for c in ast.walk(f.node):
                if isinstance(c, ast.Call) and c.keywords:
                    name = c.func.attr if isinstance(c.func, ast.Attribute) else (c.func.id if isinstance(c.func, ast.Name) else None)
                    m = kw_maps.get(name)
                    if m:
                        for k in c.keywords:
                            if k.arg in m:
                                k.arg = m[k.arg]
    return renamed
