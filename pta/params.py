"""Canonical parameter names.

The rules speak about `node`, `trie_key`, `keypath`, ... - the parameter names of the functions as they were when
the rules were written (known_funcs.KNOWN_PARAMS).  Renaming a parameter of an internal function is an ordinary
clean-up; this pass gives a renamed parameter (same position, same count) its old name back on the analyser's
copy of the syntax tree: in the signature, in the body, and in keyword arguments at call sites of that function
name.  A function whose parameter *count* changed is left alone (the rules then say what they cannot find)."""
import ast

from .known_funcs import KNOWN_PARAMS


def canonical_params(P):
    renamed = []
    kw_maps = {}  # function name -> {new keyword: old keyword}
    for q, f in list(P.funcs.items()):
        known = KNOWN_PARAMS.get(q)
        if known is None or f.parent is not None:
            continue
        kpos, kkw = known
        if len(kpos) != len(f.params) or len(kkw) != len(f.kwonly):
            continue
        mapping = {}
        for new, old in list(zip(f.params, kpos)) + list(zip(f.kwonly, kkw)):
            if new != old:
                mapping[new] = old
        if not mapping:
            continue
        # the old names must be free in the function (not used for something else)
        used = {n.id for n in ast.walk(f.node) if isinstance(n, ast.Name)} | {a.arg for a in ast.walk(f.node) if isinstance(a, ast.arg)}
        if any(old in used and old not in mapping for old in mapping.values()):
            continue
        for a in ast.walk(f.node.args):
            if isinstance(a, ast.arg) and a.arg in mapping:
                a.arg = mapping[a.arg]
        for n in ast.walk(f.node):
            if isinstance(n, ast.Name) and n.id in mapping:
                n.id = mapping[n.id]
            elif isinstance(n, (ast.FunctionDef, ast.Lambda)) and n is not f.node:
                pass
        f.params = [mapping.get(p, p) for p in f.params]
        f.kwonly = [mapping.get(p, p) for p in f.kwonly]
        kw_maps.setdefault(f.name, {}).update(mapping)
        renamed.append((q, dict(mapping)))
    if kw_maps:
        for f in P.funcs.values():
            for c in ast.walk(f.node):
                if isinstance(c, ast.Call) and c.keywords:
                    name = c.func.attr if isinstance(c.func, ast.Attribute) else (c.func.id if isinstance(c.func, ast.Name) else None)
                    m = kw_maps.get(name)
                    if m:
                        for k in c.keywords:
                            if k.arg in m:
                                k.arg = m[k.arg]
    return renamed
