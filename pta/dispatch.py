"""Desugar table dispatch into the if / elif chain it stands for.

    handlers = {LEAF: self._a, EXT: self._a, BRANCH: self._b}          handlers = {...}
    h = handlers.get(kind)                                      ==>     h = handlers.get(kind)
    if h is None:                                                       if kind not in (LEAF, EXT, BRANCH):
        raise ...                                                           raise ...
    return h(node, key)                                                 if kind == LEAF: return self._a(node, key)
                                                                        elif kind == EXT: return self._a(node, key)
                                                                        elif kind == BRANCH: return self._b(node, key)
                                                                        else: raise TypeError(..)

Only the forms a dispatch refactoring produces are rewritten: a local bound once to a dict display whose values
are plain references to functions / bound methods, looked up with `d[k]`, `d.get(k)` (k a plain local or
parameter) and called in statement position; `k in d`, `k not in d`, `h is None`, `h is not None` tests.
Everything else is left alone.  The rewrite is done on the analyser's copy of the syntax tree."""
import ast
import copy


def _stores(fn):
    n = {}
    for x in ast.walk(fn):
        if isinstance(x, ast.Name) and isinstance(x.ctx, (ast.Store, ast.Del)):
            n[x.id] = n.get(x.id, 0) + 1
    return n


def _callable_ref(v):
    return isinstance(v, ast.Name) or (isinstance(v, ast.Attribute) and isinstance(v.value, ast.Name))


def desugar_function(fn):
    """-> (new FunctionDef or None, number of rewritten sites)"""
    stores = _stores(fn)
    tables = {}
    for x in ast.walk(fn):
        if isinstance(x, ast.Assign) and len(x.targets) == 1 and isinstance(x.targets[0], ast.Name) and isinstance(x.value, ast.Dict) \
                and x.value.keys and all(k is not None and isinstance(k, (ast.Name, ast.Constant)) for k in x.value.keys) \
                and all(_callable_ref(v) for v in x.value.values) and stores.get(x.targets[0].id) == 1:
            tables[x.targets[0].id] = list(zip(x.value.keys, x.value.values))
    if not tables:
        return None, 0
    params = {a.arg for a in fn.args.posonlyargs + fn.args.args + fn.args.kwonlyargs}
    handles = {}
    for x in ast.walk(fn):
        if isinstance(x, ast.Assign) and len(x.targets) == 1 and isinstance(x.targets[0], ast.Name) and stores.get(x.targets[0].id) == 1:
            v = x.value
            d = key = None
            if isinstance(v, ast.Call) and isinstance(v.func, ast.Attribute) and v.func.attr == "get" and isinstance(v.func.value, ast.Name) \
                    and v.func.value.id in tables and len(v.args) == 1 and not v.keywords:
                d, key = v.func.value.id, v.args[0]
            elif isinstance(v, ast.Subscript) and isinstance(v.value, ast.Name) and v.value.id in tables:
                d, key = v.value.id, v.slice
            if d is not None and isinstance(key, ast.Name) and (stores.get(key.id, 0) <= 1 or key.id in params and stores.get(key.id, 0) == 0):
                handles[x.targets[0].id] = (d, key, isinstance(v, ast.Call))
    hits = [0]

    def keys_tuple(d):
        return ast.Tuple(elts=[copy.deepcopy(k) for k, _ in tables[d]], ctx=ast.Load())

    def dispatch_of(call):
        """-> (table name, key expr, via_get) if `call` is a dispatched call"""
        fnc = call.func
        if isinstance(fnc, ast.Name) and fnc.id in handles:
            return handles[fnc.id]
        if isinstance(fnc, ast.Subscript) and isinstance(fnc.value, ast.Name) and fnc.value.id in tables and isinstance(fnc.slice, ast.Name) \
                and (stores.get(fnc.slice.id, 0) <= 1):
            return (fnc.value.id, fnc.slice, False)
        return None

    class T(ast.NodeTransformer):
        def visit_FunctionDef(self, n):
            if n is not new:
                return n
            self.generic_visit(n)
            return n

        def visit_Lambda(self, n):
            return n

        def visit_Compare(self, n):
            self.generic_visit(n)
            if len(n.ops) != 1:
                return n
            op, l, r = n.ops[0], n.left, n.comparators[0]
            if isinstance(op, (ast.In, ast.NotIn)) and isinstance(r, ast.Name) and r.id in tables:
                hits[0] += 1
                return ast.copy_location(ast.Compare(left=l, ops=[op], comparators=[keys_tuple(r.id)]), n)
            if isinstance(op, (ast.Is, ast.IsNot)) and isinstance(l, ast.Name) and l.id in handles and isinstance(r, ast.Constant) and r.value is None \
                    and handles[l.id][2]:
                d, key, _ = handles[l.id]
                hits[0] += 1
                return ast.copy_location(ast.Compare(left=copy.deepcopy(key), ops=[ast.NotIn() if isinstance(op, ast.Is) else ast.In()], comparators=[keys_tuple(d)]), n)
            return n

        def _chain(self, stmt, call, build):
            disp = dispatch_of(call)
            if disp is None:
                return None
            d, key, via_get = disp
            arms = []
            for k, v in tables[d]:
                c2 = ast.Call(func=copy.deepcopy(v), args=copy.deepcopy(call.args), keywords=copy.deepcopy(call.keywords))
                arms.append((ast.Compare(left=copy.deepcopy(key), ops=[ast.Eq()], comparators=[copy.deepcopy(k)]), build(c2)))
            exc = "TypeError" if via_get else "KeyError"
            tail = [ast.Raise(exc=ast.Call(func=ast.Name(id=exc, ctx=ast.Load()), args=[copy.deepcopy(key)], keywords=[]), cause=None)]
            for test, body in reversed(arms):
                tail = [ast.If(test=test, body=[body], orelse=tail)]
            hits[0] += 1
            out = tail[0]
            ast.copy_location(out, stmt)
            for x in ast.walk(out):
                if not hasattr(x, "lineno"):
                    ast.copy_location(x, stmt)
            return out

        def visit_Return(self, n):
            self.generic_visit(n)
            if isinstance(n.value, ast.Call):
                r = self._chain(n, n.value, lambda c: ast.Return(value=c))
                if r is not None:
                    return r
            return n

        def visit_Assign(self, n):
            self.generic_visit(n)
            if isinstance(n.value, ast.Call):
                r = self._chain(n, n.value, lambda c: ast.Assign(targets=copy.deepcopy(n.targets), value=c))
                if r is not None:
                    return r
            return n

        def visit_Expr(self, n):
            self.generic_visit(n)
            if isinstance(n.value, ast.Call):
                r = self._chain(n, n.value, lambda c: ast.Expr(value=c))
                if r is not None:
                    return r
            return n

    new = copy.deepcopy(fn)
    # (tables / handles were collected on the original; names are what matters)
    new = T().visit(new)
    if not hits[0]:
        return None, 0
    # a table / handle that is no longer read is dropped (its construction only read bound methods)
    loads = {}
    for x in ast.walk(new):
        if isinstance(x, ast.Name) and isinstance(x.ctx, ast.Load):
            loads[x.id] = loads.get(x.id, 0) + 1
    dead = {h for h in handles if not loads.get(h)}
    # the handle assignments read their table: count the tables' loads without them
    for h in dead:
        loads[handles[h][0]] = loads.get(handles[h][0], 0) - 1
    dead |= {d for d in tables if loads.get(d, 0) <= 0}

    class Drop(ast.NodeTransformer):
        def visit_Assign(self, n):
            if len(n.targets) == 1 and isinstance(n.targets[0], ast.Name) and n.targets[0].id in dead:
                return ast.copy_location(ast.Pass(), n)
            return n

        def visit_Lambda(self, n):
            return n
    new = Drop().visit(new)
    ast.fix_missing_locations(new)
    return new, hits[0]


def desugar_dispatch(P):
    sites = []
    for f in list(P.funcs.values()):
        if f.module.is_tools or f.is_template:
            continue
        new, n = desugar_function(f.node)
        if new is not None:
            if getattr(f, "node_orig", None) is None:
                f.node_orig = f.node
            f.node = new
            if getattr(f, "wrapper_with", None) is not None and new.body and isinstance(new.body[0], ast.With):
                f.wrapper_with = new.body[0]
            sites.append((f.qual, n))
    return sites
