"""Interprocedural exception flow: which (exception, origin) pairs may leave
each function.  Origins are primitive raise sites:

  ('raise', func, line, exc, cause)   explicit raise statement
  ('dbread', func, line, text)        subscript load on a db-like mapping (KeyError)
  ('dbdel', func, line, text)         del on a db-like mapping (KeyError)
  ('index', func, line, text)         subscript on a sorted set (IndexError)
  ('ext', func, line, callee)         tabled external callee
  ('cmeth', func, line, meth)         container method (remove/pop/index)
  ('yield', func, line)               throw() into a generator context manager
  ('assert', func, line)

Modelling assumption A3: other sources (TypeError from arithmetic on ill-typed
values, IndexError on tuples / lists, KeyError on private lookup tables) are
not modelled; the package's exception discipline is what the rules examine.
"""
import ast

from .walk import Walker
from . import spec

KEYERROR_STATE = {"DB", "WDB", "CACHE", "FCACHE"}


class ExcFlow:
    def __init__(self, prog, resolver, complete_db=False):
        self.P = prog
        self.R = resolver
        self.complete_db = complete_db
        self.esc = {q: set() for q in prog.funcs}
        self.noret = set()
        self._paths = {}
        self.rounds = 0
        self._computed = False

    # ------------------------------------------------------------------
    def base_type(self, expr, f):
        return self.R.type_of(expr, f)

    def state_kind(self, expr, f):
        """STATE kind of an attribute designator like self.db, or 'MAPPARAM'."""
        if isinstance(expr, ast.Attribute):
            b = self.R.type_of(expr.value, f)
            if b and b[0] == "inst":
                st = spec.STATE.get((b[1].qual, expr.attr))
                if st:
                    return st[0]
        if isinstance(expr, ast.Name):
            if expr.id in f.all_params() and expr.id in spec.MAPPING_PARAM_NAMES:
                return "MAPPARAM"
            # local alias of a state designator: d = self.db
            al = alias_of(expr.id, f)
            if al is not None:
                return self.state_kind(al, f)
        return None

    def raises(self, node, f):
        out = []
        if isinstance(node, ast.Subscript):
            k = self.state_kind(node.value, f)
            txt = ast.unparse(node.value)
            if isinstance(node.ctx, ast.Store):
                # a write to a caller-supplied database may fail (fault model of C04 / C05)
                if k in ("DB", "WDB", "MAPPARAM"):
                    out.append(("ANY", ("dbwrite", f.qual, node.lineno, txt)))
                return out
            if k in KEYERROR_STATE or k == "MAPPARAM":
                kind = "dbdel" if isinstance(node.ctx, ast.Del) else "dbread"
                if not (self.complete_db and kind == "dbread"):
                    out.append(("KeyError", (kind, f.qual, node.lineno, txt)))
            else:
                t = self.R.type_of(node.value, f)
                if t == ("c", "sortedset"):
                    out.append(("IndexError", ("index", f.qual, node.lineno, txt)))
            return out
        if not isinstance(node, ast.Call):
            return out
        for tg in self.R.resolve_call(node, f, count=False):
            if tg.kind == "def":
                for e, o in self.esc.get(tg.func.qual, ()):
                    # an exception thrown *into* a context manager at its yield comes
                    # from the with-body, not from the manager
                    if o and o[0] == "yield" and tg.func.is_ctxmgr:
                        continue
                    out.append((e, o))
            elif tg.kind == "ctor":
                for nm in ("__new__", "__init__"):
                    g = tg.cls.methods.get(nm)
                    if g is not None:
                        out.extend(self.esc.get(g.qual, ()))
            elif tg.kind == "ext":
                ent = spec.EXT.get(tg.name)
                if ent and tg.name == "next" and len(node.args) == 2:
                    ent = (ent[0], ())  # next(it, default) does not raise StopIteration
                if ent:
                    for e in ent[1]:
                        out.append((e, ("ext", f.qual, node.lineno, tg.name)))
            elif tg.kind == "cmeth":
                if tg.meth == "remove" and tg.ctype in ("sortedset", "set", None):
                    out.append(("KeyError", ("cmeth", f.qual, node.lineno, "remove")))
                elif tg.meth == "remove" and tg.ctype == "list":
                    out.append(("ValueError", ("cmeth", f.qual, node.lineno, "remove")))
                elif tg.meth == "index":
                    out.append(("ValueError", ("cmeth", f.qual, node.lineno, "index")))
                elif tg.meth == "pop" and len(node.args) == 1 and tg.ctype in ("dict", "mapping", None):
                    k = self.state_kind(tg.recv, f) if tg.recv is not None else None
                    if k is not None or tg.ctype in ("dict", "mapping"):
                        out.append(("KeyError", ("cmeth", f.qual, node.lineno, "pop")))
        return out

    def noreturn(self, node, f):
        tgs = self.R.resolve_call(node, f, count=False)
        return bool(tgs) and all(t.kind == "def" and t.func.qual in self.noret for t in tgs)

    # ------------------------------------------------------------------
    def paths(self, f, unroll=1):
        key = (f.qual, unroll)
        if key not in self._paths:
            self._paths[key] = Walker(f, self.R, raises=self.raises, unroll=unroll, noreturn=self.noreturn).paths()
        return self._paths[key]

    def compute(self):
        if self._computed:
            return self
        changed = True
        while changed and self.rounds < 12:
            changed = False
            self.rounds += 1
            for q, f in self.P.funcs.items():
                if f.is_template:
                    continue
                ps = Walker(f, self.R, raises=self.raises, unroll=1, noreturn=self.noreturn).paths()
                new = set()
                for p in ps:
                    if p.exit[0] == "raise":
                        new.add((p.exit[1], p.exit[3]))
                nr = bool(ps) and all(p.exit[0] == "raise" for p in ps) and not f.is_generator
                if nr and q not in self.noret:
                    self.noret.add(q)
                    changed = True
                if not new <= self.esc[q]:
                    self.esc[q] |= new
                    changed = True
        self._computed = True
        self._paths.clear()
        return self

    def escapes(self, f):
        return self.esc[f.qual]


def alias_of(name, f):
    """If local `name` has exactly one binding `name = <attribute designator>`,
    return that expression."""
    from .model import walk_shallow
    found = []
    for n in walk_shallow(f.node):
        if isinstance(n, ast.Assign):
            for t in n.targets:
                if isinstance(t, ast.Name) and t.id == name:
                    found.append(n.value)
                elif isinstance(t, (ast.Tuple, ast.List)):
                    for x in ast.walk(t):
                        if isinstance(x, ast.Name) and x.id == name:
                            found.append(None)
        elif isinstance(n, (ast.For, ast.comprehension)):
            for x in ast.walk(n.target):
                if isinstance(x, ast.Name) and x.id == name:
                    found.append(None)
        elif isinstance(n, ast.AugAssign) and isinstance(n.target, ast.Name) and n.target.id == name:
            found.append(None)
    if len(found) == 1 and isinstance(found[0], (ast.Attribute, ast.Name)):
        return found[0]
    return None
