"""Context-sensitive feasibility of an exception outcome.

``feasible(entry, exc, origin)`` searches the call chains entry -> ... -> origin
site, running the abstract domains of sym.py along every path of every frame
(callee frames are entered with their parameters bound to the caller's argument
terms, so facts learnt in the caller constrain the callee).  Value-returning
callees on the way are handled by return-case summaries.
"""
import ast

from .sym import SymEngine, State, C, unk, tstr
from .model import UNKNOWN

MAX_DEPTH = 7


class Witness:
    def __init__(self):
        self.frames = []

    def as_dict(self):
        return {"frames": self.frames}


class Reach:
    def __init__(self, ctx, X, split):
        self.ctx = ctx
        self.X = X  # exception flow used for the path sets
        self.S = SymEngine(ctx)
        self.split = set(split)
        self.inconclusive = None
        self.paths_run = 0
        orig_attr = self.S._e_Attribute

    def _bind_frame(self, g, call, tg, f, st):
        """New State for callee g with params bound to the caller's argument terms."""
        S = self.S
        ns = State()
        ns.facts = st.facts.copy()
        params = list(g.params)
        if tg.kind == "ctor":
            # object under construction
            args = tuple(S.ev(a, f, st) for a in call.args)
            kws = tuple((k.arg, S.ev(k.value, f, st)) for k in call.keywords)
            ns.env[params[0]] = ("call", "ctor:" + tg.cls.qual, args, kws)
            params = params[1:]
        elif tg.recv is not None and params and g.cls is not None and not g.is_static:
            ns.env[params[0]] = S.ev(tg.recv, f, st)
            params = params[1:]
        elif g.cls is not None and g.is_classmethod and params:
            ns.env[params[0]] = ("cls", g.cls.qual)
            params = params[1:]
        i = 0
        for a in call.args:
            if isinstance(a, ast.Starred):
                break
            if i < len(params):
                ns.env[params[i]] = S.ev(a, f, st)
            i += 1
        for k in call.keywords:
            if k.arg is not None:
                ns.env[k.arg] = S.ev(k.value, f, st)
        for pn, d in g.defaults().items():
            if pn not in ns.env:
                v = self.ctx.P.fold(g.module, d)
                ns.env[pn] = S._const_term(v) if v is not UNKNOWN else unk("default")
        for pn in g.all_params():
            if pn not in ns.env:
                ns.env[pn] = unk("arg:" + pn)
        return ns

    def feasible(self, f, exc, origin, st=None, depth=0, stack=()):
        """-> Witness (feasible) | None (infeasible).  Sets self.inconclusive on doubt."""
        if depth > MAX_DEPTH or f.qual in stack:
            self.inconclusive = "call chain too deep / recursive at %s" % f.qual
            return Witness()
        S = self.S
        for p in self.X.paths(f):
            if p.exit[0] != "raise" or p.exit[1] != exc or p.exit[3] != origin:
                continue
            # the event that produced the exception (with_exit / finally marks may follow it)
            li = None
            for i in range(len(p.events) - 1, -1, -1):
                e = p.events[i]
                if (e.k in ("raise", "call", "src") and e.a == exc and e.b == origin) or (e.k == "yield" and e.a == "throw"):
                    li = i
                    break
            if li is None:
                continue
            last = p.events[li]
            from .walk import Path
            pre = Path(p.events[:li], ("fall",))
            self.paths_run += 1
            states = S.run(f, pre, init=st, split=self.split)
            for s in states:
                if last.k == "raise":
                    w = Witness()
                    w.frames.append(self._frame_desc(f, s, last))
                    return w
                if last.k == "src":
                    w = Witness()
                    w.frames.append(self._frame_desc(f, s, last))
                    return w
                if last.k == "call":
                    sub = None
                    for tg in self.ctx.R.resolve_call(last.node, f, count=False):
                        gs = []
                        if tg.kind == "def":
                            gs = [tg.func]
                        elif tg.kind == "ctor":
                            gs = [tg.cls.methods.get(n) for n in ("__new__", "__init__")]
                        elif tg.kind in ("ext", "cmeth"):
                            w = Witness()
                            w.frames.append(self._frame_desc(f, s, last))
                            return w
                        for g in gs:
                            if g is None or (exc, origin) not in self.X.esc.get(g.qual, ()):
                                continue
                            ns = self._bind_frame(g, last.node, tg, f, s)
                            sub = self.feasible(g, exc, origin, ns, depth + 1, stack + (f.qual,))
                            if sub is not None:
                                sub.frames.insert(0, self._frame_desc(f, s, last))
                                return sub
                elif last.k in ("yield",):
                    w = Witness()
                    w.frames.append(self._frame_desc(f, s, last))
                    return w
        return None

    def _frame_desc(self, f, st, ev):
        conds = ["%s is %s" % (tstr(t)[:90], pol) for t, pol, _ in st.log]
        return {"function": f.qual, "at": f.loc(ev.node), "event": ev.k, "path_conditions": conds[-12:]}
