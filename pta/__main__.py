import argparse
import json
import os
import sys
import traceback


def main(argv=None):
    ap = argparse.ArgumentParser(prog="pta")
    sub = ap.add_subparsers(dest="cmd", required=True)
    c = sub.add_parser("check")
    c.add_argument("prop")
    c.add_argument("--tier", default=os.environ.get("VERIF_TIER") or "quick", choices=["quick", "thorough"])
    c.add_argument("--rules", default=None)
    c.add_argument("--no-write", action="store_true")
    c.add_argument("-v", action="store_true")
    r = sub.add_parser("replay")
    r.add_argument("path")
    a = sub.add_parser("all")
    a.add_argument("--tier", default="quick")
    s = sub.add_parser("selftest")
    s.add_argument("props", nargs="*")
    s.add_argument("-j", type=int, default=16)
    sd = sub.add_parser("seeds")
    sd.add_argument("prop", nargs="?")
    bn = sub.add_parser("benign")
    bn.add_argument("props", nargs="*")
    args = ap.parse_args(argv)
    from . import core
    if args.cmd == "check":
        try:
            code, ctx = core.run_property(args.prop, args.tier, rules_only=args.rules.split(",") if args.rules else None,
                                          write=not args.no_write)
            if args.v and ctx is not None:
                for o in ctx.obs:
                    print("   ", o.line())
            return code
        except Exception:
            traceback.print_exc()
            print("ANALYSIS-ERROR property=%s internal error" % args.prop)
            return 2
    if args.cmd == "all":
        from . import rules  # noqa
        worst = 0
        for pid in sorted(core.PROP_RULES):
            code, _ = core.run_property(pid, args.tier)
            worst = max(worst, code)
        return worst
    if args.cmd == "replay":
        with open(args.path) as fh:
            rp = json.load(fh)
        code, ctx = core.run_property(rp["property"], rp.get("tier", "quick"), rules_only=[rp["rule"]], write=False, quiet=True)
        hit = [o for o in (ctx.obs if ctx else []) if o.rule == rp["rule"] and o.construct == rp["construct"] and o.verdict == "violation"]
        if hit:
            for o in hit:
                print("REPRODUCED %s" % o.line())
                if o.witness:
                    print(json.dumps(o.witness, indent=1, default=str))
            return 1
        print("not reproduced on the current tree: rule=%s construct=%s" % (rp["rule"], rp["construct"]))
        return 0
    if args.cmd == "seeds":
        from . import seeds
        res, fails = seeds.run(args.prop)
        return 2 if fails else 0
    if args.cmd == "benign":
        from . import seeds
        res, fails = seeds.run_benign(args.props or None)
        return 2 if fails else 0
    if args.cmd == "selftest":
        from . import selftest
        return selftest.main(args.props, args.j)


if __name__ == "__main__":
    sys.exit(main())
