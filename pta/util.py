"""Shared helpers for rules."""
import ast

from .model import walk_shallow, AnalysisError

DUNDERS = ("__init__", "__getitem__", "__setitem__", "__delitem__", "__contains__", "__new__", "__eq__", "__add__")


def is_public(f):
    if f.parent is not None:
        return False
    n = f.name
    if n.startswith("__") and n.endswith("__"):
        return n in DUNDERS
    return not n.startswith("_")


def public_entries(ctx, cls_qual):
    c = ctx.P.cls(cls_qual)
    out = [m for m in c.methods.values() if is_public(m)]
    out += list(c.setters.values())
    return sorted(out, key=lambda f: f.node.lineno)


def module_functions(ctx, modname, public_only=False):
    m = ctx.P.modules.get(modname)
    if m is None:
        raise AnalysisError("anchor vanished: module %s" % modname)
    fs = sorted(m.funcs.values(), key=lambda f: f.node.lineno)
    return [f for f in fs if not public_only or is_public(f)]


def class_functions(ctx, cls_qual):
    c = ctx.P.cls(cls_qual)
    return sorted(list(c.methods.values()) + list(c.setters.values()), key=lambda f: f.node.lineno)


def all_functions(ctx, include_tools=True):
    return [f for f in ctx.P.funcs.values() if not f.is_template and (include_tools or not f.module.is_tools)]


def self_attr(e, f, attr=None):
    """e is `self.<attr>` for f's own receiver."""
    return (isinstance(e, ast.Attribute) and isinstance(e.value, ast.Name) and e.value.id == f.self_name
            and f.self_name is not None and (attr is None or e.attr == attr))


def contains(node, sub):
    for n in ast.walk(node):
        if n is sub:
            return True
    return False


def call_name(call):
    return ast.unparse(call.func)


def fkey(f):
    """Stable construct key for a function (no line numbers)."""
    return f.short + (".setter" if f.qual.endswith(".setter") and not f.short.endswith(".setter") else "")


def norm_src(node):
    """Normalised statement text for construct keys."""
    return " ".join(ast.unparse(node).split())[:80]


class Trace:
    """Ordered effect view of a path: primitive effects at their events and the
    callee effect summaries lifted to the caller at call events."""

    def __init__(self, ctx, f):
        self.ctx = ctx
        self.f = f
        prims = ctx.E.primitives(f)
        self.by_node = {}
        for e in prims:
            self.by_node.setdefault(id(e.node), []).append(e)
        # effects whose node is an expression inside a statement / test (Compare `in`, Subscript load)
        self._inner = [e for e in prims if isinstance(e.node, (ast.Compare,))]
        self._lift_cache = {}

    def lifted(self, call):
        k = id(call)
        if k in self._lift_cache:
            return self._lift_cache[k]
        out = []
        S = self.ctx.E.summaries()
        for tg in self.ctx.R.resolve_call(call, self.f, count=False):
            if tg.kind == "def":
                gs = [tg.func]
            elif tg.kind == "ctor":
                gs = [tg.cls.methods.get(n) for n in ("__new__", "__init__")]
            else:
                continue
            for g in gs:
                if g is None:
                    continue
                for eff in S.get(g.qual, ()):
                    e2 = self.ctx.E.lift(eff, call, tg, self.f)
                    if e2 is not None:
                        out.append(e2)
        self._lift_cache[k] = out
        return out

    def cm_split(self, call):
        """For a `with cm(...)` item whose callee is a generator context manager:
        (enter-part effects, exit-part effects on normal resume, exit-part effects on throw),
        obtained from the manager's own paths split at its yield and lifted to this caller."""
        k = ("cm", id(call))
        if k in self._lift_cache:
            return self._lift_cache[k]
        res = None
        tgs = self.ctx.R.resolve_call(call, self.f, count=False)
        if len(tgs) == 1 and tgs[0].kind == "def" and tgs[0].func.is_ctxmgr and id(call) in self._with_items():
            g = tgs[0].func
            gt = Trace(self.ctx, g)
            parts = ([], [], [])
            seen = (set(), set(), set())
            ok = True
            for p in self.ctx.X.paths(g):
                idx = 0
                for ev in p.events:
                    if ev.k == "yield":
                        idx = 1 if ev.a == "resume" else 2
                        continue
                    if ev.k in ("call", "src") and ev.a != "ok":
                        continue
                    for e in gt.at(ev):
                        e2 = self.ctx.E.lift(e, call, tgs[0], self.f)
                        if e2 is None:
                            continue
                        key = (e2.op, e2.state, e2.loc, id(e2.node))
                        if key not in seen[idx]:
                            seen[idx].add(key)
                            parts[idx].append(e2)
            res = parts
        self._lift_cache[k] = res
        return res

    def _with_items(self):
        if not hasattr(self, "_wi"):
            from .model import walk_shallow
            self._wi = {}
            for n in walk_shallow(self.f.node):
                if isinstance(n, ast.With):
                    for it in n.items:
                        self._wi[id(it.context_expr)] = n
        return self._wi

    def at(self, ev):
        """Effects happening at event ev (in order: inner reads, lifted callee effects, own primitive)."""
        out = []
        n = ev.node
        if ev.k == "with_exit":
            for it in n.items:
                if isinstance(it.context_expr, ast.Call):
                    sp = self.cm_split(it.context_expr)
                    if sp is not None:
                        out.extend(sp[1] if ev.a == "normal" else sp[2] if ev.a == "raise" else sp[1] + sp[2])
            return out
        if ev.k in ("call", "src") and ev.a == "ok":
            out.extend(self.by_node.get(id(n), ()))
            if ev.k == "call":
                sp = self.cm_split(n) if isinstance(n, ast.Call) else None
                if sp is not None:
                    out.extend(sp[0])
                else:
                    out.extend(self.lifted(n))
        elif ev.k == "stmt":
            for e in self._inner:
                if contains(n, e.node):
                    out.append(e)
            out.extend(self.by_node.get(id(n), ()))
        elif ev.k == "assume":
            for e in self._inner:
                if e.node is n or contains(n, e.node):
                    out.append(e)
        return out


def real(eff):
    """Effect on an object that outlives the activation (not created by it)."""
    return eff.loc is not None and eff.loc[0][0] in ("self", "param", "global", "local", "unknown")


def is_self_root(eff):
    return eff.loc is not None and eff.loc[0][0] == "self"


def alpha_src(f):
    """Source of function f with blanks removed and every local (a name bound inside the function that is
    not a parameter) renamed v0, v1, .. in order of first binding.  Shape rules that compare source text use
    this form, so that renaming a local never changes a verdict."""
    import copy
    tree = copy.deepcopy(f.node)
    stores = []
    for n in ast.walk(tree):
        if isinstance(n, ast.Name) and isinstance(n.ctx, ast.Store) and n.id not in f.params:
            stores.append((n.lineno, n.col_offset, n.id))
    order = {}
    for _, _, name in sorted(stores):
        order.setdefault(name, "v%d" % len(order))
    for n in ast.walk(tree):
        if isinstance(n, ast.Name) and n.id in order:
            n.id = order[n.id]
    return ast.unparse(tree).replace(" ", "")


def path_deref(p, expr, upto=None, depth=3):
    """A returned / tested local resolved on the path: `x = e; return x` is `return e`.  Looks backwards
    from the end of the path (or from event index `upto`) for the last plain assignment to the name."""
    evs = p.events if upto is None else p.events[:upto]
    while depth > 0 and isinstance(expr, ast.Name):
        found = None
        for i in range(len(evs) - 1, -1, -1):
            ev = evs[i]
            if ev.k == "stmt" and isinstance(ev.node, ast.Assign) and len(ev.node.targets) == 1 \
                    and isinstance(ev.node.targets[0], ast.Name) and ev.node.targets[0].id == expr.id:
                found = (i, ev.node.value)
                break
            if ev.k == "stmt" and isinstance(ev.node, (ast.AugAssign, ast.AnnAssign)) and isinstance(ev.node.target, ast.Name) and ev.node.target.id == expr.id:
                return expr
            if ev.k == "bind":
                names = [n.id for n in ast.walk(ev.node) if isinstance(n, ast.Name)] if isinstance(ev.node, ast.AST) and not isinstance(ev.node, ast.ExceptHandler) else []
                if expr.id in names:
                    return expr
        if found is None:
            return expr
        evs = evs[:found[0]]
        expr = found[1]
        depth -= 1
    return expr


def ret_deref(f, ret):
    """Static variant for `tmp = e` immediately followed by `return tmp` in the same block -> e."""
    v = ret.value
    if not isinstance(v, ast.Name):
        return v
    for n in ast.walk(f.node):
        for fld in ("body", "orelse", "finalbody"):
            blk = getattr(n, fld, None)
            if isinstance(blk, list) and ret in blk:
                i = blk.index(ret)
                if i > 0 and isinstance(blk[i - 1], ast.Assign) and len(blk[i - 1].targets) == 1 and isinstance(blk[i - 1].targets[0], ast.Name) \
                        and blk[i - 1].targets[0].id == v.id:
                    return blk[i - 1].value
    return v


def expand_locals(ctx, f, expr, depth=3):
    """copy of `expr` in which every local that is bound exactly once (to an expression) is replaced by that
    expression: `n = len(key); validate_length(branch, n * 8)` reads `validate_length(branch, len(key) * 8)`"""
    import copy
    binds = ctx.E.bindings(f)

    class R(ast.NodeTransformer):
        def __init__(self, d):
            self.d = d

        def visit_Name(self, n):
            if isinstance(n.ctx, ast.Load) and n.id not in f.all_params() and self.d > 0:
                bs = binds.get(n.id) or []
                if len(bs) == 1 and isinstance(bs[0], ast.expr):
                    return R(self.d - 1).visit(copy.deepcopy(bs[0]))
            return n
    return R(depth).visit(copy.deepcopy(expr))


def proof_walker(ctx):
    """The function that collects the proof nodes for HexaryTrie.get_proof, and its form:
    ("acc")  _get_proof(self, node, trie_key, proven_len, last_proof), a recursion with an accumulating tuple;
    ("gen")  a generator method that get_proof wraps in tuple(...) - the same walk yielding the nodes one by one
             (what is left of the key travels in the key parameter)."""
    from .model import AnalysisError
    from .known_funcs import KNOWN_FUNCS
    q = "trie.hexary:HexaryTrie._get_proof"
    if q in ctx.P.funcs:
        g = ctx.P.funcs[q]
        if g.is_generator and len(g.params) in (3, 4):
            return g, "gen"  # the recursion itself turned into a generator (under @to_tuple, or tuple(..) at the entry)
        return g, "acc"
    key = "proof-walker"
    if key in ctx.cache:
        if ctx.cache[key] is None:
            raise AnalysisError("anchor vanished: function %s not found" % q)
        return ctx.cache[key], "gen"
    ctx.cache[key] = None
    gp = ctx.P.funcs.get("trie.hexary:HexaryTrie.get_proof")
    found = None
    if gp is not None:
        for n in ast.walk(gp.node):
            if isinstance(n, ast.Call) and isinstance(n.func, ast.Name) and n.func.id in ("tuple", "list") and len(n.args) == 1 and isinstance(n.args[0], ast.Call):
                for t in ctx.R.resolve_call(n.args[0], gp, count=False):
                    if t.kind == "def" and t.func.is_generator and t.func.cls is gp.cls and t.func.qual not in KNOWN_FUNCS and len(t.func.params) == 3:
                        found = t.func
    ctx.cache[key] = found
    if found is None:
        raise AnalysisError("anchor vanished: function %s not found" % q)
    return found, "gen"


def opaque_heads(term, heads=("mut",)):
    """Heads from `heads` occurring anywhere in a symbolic term (nested tuples).

    A term that holds an element of a mutated accumulator ("mut") or an unread comprehension ("gen") is one
    the engine did not interpret: a table rule that compares shapes cannot decide on it and must report
    inconclusive (exit 2), never a violation (seed C14-r6-1: set() refactored into a list of (hash, node) pairs).
    """
    found = set()
    stack = [term]
    while stack:
        t = stack.pop()
        if isinstance(t, tuple):
            if t and isinstance(t[0], str) and t[0] in heads:
                found.add(t[0])
            stack.extend(x for x in t if isinstance(x, (tuple, list)))
        elif isinstance(t, list):
            stack.extend(t)
    return found
